//! TaskTracker (C14): the real `TaskTracker` / `Task` of p2panda/src/processor/tasks.rs driven
//! under schedules chosen by TLC (replay) or by a seeded random scheduler (record), against
//! spec/TaskTracker.
//!
//! All actors (submitters = `Pipeline::process` callers, and the pipeline thread's
//! `mark_as_done` loop) are futures polled *by hand* on one thread.  Every cfg-guarded schedule
//! point of the real code (`p2panda_core::verif::point`) and every harness-level point yields
//! exactly once, so one poll advances an actor from one schedule point to the next: one spec
//! action.  There is no runtime, no timer and no other thread: when every unfinished actor has
//! returned `Pending` and no waker has fired, nothing can ever wake them again -- that is how
//! "the call never returns" is decided (no wall clock involved).
use std::cell::RefCell;
use std::collections::BTreeMap;
use std::future::Future;
use std::pin::Pin;
use std::rc::Rc;
use std::sync::atomic::{AtomicU64, AtomicUsize, Ordering};
use std::sync::{Arc, Condvar, Mutex};
use std::time::Duration;
use std::task::{Context, Poll, Wake, Waker};

use p2panda::verif_api::TaskTracker;
use tokio::sync::mpsc;
use vh_common::{Args, Outcome, Rng, TraceWriter, Value, catch, json, read_ndjson, unknown};

pub fn run(args: &Args) {
    match (args.mode.as_str(), args.extra.get("mode").map(|s| s.as_str())) {
        ("replay", _) => replay(args),
        ("record", _) => record(args),
        _ => unknown(args),
    }
}

// ------------------------------------------------------------------------------------------
// schedule points

thread_local! {
    /// Set while the harness polls an actor: the last schedule point that actor reached.
    pub(crate) static CURRENT: RefCell<Option<Option<&'static str>>> = const { RefCell::new(None) };
}

/// A future that is `Pending` exactly once.
pub(crate) struct YieldOnce(bool);

impl Future for YieldOnce {
    type Output = ();
    fn poll(mut self: Pin<&mut Self>, _cx: &mut Context<'_>) -> Poll<()> {
        if self.0 {
            Poll::Ready(())
        } else {
            self.0 = true;
            Poll::Pending
        }
    }
}

/// Controller installed into `p2panda_core::verif`: on the harness thread, while an actor is
/// being polled, a schedule point records its name and yields once; anywhere else it is a no-op.
pub(crate) fn controller(name: &'static str) -> Option<p2panda_core::verif::Parked> {
    CURRENT.with(|c| {
        let mut c = c.borrow_mut();
        match c.as_mut() {
            Some(slot) => {
                *slot = Some(name);
                Some(Box::pin(YieldOnce(false)) as p2panda_core::verif::Parked)
            }
            None => PIPE_GATE.with(|g| {
                g.borrow().clone().map(|gate| {
                    // the real second thread: block it right here until the harness lets it go on
                    Box::pin(async move { gate.arrive(name) }) as p2panda_core::verif::Parked
                })
            }),
        }
    })
}

thread_local! {
    /// Set on the harness-owned pipeline thread (threaded replay): its gate.
    static PIPE_GATE: RefCell<Option<Arc<Gate>>> = const { RefCell::new(None) };
}

/// Hand-over-hand control of the second thread: it blocks at every schedule point until the
/// harness grants one permit (or opens the gate for good).
pub(crate) struct Gate {
    m: Mutex<GateState>,
    cv: Condvar,
}

#[derive(Default)]
struct GateState {
    arrivals: u64,
    at: Option<&'static str>,
    permits: u64,
    open: bool,
}

const PATIENCE: Duration = Duration::from_secs(120);

impl Gate {
    fn new() -> Arc<Gate> {
        Arc::new(Gate { m: Mutex::new(GateState::default()), cv: Condvar::new() })
    }

    fn arrive(&self, name: &'static str) {
        let mut st = self.m.lock().unwrap();
        st.arrivals += 1;
        st.at = Some(name);
        self.cv.notify_all();
        while !st.open && st.permits == 0 {
            st = self.cv.wait(st).unwrap();
        }
        if !st.open {
            st.permits -= 1;
        }
        st.at = None;
    }

    fn grant(&self) {
        let mut st = self.m.lock().unwrap();
        st.permits += 1;
        self.cv.notify_all();
    }

    fn open(&self) {
        let mut st = self.m.lock().unwrap();
        st.open = true;
        self.cv.notify_all();
    }

    /// Waits until the thread has arrived at its `n`-th schedule point; returns the point's name.
    /// The thread is certain to get there (nothing it waits for is withheld), so running out of
    /// patience is a tool error, never a verdict.
    fn wait_arrival(&self, n: u64) -> &'static str {
        let mut st = self.m.lock().unwrap();
        while st.arrivals < n || st.at.is_none() {
            let (g, to) = self.cv.wait_timeout(st, PATIENCE).unwrap();
            st = g;
            if to.timed_out() && (st.arrivals < n || st.at.is_none()) {
                eprintln!("threaded replay: pipeline thread did not reach its next schedule point");
                std::process::exit(2);
            }
        }
        st.at.unwrap()
    }
}

/// Harness-level schedule point (same mechanics as the hooks inside the real code).
async fn hpoint(name: &'static str) {
    if let Some(p) = controller(name) {
        p.await
    }
}

pub(crate) struct CountingWaker(pub AtomicUsize);

impl Wake for CountingWaker {
    fn wake(self: Arc<Self>) {
        self.0.fetch_add(1, Ordering::SeqCst);
    }
    fn wake_by_ref(self: &Arc<Self>) {
        self.0.fetch_add(1, Ordering::SeqCst);
    }
}

#[derive(Clone, Debug, PartialEq, Eq)]
pub(crate) enum Loc {
    /// Not polled yet.
    Start,
    /// Parked at the named schedule point.
    At(&'static str),
    /// Returned `Pending` without reaching a schedule point: waiting for a lock / channel / notify.
    Blocked(Option<&'static str>),
    Done,
    Panicked(String),
}

pub(crate) struct Actor {
    pub fut: Option<Pin<Box<dyn Future<Output = ()>>>>,
    pub loc: Loc,
    pub wakes: Arc<CountingWaker>,
}

impl Actor {
    pub fn new(fut: Pin<Box<dyn Future<Output = ()>>>) -> Actor {
        Actor {
            fut: Some(fut),
            loc: Loc::Start,
            wakes: Arc::new(CountingWaker(AtomicUsize::new(0))),
        }
    }

    pub fn finished(&self) -> bool {
        matches!(self.loc, Loc::Done | Loc::Panicked(_))
    }

    /// Last schedule point this actor passed (where it is parked, or where it was before blocking).
    pub fn last_point(&self) -> Option<&'static str> {
        match &self.loc {
            Loc::At(p) => Some(p),
            Loc::Blocked(p) => *p,
            _ => None,
        }
    }

    /// Polls the actor once. Returns true iff it made progress (reached a point or finished).
    pub fn poll(&mut self) -> bool {
        let before = self.last_point();
        let Some(fut) = self.fut.as_mut() else {
            return false;
        };
        CURRENT.with(|c| *c.borrow_mut() = Some(None));
        let waker = Waker::from(self.wakes.clone());
        let mut cx = Context::from_waker(&waker);
        let res = catch(|| fut.as_mut().poll(&mut cx));
        let reached = CURRENT.with(|c| c.borrow_mut().take()).flatten();
        match res {
            Err(p) => {
                self.fut = None;
                self.loc = Loc::Panicked(p);
                true
            }
            Ok(Poll::Ready(())) => {
                self.fut = None;
                self.loc = Loc::Done;
                true
            }
            Ok(Poll::Pending) => match reached {
                Some(p) => {
                    self.loc = Loc::At(p);
                    true
                }
                None => {
                    self.loc = Loc::Blocked(before);
                    false
                }
            },
        }
    }
}

// ------------------------------------------------------------------------------------------
// the system under test: real TaskTracker, harness-owned channel (tracker-level replay)

pub(crate) type Res = (u64, u64); // (operation id, processing run)
/// Entry recorded for a call whose future was dropped by the caller (spec action `Cancel`).
const CANCELLED: Res = (u64::MAX, 0);

#[derive(Default)]
pub(crate) struct Shared {
    /// Per submitter: results returned by finished calls.
    pub rets: BTreeMap<String, Vec<Res>>,
    /// Per submitter: creation index (1-based) of the task instance `track` returned last.
    pub held: BTreeMap<String, usize>,
    /// Task instances by address, in creation order; clones are kept alive (no address reuse).
    pub tasks: Vec<usize>,
    /// Number of `send`s completed by submitters.
    pub sent: u64,
}

struct System {
    subs: Vec<String>,
    actors: BTreeMap<String, Actor>,
    shared: Rc<RefCell<Shared>>,
    /// Events taken off the channel by the pipeline loop (= processing runs started).
    runs: Arc<AtomicU64>,
    /// Events whose `mark_as_done` has returned.
    done: Arc<AtomicU64>,
    keep_tx: Option<mpsc::Sender<(u64, String)>>,
    /// Threaded mode: the second thread and its gate.
    thread: Option<(std::thread::JoinHandle<()>, Arc<Gate>)>,
    arrivals: u64,
    at_gate: Option<&'static str>,
}

fn id_num(id: &str) -> u64 {
    id.trim_start_matches('i').parse().expect("ids are i<N>")
}

/// `more[s]`: the submitter's call table goes on after the calls it executes in this run (record
/// mode cuts tables short): it then parks at `h.returned` (spec location `track`) and stops.
fn build(calls: &BTreeMap<String, Vec<String>>, more: &BTreeMap<String, bool>, cap: usize, threaded: bool) -> System {
    let tracker = TaskTracker::<Res, u64>::new();
    let (tx, mut rx) = mpsc::channel::<(u64, String)>(cap.max(1));
    let shared = Rc::new(RefCell::new(Shared::default()));
    let runs = Arc::new(AtomicU64::new(0));
    let done = Arc::new(AtomicU64::new(0));
    let mut actors = BTreeMap::new();
    // keeps every Task instance alive so that instance addresses are never reused
    let keep: Rc<RefCell<Vec<p2panda::verif_api::Task<Res, u64>>>> = Rc::new(RefCell::new(Vec::new()));

    for (s, ids) in calls {
        let (tracker, tx, shared, keep) = (tracker.clone(), tx.clone(), shared.clone(), keep.clone());
        let (s2, ids) = (s.clone(), ids.clone());
        let more = more.get(s).copied().unwrap_or(false);
        // mirrors Pipeline::process (pipeline.rs:162-176): track, send, ready
        let fut = async move {
            let n = ids.len();
            for (k, id) in ids.iter().enumerate() {
                let id = id_num(id);
                let task = tracker.track(id).await;
                {
                    let mut sh = shared.borrow_mut();
                    let addr = task.verif_addr();
                    let idx = match sh.tasks.iter().position(|a| *a == addr) {
                        Some(i) => i + 1,
                        None => {
                            sh.tasks.push(addr);
                            keep.borrow_mut().push(task.clone());
                            sh.tasks.len()
                        }
                    };
                    sh.held.insert(s2.clone(), idx);
                }
                hpoint("h.tracked").await;
                let _ = tx.send((id, s2.clone())).await;
                shared.borrow_mut().sent += 1;
                hpoint("h.sent").await;
                let r = task.ready().await;
                {
                    let mut sh = shared.borrow_mut();
                    sh.rets.entry(s2.clone()).or_default().push(r);
                    sh.held.insert(s2.clone(), 0);
                }
                if k + 1 < n || more {
                    hpoint("h.returned").await;
                }
            }
        };
        actors.insert(s.clone(), Actor::new(Box::pin(fut)));
    }

    // mirrors the pipeline thread (pipeline.rs:138-140)
    let pipe_loop = {
        let (tracker, runs, done) = (tracker.clone(), runs.clone(), done.clone());
        async move {
            while let Some((id, _from)) = rx.recv().await {
                let run = runs.fetch_add(1, Ordering::SeqCst) + 1;
                hpoint("h.recvd").await;
                tracker.mark_as_done(id, (id, run)).await;
                done.fetch_add(1, Ordering::SeqCst);
                hpoint("h.marked").await;
            }
        }
    };
    let mut thread = None;
    if threaded {
        // a real second OS thread with its own current-thread runtime, as Pipeline::new spawns it
        let gate = Gate::new();
        let g2 = gate.clone();
        let handle = std::thread::spawn(move || {
            PIPE_GATE.with(|g| *g.borrow_mut() = Some(g2));
            let rt = tokio::runtime::Builder::new_current_thread().enable_all().build().expect("runtime");
            let local = tokio::task::LocalSet::new();
            local.spawn_local(pipe_loop);
            rt.block_on(local);
        });
        thread = Some((handle, gate));
    } else {
        actors.insert("pipe".to_string(), Actor::new(Box::pin(pipe_loop)));
    }

    System {
        subs: calls.keys().cloned().collect(),
        actors,
        shared,
        runs,
        done,
        keep_tx: Some(tx),
        thread,
        arrivals: 0,
        at_gate: None,
    }
}

impl System {
    /// Runs every unfinished actor (fixed order) until nobody can move any more: every actor is
    /// finished or has returned `Pending` without reaching a point and its waker has not fired.
    fn run_to_quiescence(&mut self) {
        loop {
            let mut progress = false;
            let names: Vec<String> = self.actors.keys().cloned().collect();
            for name in names {
                let a = self.actors.get_mut(&name).unwrap();
                if a.finished() {
                    continue;
                }
                // a blocked actor is only worth polling again if its waker fired
                if matches!(a.loc, Loc::Blocked(_)) && a.wakes.0.load(Ordering::SeqCst) == 0 {
                    continue;
                }
                a.wakes.0.store(0, Ordering::SeqCst);
                if a.poll() {
                    progress = true;
                }
            }
            let any_woken = self
                .actors
                .values()
                .any(|a| !a.finished() && matches!(a.loc, Loc::Blocked(_)) && a.wakes.0.load(Ordering::SeqCst) > 0);
            if !progress && !any_woken {
                break;
            }
        }
    }

    /// Threaded mode: one spec step of the pipeline = let the second thread run to its next
    /// schedule point and wait until it is parked there. Returns the spec location reached.
    fn pipe_step_threaded(&mut self, act: &str) -> String {
        let gate = self.thread.as_ref().unwrap().1.clone();
        // PRecv happens by itself as soon as an event is in the channel (the thread then waits at
        // `h.recvd`); every other step starts from a gate and needs a permit
        if self.at_gate.is_some() && !(act == "PRecv" && self.at_gate == Some("h.recvd")) {
            gate.grant();
            self.arrivals += 1;
        } else if self.at_gate.is_none() {
            self.arrivals += 1;
        }
        let at = gate.wait_arrival(self.arrivals);
        self.at_gate = Some(at);
        pipe_loc_name(&Loc::At(at))
    }

    fn pipe_loc_threaded(&self) -> String {
        match self.at_gate {
            Some(at) => pipe_loc_name(&Loc::At(at)),
            None => "idle".to_string(),
        }
    }

    /// Threaded mode: lets the second thread run freely and decides who is stuck for good.
    fn run_to_quiescence_threaded(&mut self) {
        let gate = self.thread.as_ref().unwrap().1.clone();
        gate.open();
        let mut t0 = std::time::Instant::now();
        loop {
            // poll everybody who can move: parked at a point, or blocked with a fired waker (a
            // lock/channel permit may have been handed to a queued submitter by the other thread)
            let mut progress = false;
            for s in self.subs.clone() {
                let a = self.actors.get_mut(&s).unwrap();
                loop {
                    if a.finished() || (matches!(a.loc, Loc::Blocked(_)) && a.wakes.0.swap(0, Ordering::SeqCst) == 0) {
                        break;
                    }
                    if a.poll() {
                        progress = true;
                    }
                }
            }
            if self.subs.iter().all(|s| self.actors[s].finished()) {
                break;
            }
            if progress {
                t0 = std::time::Instant::now();
                continue;
            }
            // every event sent so far is certain to be processed by the free-running thread;
            // wait for exactly that (patience exhausted = tool error, not a verdict)
            let sent = self.shared.borrow().sent;
            if self.done.load(Ordering::SeqCst) < sent {
                std::thread::sleep(Duration::from_millis(1));
                if t0.elapsed() > PATIENCE {
                    eprintln!("threaded replay: pipeline thread did not drain its channel");
                    std::process::exit(2);
                }
                continue;
            }
            // The thread has finished every mark_as_done it will ever run (nothing more was
            // sent) and sits in `recv`; its wake-ups happened before `done` was bumped. One more
            // poll of everybody: whoever is still pending now can never be woken again.
            let mut late = false;
            for s in self.subs.clone() {
                let a = self.actors.get_mut(&s).unwrap();
                a.wakes.0.store(0, Ordering::SeqCst);
                while !a.finished() && a.poll() {
                    late = true;
                }
            }
            if !late && self.shared.borrow().sent == sent {
                break;
            }
        }
    }

    /// Threaded mode: closes the channel and joins the second thread.
    fn shutdown(mut self) {
        if let Some((handle, gate)) = self.thread.take() {
            gate.open();
            self.actors.clear();
            self.keep_tx = None;
            let _ = handle.join();
        }
    }

    fn stuck(&self) -> Vec<String> {
        self.subs
            .iter()
            .filter(|s| !matches!(self.actors[*s].loc, Loc::Done))
            .cloned()
            .collect()
    }
}

/// Which order `Task::ready` of the code under test uses, found by probing the real code:
/// true = the Notified future is created before the result check (hook `task.ready.after_create`
/// comes first), false = result check first (hook `task.ready.after_check` comes first).
pub(crate) fn probe_register_first() -> bool {
    let tracker = TaskTracker::<Res, u64>::new();
    let t2 = tracker.clone();
    let mut a = Actor::new(Box::pin(async move {
        let task = t2.track(1).await;
        let _ = task.ready().await;
    }));
    a.poll();
    a.loc == Loc::At("task.ready.after_create")
}

fn sub_loc_name(loc: &Loc, register_first: bool) -> String {
    match loc {
        Loc::Start => "track".into(),
        Loc::At("h.tracked") => "send".into(),
        Loc::At("h.sent") => if register_first { "create" } else { "check" }.into(),
        Loc::At("task.ready.after_create") => "check".into(),
        Loc::At("task.ready.after_check") => if register_first { "await" } else { "window" }.into(),
        // waiting for the result mutex in the first check (another reader or the writer holds it)
        Loc::Blocked(Some("task.ready.after_create")) => "c_wait".into(),
        // after the check: waiting for the notification (check-first code: always; create-first
        // code: only in free runs) or, once notified, for the result mutex
        Loc::Blocked(Some("task.ready.after_check")) => if register_first { "t_wait" } else { "await" }.into(),
        // re-read after the wake-up: parked while HOLDING the result mutex
        Loc::At("task.ready.holding_result") => "t_locked".into(),
        Loc::At("h.returned") => "track".into(),
        Loc::Done => "finished".into(),
        other => format!("{other:?}"),
    }
}

fn pipe_loc_name(loc: &Loc) -> String {
    match loc {
        Loc::Start | Loc::At("h.marked") => "idle".into(),
        Loc::Blocked(_) => "idle".into(),
        Loc::At("h.recvd") => "remove".into(),
        Loc::At("tracker.mark_as_done.after_remove") => "set".into(),
        Loc::At("task.mark_as_done.after_set") => "notify".into(),
        Loc::At("task.mark_as_done.after_notify") => "unlock".into(),
        other => format!("{other:?}"),
    }
}

fn calls_of(b: &Value) -> BTreeMap<String, Vec<String>> {
    let mut m = BTreeMap::new();
    for (s, ids) in b["cfg"]["subs"].as_object().expect("cfg.subs") {
        m.insert(
            s.clone(),
            ids.as_array().expect("ids").iter().map(|x| x.as_str().unwrap().to_string()).collect(),
        );
    }
    m
}

/// Property-level verdict at quiescence (independent of what the spec expected).
fn judge(sys: &System, calls: &BTreeMap<String, Vec<String>>, out: &mut Outcome, case: &Value) -> bool {
    let mut ok = true;
    for s in sys.stuck() {
        ok = false;
        let a = &sys.actors[&s];
        match &a.loc {
            Loc::Panicked(p) => out.violation(
                "C14",
                "ready-panics",
                format!("submitter {s}: Pipeline::process path panicked: {p}"),
                case.clone(),
            ),
            loc => {
                let sig = if a.last_point() == Some("task.ready.after_check") {
                    "lost-wakeup:ready-waits-after-result-was-set"
                } else {
                    "call-never-returns"
                };
                out.violation(
                    "C14",
                    sig,
                    format!(
                        "submitter {s} never returns: all actors are idle, no waker fired, the tracker holds no task, \
                         yet its call is still pending at {loc:?} (its task's result is set and the one \
                         notify_waiters() call is over: nothing will ever wake this waiter)"
                    ),
                    case.clone(),
                )
            }
        }
    }
    let sh = sys.shared.borrow();
    for (s, ids) in calls {
        let rets = sh.rets.get(s).cloned().unwrap_or_default();
        for (k, r) in rets.iter().enumerate() {
            if *r == CANCELLED {
                continue;
            }
            if r.0 != id_num(&ids[k]) || r.1 == 0 || r.1 > sys.runs.load(Ordering::SeqCst) {
                ok = false;
                out.violation(
                    "C14",
                    "foreign-result",
                    format!("submitter {s} call {k}: submitted {} but got the result {r:?}", ids[k]),
                    case.clone(),
                );
            }
        }
    }
    ok
}

fn replay(args: &Args) {
    // `--mode threads`: the pipeline loop runs on a real second OS thread (own current-thread
    // runtime, as in Pipeline::new) and is stepped from gate to gate; submitters stay hand-polled.
    let threaded = args.extra.get("mode").map(|s| s.as_str()) == Some("threads");
    let stride = args.extra_usize("stride", 1).max(1);
    p2panda_core::verif::set_async_controller(Some(Arc::new(controller)));
    let behaviours = read_ndjson(args.input.as_ref().expect("--in"));
    let code_rf = probe_register_first();
    let mut out = Outcome::new(
        args,
        "every TLC-exported schedule forced step by step on the real TaskTracker/Task (hand-polled futures, one poll per \
         spec action), location + task instance + returned (id, run) compared after every step, then run to quiescence: \
         every call must have returned its own id; non-trivial = a schedule in which some submitter passed the result \
         check with None (it has to be woken); distinct by step sequence",
    );
    out.count(if code_rf { "code_order_register_first" } else { "code_order_check_first" });

    out.count(if threaded { "mode_threads" } else { "mode_single_thread" });
    for (bi, b) in behaviours.iter().enumerate() {
        // (with a stride: all schedules in which two holders of one task collide on the result
        // mutex are kept)
        let collides = b["steps"].as_array().expect("steps").iter().any(|st| st["act"] == "WaitResult" || st["act"] == "WakeWait");
        if bi % stride != 0 && !collides {
            continue;
        }
        // a submitter starts waiting for the result mutex while its holder is inside a critical
        // section without schedule point: not forceable on one thread (see NOTES.md)
        let all_steps = b["steps"].as_array().expect("steps");
        let forceable = all_steps.iter().position(|st| st["hp"] == false).unwrap_or(all_steps.len());
        if forceable < all_steps.len() {
            if b["kind"] == "prefix" {
                // (the forceable part is the prefix of another exported state)
                out.count("skipped_holder_not_parked");
                continue;
            }
            // complete behaviour: force what can be forced, then run freely
            out.count("truncated_at_holder_not_parked");
        }
        let truncated = forceable < all_steps.len();
        out.eval();
        let calls = calls_of(b);
        let cap = b["cfg"]["cap"].as_u64().unwrap_or(128) as usize;
        let spec_rf = b["cfg"]["registerFirst"].as_bool().unwrap_or(true);
        let mut sys = build(&calls, &BTreeMap::new(), cap, threaded);
        let mut nontrivial = false;
        let mut collision = false;
        let mut mismatch: Option<String> = None;


        for (k, st) in all_steps[..forceable].iter().enumerate() {
            let actor = st["actor"].as_str().unwrap();
            let act = st["act"].as_str().unwrap();
            out.count(&format!("act_{act}"));
            if act == "ReadNone" {
                nontrivial = true;
            }
            if act == "WaitResult" || act == "WakeWait" {
                collision = true;
            }
            // The spec creates the Notified before the check but the code under test checks
            // first (the defect as found, or a regression): there is no separate creation step
            // in the code, the creation happens when the waiter leaves the window.
            if spec_rf != code_rf && act == "CreateNotified" {
                continue;
            }
            // The critical sections of the first check (lock, look, unlock) and of the writer
            // (lock, set, unlock) contain no schedule point: the real future runs them in the
            // poll that takes the lock.  The remaining spec steps of the section are not polled,
            // and the comparison with the spec waits for the section's last step.  (Steps of
            // other actors in between commute with the rest of the section: whatever needs the
            // mutex is disabled in the spec while it is held; behaviours in which somebody starts
            // to WAIT for a holder that is not parked were filtered out above.)
            let no_poll = matches!(act, "ReadSome" | "ReadNone" | "UnlockReturn" | "Unlock" | "PWrite" | "PUnlockResult");
            let no_compare = matches!(act, "LockResult" | "Granted" | "ReadSome" | "ReadNone" | "PLockResult" | "PWrite");
            let got_pc = if act == "Cancel" {
                // the caller drops the suspended `process` future (and with it a created Notified,
                // a queued lock request or a held guard)
                let a = sys.actors.get_mut(actor).unwrap();
                a.fut = None;
                a.loc = Loc::Done;
                let mut sh = sys.shared.borrow_mut();
                sh.rets.entry(actor.to_string()).or_default().push(CANCELLED);
                sh.held.insert(actor.to_string(), 0);
                "finished".to_string()
            } else if actor == "pipe" && threaded {
                if no_poll { sys.pipe_loc_threaded() } else { sys.pipe_step_threaded(act) }
            } else {
                let a = sys.actors.get_mut(actor).unwrap();
                if !no_poll {
                    a.poll();
                    if !spec_rf && code_rf && act == "LockResult" {
                        a.poll(); // the code has creation + check where the (defect) spec has the check alone
                    }
                }
                if actor == "pipe" {
                    pipe_loc_name(&a.loc)
                } else {
                    sub_loc_name(&a.loc, code_rf)
                }
            };
            if no_compare {
                continue;
            }
            let want_pc = st["pc"].as_str().unwrap().to_string();
            let sh = sys.shared.borrow();
            let mut bad = None;
            if spec_rf == code_rf && got_pc != want_pc {
                bad = Some(format!("step {k} {actor}.{act}: code is at `{got_pc}`, spec at `{want_pc}`"));
            } else if actor != "pipe" {
                let rets = sh.rets.get(actor).cloned().unwrap_or_default();
                let want_n = st["nret"].as_u64().unwrap() as usize;
                if spec_rf == code_rf && rets.len() != want_n {
                    bad = Some(format!("step {k} {actor}.{act}: {} calls returned, spec says {want_n}", rets.len()));
                } else if rets.len() == want_n && want_n > 0 && st["last"]["id"] != "cancelled" {
                    let want = (id_num(st["last"]["id"].as_str().unwrap()), st["last"]["run"].as_u64().unwrap());
                    if rets[want_n - 1] != want {
                        bad = Some(format!(
                            "step {k} {actor}.{act}: returned {:?}, spec says {want:?}",
                            rets[want_n - 1]
                        ));
                    }
                }
                if bad.is_none() && act == "Track" {
                    let held = *sh.held.get(actor).unwrap_or(&0);
                    if held as u64 != st["held"].as_u64().unwrap() {
                        bad = Some(format!(
                            "step {k} {actor}.Track: got task instance #{held}, spec says #{}",
                            st["held"]
                        ));
                    }
                }
            }
            drop(sh);
            if let Some(m) = bad {
                mismatch = Some(m);
                break;
            }
        }

        // free run: whatever the prefix was, every call has to return now
        if threaded {
            sys.run_to_quiescence_threaded();
        } else {
            sys.run_to_quiescence();
        }
        let ok = judge(&sys, &calls, &mut out, b);
        sys.shutdown();
        if ok {
            if let Some(m) = mismatch {
                out.violation("C14", "spec-mismatch", m, b.clone());
            } else if b["kind"] == "full" && !truncated {
                // complete behaviour: the spec's final verdict per submitter must be the code's
                let want: Vec<String> =
                    b["stuck"].as_array().map(|v| v.iter().map(|x| x.as_str().unwrap().to_string()).collect()).unwrap_or_default();
                if !want.is_empty() {
                    out.violation(
                        "C14",
                        "spec-mismatch",
                        format!("spec says {want:?} never return, the code returned them all"),
                        b.clone(),
                    );
                }
            }
        }
        if collision {
            out.count("behaviours_with_result_mutex_collision");
        }
        if nontrivial {
            out.mark_distinct(
                b["steps"]
                    .as_array()
                    .unwrap()
                    .iter()
                    .map(|s| format!("{}.{}", s["actor"].as_str().unwrap(), s["act"].as_str().unwrap()))
                    .collect::<Vec<_>>()
                    .join(","),
            );
        }
        if ok {
            out.sample(json!({"cfg": b["cfg"], "steps": b["steps"].as_array().unwrap().len(), "kind": b["kind"]}));
        }
    }
    p2panda_core::verif::set_async_controller(None);
    out.write(args);
}

// ------------------------------------------------------------------------------------------
// impl -> spec: seeded random scheduler over the real code, one event per poll

fn record(args: &Args) {
    p2panda_core::verif::set_async_controller(Some(Arc::new(controller)));
    let code_rf = probe_register_first();
    let mut rng = Rng::new(args.seed);
    let mut w = TraceWriter::create(args.out.as_ref().expect("--out"));
    let mut out = Outcome::new(
        args,
        "seeded random schedules (3-5 submitters, 0-4 calls each over 1-3 ids, channel capacity 1-3) executed on the real \
         TaskTracker/Task; one event per poll with the location reached, the task instance and the returned result; \
         every run must end with all calls returned; non-trivial = some call had to wait (CheckNone); distinct by schedule",
    );
    let n = if args.n == 0 { 50 } else { args.n };
    // one configuration per trace file (the trace spec takes its constants from the first event);
    // every run executes a random prefix of every submitter's call list
    let nsubs = rng.range(3, 5) as usize;
    let nids = rng.range(1, 3);
    let cap = rng.range(1, 3) as usize;
    let mut table: BTreeMap<String, Vec<String>> = BTreeMap::new();
    for s in 0..nsubs {
        let ids: Vec<String> = (0..4).map(|_| format!("i{}", rng.range(1, nids))).collect();
        table.insert(format!("s{}", s + 1), ids);
    }
    for run in 0..n {
        let mut calls = BTreeMap::new();
        let mut more = BTreeMap::new();
        for (s, ids) in &table {
            let k = rng.range(0, ids.len() as u64) as usize;
            calls.insert(s.clone(), ids[..k].to_vec());
            more.insert(s.clone(), k < ids.len());
        }
        let mut sys = build(&calls, &more, cap, false);
        w.event(json!({"ev": "Reset", "run": run, "calls": table, "cap": cap, "registerFirst": code_rf}));
        let mut sched = Vec::new();
        let mut waited = false;
        let mut collisions = 0u64;
        loop {
            // runnable = not finished and (at a point / not started / blocked with a fired waker)
            let runnable: Vec<String> = sys
                .actors
                .iter()
                .filter(|(_, a)| {
                    !a.finished()
                        && (!matches!(a.loc, Loc::Blocked(_)) || a.wakes.0.load(Ordering::SeqCst) > 0)
                })
                .map(|(n, _)| n.clone())
                .collect();
            if runnable.is_empty() {
                break;
            }
            // bias: while a reader is parked HOLDING a result mutex, prefer (1 in 2) another
            // submitter of the same task that is about to look at the result
            let mut name = rng.pick(&runnable).clone();
            {
                let sh = sys.shared.borrow();
                let holders: Vec<usize> = sys
                    .actors
                    .iter()
                    .filter(|(_, a)| a.loc == Loc::At("task.ready.holding_result"))
                    .filter_map(|(n, _)| sh.held.get(n).copied())
                    .collect();
                let rivals: Vec<String> = runnable
                    .iter()
                    .filter(|n| {
                        let a = &sys.actors[*n];
                        matches!(a.last_point(), Some("task.ready.after_create") | Some("task.ready.after_check"))
                            && a.loc != Loc::At("task.ready.holding_result")
                            && sh.held.get(*n).is_some_and(|h| holders.contains(h))
                    })
                    .cloned()
                    .collect();
                if !rivals.is_empty() && rng.chance(1, 2) {
                    name = rng.pick(&rivals).clone();
                }
            }
            let a = sys.actors.get_mut(&name).unwrap();
            let from = a.loc.clone();
            a.wakes.0.store(0, Ordering::SeqCst);
            let progressed = a.poll();
            let to = a.loc.clone();
            sched.push(name.clone());
            let sh = sys.shared.borrow();
            if name == "pipe" {
                // a pipeline poll that only blocks on the empty channel is no spec step
                if !progressed {
                    continue;
                }
                w.event(json!({"ev": "Pipe", "pc": pipe_loc_name(&to), "runs": sys.runs.load(Ordering::SeqCst)}));
            } else {
                // a submitter whose table was cut short stops silently (the spec leaves it at `track`)
                if to == Loc::Done && more[&name] {
                    continue;
                }
                let mut pc = sub_loc_name(&to, code_rf);
                if !progressed {
                    match (&from, &to) {
                        // first check: the result mutex is held by somebody else -> queued
                        (Loc::At("task.ready.after_create"), Loc::Blocked(Some("task.ready.after_create"))) => {
                            collisions += 1;
                        }
                        // check-first code: leaving the window = creating the Notified, then it waits
                        (Loc::At("task.ready.after_check"), Loc::Blocked(Some("task.ready.after_check"))) if !code_rf => {}
                        // after the check: not notified yet (nothing happened), or notified and the
                        // result mutex is busy (queued) -- the trace specification tells which
                        (_, Loc::Blocked(Some("task.ready.after_check"))) => {
                            pc = "blocked_after_check".to_string();
                        }
                        // spurious wake-up, full channel, tracker lock: no spec step happened
                        _ => continue,
                    }
                }
                if pc == "await" || pc == "window" {
                    waited = true;
                }
                let rets = sh.rets.get(&name).cloned().unwrap_or_default();
                let last = rets.last().copied().unwrap_or((0, 0));
                w.event(json!({
                    "ev": "Sub", "s": name, "pc": pc, "held": sh.held.get(&name).copied().unwrap_or(0),
                    "nret": rets.len(),
                    "last": {"id": if last.0 == 0 { "none".to_string() } else { format!("i{}", last.0) }, "run": last.1},
                }));
            }
        }
        if collisions > 0 {
            out.count_by("result_mutex_collisions", collisions);
        }
        out.eval();
        let case = json!({"calls": calls, "cap": cap, "schedule": sched});
        judge(&sys, &calls, &mut out, &case);
        if waited {
            out.mark_distinct(sched.join(","));
        }
        out.sample(json!({"calls": calls, "cap": cap, "polls": sched.len()}));
    }
    let (events, runs) = w.finish();
    out.set_trace(events, runs);
    p2panda_core::verif::set_async_controller(None);
    out.write(args);
}
