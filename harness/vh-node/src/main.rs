//! Conformance harness binary `vh-node`: one module per TLA+ specification (see /verif/spec).
mod tasktracker;
mod metrics;

fn main() {
    let args = vh_common::Args::parse();
    vh_common::quiet_panics();
    match args.module.as_str() {
        "tasktracker" => tasktracker::run(&args),
        "metrics" => metrics::run(&args),
        _ => vh_common::unknown(&args),
    }
}
