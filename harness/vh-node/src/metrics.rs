//! SyncMetrics (C40): the real `Aggregator` of p2panda/src/streams/sync_metrics.rs against
//! spec/SyncMetrics.
//!
//! replay : every event sequence exported by TLC is fed to a fresh real `Aggregator`; after every
//!          event `running_sessions()`, `total_bytes_sent()`, `total_bytes_received()` and what
//!          `process` returned are compared with the state TLC computed (byte counts of the model
//!          are scaled by a per-behaviour factor so that real magnitudes are exercised).
//! record : (a) `--lifecycle documented|real`: a harness-side session simulator produces long
//!          random interleavings of many sessions following the documented lifecycle (with
//!          `SessionStarted`) or the lifecycle real sessions have (without);
//!          (b) `--lifecycle sessions`: REAL `TopicLogSync` session pairs (p2panda-sync, SQLite
//!          stores, sync + live traffic) are run and the events they emit are fed to the
//!          aggregator.  Every processed event is logged with the aggregator's observables and
//!          TLC validates the log against Trace_SyncMetrics.
use std::collections::BTreeMap;

use futures_util::SinkExt;
use p2panda::verif_api::Aggregator;
use p2panda_core::{Body, Header, Operation, SigningKey, Topic};
use p2panda_sync::protocols::{Metrics, TopicLogSyncEvent};
use p2panda_sync::test_utils::{Peer, TestExtensions, run_protocol};
use p2panda_sync::{FromSync, ToSync};
use vh_common::{Args, Outcome, Rng, TraceWriter, Value, catch, json, read_ndjson, unknown};

pub fn run(args: &Args) {
    match args.mode.as_str() {
        "replay" => replay(args),
        "record" => match args.extra.get("lifecycle").map(|s| s.as_str()) {
            Some("sessions") => record_real_sessions(args),
            Some("documented") => record_synthetic(args, true),
            _ => record_synthetic(args, false),
        },
        _ => unknown(args),
    }
}

/// Abstract byte counters of the spec: sent/received x sync/live.
#[derive(Clone, Copy, Debug, Default, PartialEq)]
struct M4 {
    ss: u32,
    sl: u32,
    rs: u32,
    rl: u32,
}

impl M4 {
    fn sent(&self) -> u64 {
        self.ss as u64 + self.sl as u64
    }
    fn recv(&self) -> u64 {
        self.rs as u64 + self.rl as u64
    }
    fn json(&self) -> Value {
        json!({"ss": self.ss, "sl": self.sl, "rs": self.rs, "rl": self.rl})
    }
    fn from_metrics(m: &Metrics) -> M4 {
        M4 { ss: m.sent_sync_bytes, sl: m.sent_live_bytes, rs: m.received_sync_bytes, rl: m.received_live_bytes }
    }
    fn to_metrics(self, ops: u32) -> Metrics {
        Metrics {
            // the announced volumes and the operation counters do not enter the byte totals
            outbound_sync_bytes: self.ss.wrapping_add(17),
            inbound_sync_bytes: self.rs.wrapping_add(5),
            outbound_sync_operations: ops,
            inbound_sync_operations: ops + 1,
            sent_sync_bytes: self.ss,
            sent_live_bytes: self.sl,
            received_sync_bytes: self.rs,
            received_live_bytes: self.rl,
            sent_sync_operations: ops,
            received_sync_operations: ops,
            sent_live_operations: ops / 2,
            received_live_operations: ops / 3,
        }
    }
}

fn m4_of(v: &Value, k: u32) -> M4 {
    let g = |f: &str| (v[f].as_u64().unwrap_or(0) as u32) * k;
    M4 { ss: g("ss"), sl: g("sl"), rs: g("rs"), rl: g("rl") }
}

fn some_operation() -> Operation<()> {
    let sk = SigningKey::generate();
    let body = Body::new(b"op");
    let mut header = Header::<()> {
        version: 1,
        verifying_key: sk.verifying_key(),
        signature: None,
        payload_size: body.size(),
        payload_hash: Some(body.hash()),
        seq_num: 0,
        backlink: None,
        extensions: (),
    };
    header.sign(&sk);
    Operation { hash: header.hash(), header, body: Some(body) }
}

fn event_of<E: Clone>(name: &str, m: M4, op: &Operation<E>) -> Option<TopicLogSyncEvent<E>> {
    let metrics = m.to_metrics(3);
    Some(match name {
        "SessionStarted" => TopicLogSyncEvent::SessionStarted,
        "SyncStarted" => TopicLogSyncEvent::SyncStarted { metrics },
        "OperationReceived" => TopicLogSyncEvent::OperationReceived { operation: Box::new(op.clone()), metrics },
        "SyncFinished" => TopicLogSyncEvent::SyncFinished { metrics },
        "LiveModeStarted" => TopicLogSyncEvent::LiveModeStarted,
        "SessionFinished" => TopicLogSyncEvent::SessionFinished { metrics },
        "Failed" => TopicLogSyncEvent::Failed { error: "connection dropped".into() },
        _ => return None,
    })
}

/// What the real aggregator shows after one event.
#[derive(Clone, Debug, PartialEq)]
struct Obs {
    running: u64,
    tsent: u64,
    trecv: u64,
    out: OutObs,
}

#[derive(Clone, Debug, PartialEq, Default)]
struct OutObs {
    kind: String,
    sent: u64,
    recv: u64,
    tsent: u64,
    trecv: u64,
    sessions: u64,
    err: bool,
    live: bool,
}

impl OutObs {
    fn json(&self) -> Value {
        json!({"kind": self.kind, "sent": self.sent, "recv": self.recv, "tsent": self.tsent, "trecv": self.trecv,
               "sessions": self.sessions, "err": self.err, "live": self.live})
    }
}

fn feed<E: p2panda_core::Extensions>(
    agg: &mut Aggregator,
    session_id: u64,
    remote: p2panda_core::VerifyingKey,
    event: TopicLogSyncEvent<E>,
) -> Result<Obs, String> {
    let res = catch(|| agg.verif_process_observed(FromSync { session_id, remote, event }))?;
    let out = match res {
        None => OutObs { kind: "none".into(), ..Default::default() },
        Some((kind, sent, recv, tsent, trecv, sessions, err, live)) => OutObs {
            kind: kind.to_string(),
            sent: sent as u64,
            recv: recv as u64,
            tsent: tsent as u64,
            trecv: trecv as u64,
            sessions: sessions as u64,
            err,
            live,
        },
    };
    Ok(Obs {
        running: agg.running_sessions() as u64,
        tsent: agg.total_bytes_sent() as u64,
        trecv: agg.total_bytes_received() as u64,
        out,
    })
}

/// Harness-side bookkeeping of what the sessions reported (for classifying a wrong total).
#[derive(Default)]
struct Books {
    last_rep: BTreeMap<String, M4>,
    settled: BTreeMap<String, M4>,
}

impl Books {
    fn note(&mut self, s: &str, ev: &str, m: M4) {
        match ev {
            "SyncStarted" | "OperationReceived" => {
                self.last_rep.insert(s.to_string(), m);
            }
            "SyncFinished" | "SessionFinished" => {
                self.last_rep.insert(s.to_string(), m);
                self.settled.insert(s.to_string(), m);
            }
            _ => {}
        }
    }
    fn reported(&self) -> (u64, u64) {
        (self.last_rep.values().map(|m| m.sent()).sum(), self.last_rep.values().map(|m| m.recv()).sum())
    }
    fn settled(&self) -> (u64, u64) {
        (self.settled.values().map(|m| m.sent()).sum(), self.settled.values().map(|m| m.recv()).sum())
    }
}

fn replay(args: &Args) {
    let behaviours = read_ndjson(args.input.as_ref().expect("--in"));
    let mut out = Outcome::new(
        args,
        "every TLC-exported session event sequence fed to a fresh real Aggregator (byte counts scaled by 1, 1000 or \
         10^8); running_sessions / total_bytes_sent / total_bytes_received and the returned event's totals compared \
         with the TLC state after every event; non-trivial = a sequence in which some session delivered SessionFinished \
         or Failed after transferring bytes; distinct by event sequence",
    );
    let op = some_operation();
    let remote = SigningKey::generate().verifying_key();
    let mut rng = Rng::new(args.seed);
    let factors = [1u32, 1000, 100_000_000];

    for b in &behaviours {
        out.eval();
        let k = *rng.pick(&factors);
        let kk = k as u64;
        let mut agg = Aggregator::new();
        let mut ids: BTreeMap<String, u64> = BTreeMap::new();
        let mut books = Books::default();
        // tolerated difference: an implementation may add a failed session's unsettled bytes
        let (mut off_s, mut off_r) = (0u64, 0u64);
        let mut nontrivial = false;
        let steps = b["steps"].as_array().expect("steps");
        let mut failed = false;
        for (i, st) in steps.iter().enumerate() {
            let s = st["s"].as_str().unwrap();
            let ev = st["ev"].as_str().unwrap();
            out.count(&format!("ev_{ev}"));
            let m = m4_of(&st["m"], k);
            let Some(event) = event_of(ev, m, &op) else {
                continue; // bytes moved without an event: nothing reaches the aggregator
            };
            let next_id = 100 + ids.len() as u64 * 7;
            let sid = *ids.entry(s.to_string()).or_insert(next_id);
            let before = (agg.total_bytes_sent() as u64, agg.total_bytes_received() as u64);
            let obs = match feed(&mut agg, sid, remote, event) {
                Ok(o) => o,
                Err(p) => {
                    out.violation("C40", "aggregator-panics", format!("step {i} {s}.{ev}: {p}"), b.clone());
                    failed = true;
                    break;
                }
            };
            books.note(s, ev, m);
            if (ev == "SessionFinished" || ev == "Failed") && books.last_rep.get(s).is_some_and(|m| m.sent() + m.recv() > 0) {
                nontrivial = true;
            }
            if ev == "Failed" {
                let (us, ur) = (st["unaccS"].as_u64().unwrap() * kk, st["unaccR"].as_u64().unwrap() * kk);
                let (ds, dr) = (obs.tsent.wrapping_sub(before.0), obs.trecv.wrapping_sub(before.1));
                if (ds, dr) == (us, ur) && (us, ur) != (0, 0) {
                    off_s += us;
                    off_r += ur;
                    out.count("failed_session_unsettled_bytes_added");
                } else if (ds, dr) == (0, 0) {
                    out.count("failed_session_unsettled_bytes_not_added");
                }
            }
            let want = Obs {
                running: st["running"].as_u64().unwrap(),
                tsent: st["tsent"].as_u64().unwrap() * kk + off_s,
                trecv: st["trecv"].as_u64().unwrap() * kk + off_r,
                out: OutObs {
                    kind: st["out"]["kind"].as_str().unwrap().to_string(),
                    sent: st["out"]["sent"].as_u64().unwrap() * kk,
                    recv: st["out"]["recv"].as_u64().unwrap() * kk,
                    tsent: st["out"]["tsent"].as_u64().unwrap() * kk,
                    trecv: st["out"]["trecv"].as_u64().unwrap() * kk,
                    sessions: st["out"]["sessions"].as_u64().unwrap(),
                    err: st["out"]["err"].as_bool().unwrap(),
                    live: st["out"]["live"].as_bool().unwrap(),
                },
            };
            let mut want_out = want.out.clone();
            if want_out.kind == "SyncEnded" || want_out.kind == "OperationReceived" {
                want_out.tsent += off_s;
                want_out.trecv += off_r;
            }
            let (rep_s, rep_r) = books.reported();
            let (set_s, set_r) = books.settled();
            let problem = if obs.tsent != want.tsent || obs.trecv != want.trecv {
                let sig = if obs.tsent > rep_s || obs.trecv > rep_r {
                    "bytes-counted-twice"
                } else if obs.tsent < set_s || obs.trecv < set_r {
                    "settled-bytes-missing"
                } else {
                    "totals-differ-from-spec"
                };
                Some((sig, format!(
                    "after step {i} {s}.{ev}: totals sent/received = {}/{}, expected {}/{} (all sessions together reported {rep_s}/{rep_r})",
                    obs.tsent, obs.trecv, want.tsent, want.trecv
                )))
            } else if obs.running != want.running {
                Some(("running-sessions-wrong", format!(
                    "after step {i} {s}.{ev}: running_sessions = {}, started minus ended = {}",
                    obs.running, want.running
                )))
            } else if obs.out != want_out {
                let sig = if obs.out.kind != want_out.kind { "event-presence-differs" } else { "reported-totals-differ" };
                Some((sig, format!("after step {i} {s}.{ev}: process returned {:?}, expected {:?}", obs.out, want_out)))
            } else {
                None
            };
            if let Some((sig, detail)) = problem {
                out.violation("C40", sig, detail, b.clone());
                failed = true;
                break;
            }
        }
        if nontrivial {
            out.mark_distinct(
                steps.iter().map(|s| format!("{}.{}.{}", s["s"].as_str().unwrap(), s["ev"].as_str().unwrap(), s["m"])).collect::<Vec<_>>().join(","),
            );
        }
        if !failed {
            out.sample(json!({"cfg": b["cfg"], "events": steps.len(), "factor": k}));
        }
    }
    out.write(args);
}

// ------------------------------------------------------------------------------------------
// impl -> spec, synthetic sessions

#[derive(Clone, Copy, PartialEq, Debug)]
enum Ph {
    Init,
    Started,
    Sync,
    Synced,
    Live,
    Closed,
}

fn log_event(w: &mut TraceWriter, ev: &str, s: &str, m: M4, obs: &Obs) {
    w.event(json!({
        "ev": ev, "s": s, "m": m.json(),
        "running": obs.running, "tsent": obs.tsent, "trecv": obs.trecv, "out": obs.out.json(),
    }));
}

const POOL: usize = 12;

fn pool() -> Vec<String> {
    (1..=POOL).map(|i| format!("s{i}")).collect()
}

fn record_synthetic(args: &Args, documented: bool) {
    let mut rng = Rng::new(args.seed ^ if documented { 0xd0c } else { 0x4ea1 });
    let mut w = TraceWriter::create(args.out.as_ref().expect("--out"));
    let mut out = Outcome::new(
        args,
        "seeded random interleavings of 2-12 synthetic sessions (sync + live traffic, up to 10^6 bytes per transfer, \
         clean end or failure at any point) processed by the real Aggregator, every event logged with the aggregator's \
         observables and validated by TLC; non-trivial = a run with at least one SessionFinished after live traffic; \
         distinct by run",
    );
    let op = some_operation();
    let remote = SigningKey::generate().verifying_key();
    let lifecycle = if documented { "documented" } else { "real" };
    let n = if args.n == 0 { 30 } else { args.n };
    for run in 0..n {
        let nsess = rng.range(2, POOL as u64) as usize;
        let names: Vec<String> = pool()[..nsess].to_vec();
        w.event(json!({"ev": "Reset", "run": run, "lifecycle": lifecycle, "pool": pool()}));
        let mut agg = Aggregator::new();
        let mut ph = vec![Ph::Init; nsess];
        let mut m = vec![M4::default(); nsess];
        let mut live_traffic_finished = false;
        let mut bad = false;
        while ph.iter().any(|p| *p != Ph::Closed) && !bad {
            let open: Vec<usize> = (0..nsess).filter(|i| ph[*i] != Ph::Closed).collect();
            let i = *rng.pick(&open);
            let bytes = match rng.below(3) {
                0 => rng.range(1, 50),
                1 => rng.range(100, 5000),
                _ => rng.range(10_000, 1_000_000),
            } as u32;
            // (event or "Transfer", new phase)
            let fail = rng.chance(1, 25);
            let (ev, next): (&str, Ph) = match ph[i] {
                Ph::Init => {
                    if documented {
                        ("SessionStarted", Ph::Started)
                    } else if fail {
                        ("Failed", Ph::Closed)
                    } else {
                        ("SyncStarted", Ph::Sync)
                    }
                }
                Ph::Started => {
                    if fail {
                        ("Failed", Ph::Closed)
                    } else {
                        ("SyncStarted", Ph::Sync)
                    }
                }
                Ph::Sync => match rng.below(10) {
                    0..=2 => {
                        m[i].ss += bytes;
                        ("Transfer", Ph::Sync)
                    }
                    3..=6 => {
                        m[i].rs += bytes;
                        ("OperationReceived", Ph::Sync)
                    }
                    7..=8 => ("SyncFinished", Ph::Synced),
                    _ if fail => ("Failed", Ph::Closed),
                    _ => ("SyncFinished", Ph::Synced),
                },
                Ph::Synced => match rng.below(4) {
                    0 => ("SessionFinished", Ph::Closed),
                    1 if fail => ("Failed", Ph::Closed),
                    _ => ("LiveModeStarted", Ph::Live),
                },
                Ph::Live => match rng.below(10) {
                    0..=3 => {
                        m[i].sl += bytes;
                        ("Transfer", Ph::Live)
                    }
                    4..=7 => {
                        m[i].rl += bytes;
                        ("OperationReceived", Ph::Live)
                    }
                    8 if fail => ("Failed", Ph::Closed),
                    _ => {
                        if m[i].sl + m[i].rl > 0 {
                            live_traffic_finished = true;
                        }
                        ("SessionFinished", Ph::Closed)
                    }
                },
                Ph::Closed => unreachable!(),
            };
            ph[i] = next;
            if ev == "Transfer" {
                w.event(json!({"ev": "Transfer", "s": names[i], "m": m[i].json()}));
                continue;
            }
            let event = event_of(ev, m[i], &op).unwrap();
            match feed(&mut agg, 1000 + i as u64, remote, event) {
                Ok(obs) => log_event(&mut w, ev, &names[i], m[i], &obs),
                Err(p) => {
                    out.violation("C40", "aggregator-panics", format!("run {run} {}.{ev}: {p}", names[i]), json!({"run": run}));
                    bad = true;
                }
            }
        }
        out.eval();
        if live_traffic_finished {
            out.mark_distinct(format!("run{run}"));
        }
        out.sample(json!({"run": run, "sessions": nsess, "lifecycle": lifecycle}));
    }
    let (events, runs) = w.finish();
    out.set_trace(events, runs);
    out.write(args);
}

// ------------------------------------------------------------------------------------------
// impl -> spec, REAL sessions (TopicLogSync pairs of p2panda-sync)

fn record_real_sessions(args: &Args) {
    let mut rng = Rng::new(args.seed ^ 0x5e55);
    let mut w = TraceWriter::create(args.out.as_ref().expect("--out"));
    let mut out = Outcome::new(
        args,
        "real TopicLogSync session pairs (SQLite stores, random logs on both sides, optional live mode with forwarded \
         operations and Close) run to completion; the events each session emitted are fed, randomly interleaved, to \
         the real Aggregator; logged and validated by TLC with Lifecycle = real; non-trivial = a run whose sessions \
         transferred bytes; distinct by run",
    );
    let n = if args.n == 0 { 10 } else { args.n };
    let rt = tokio::runtime::Builder::new_multi_thread().worker_threads(2).enable_all().build().expect("runtime");
    let remote = SigningKey::generate().verifying_key();
    let mut peer_seed = args.seed.wrapping_mul(1000);
    for run in 0..n {
        let pairs = rng.range(1, 3) as usize;
        // per session: the events it emitted, in order
        let mut sessions: Vec<Vec<TopicLogSyncEvent<TestExtensions>>> = Vec::new();
        let mut seen_session_started = false;
        for _ in 0..pairs {
            let live = rng.chance(2, 3);
            let (na, nb) = (rng.range(0, 4) as usize, rng.range(0, 4) as usize);
            let (la, lb) = (rng.range(0, 2) as usize, rng.range(0, 2) as usize);
            let sizes: Vec<usize> = (0..12).map(|_| rng.range(1, 3000) as usize).collect();
            peer_seed += 2;
            let seed = peer_seed;
            let evs = rt.block_on(async move {
                let topic = Topic::random();
                let mut a = Peer::new(seed).await;
                let mut b = Peer::new(seed + 1).await;
                let mut k = 0;
                for _ in 0..na {
                    a.create_operation(&Body::new(&vec![7u8; sizes[k % 12]]), 0).await;
                    k += 1;
                }
                for _ in 0..nb {
                    b.create_operation(&Body::new(&vec![9u8; sizes[k % 12]]), 0).await;
                    k += 1;
                }
                let logs = BTreeMap::from([(a.id(), vec![0usize]), (b.id(), vec![0usize])]);
                a.associate(&topic, &logs).await;
                b.associate(&topic, &logs).await;
                let (pa, mut rxa, mut txa) = a.topic_sync_protocol(topic.clone(), live);
                let (pb, mut rxb, mut txb) = b.topic_sync_protocol(topic.clone(), live);
                if live {
                    // operations published locally while the session is live (log 1: not part of sync)
                    for _ in 0..la {
                        let body = Body::new(&vec![1u8; sizes[k % 12]]);
                        k += 1;
                        let (header, _) = a.create_operation(&body, 1).await;
                        let _ = txa.send(ToSync::Payload(Operation { hash: header.hash(), header, body: Some(body) })).await;
                    }
                    for _ in 0..lb {
                        let body = Body::new(&vec![2u8; sizes[k % 12]]);
                        k += 1;
                        let (header, _) = b.create_operation(&body, 1).await;
                        let _ = txb.send(ToSync::Payload(Operation { hash: header.hash(), header, body: Some(body) })).await;
                    }
                    let _ = txa.send(ToSync::Close).await;
                }
                let _ = run_protocol(pa, pb).await;
                let mut ea = Vec::new();
                while let Ok(e) = rxa.try_recv() {
                    ea.push(e);
                }
                let mut eb = Vec::new();
                while let Ok(e) = rxb.try_recv() {
                    eb.push(e);
                }
                (ea, eb)
            });
            sessions.push(evs.0);
            sessions.push(evs.1);
        }
        // the lifecycle is what the sessions really did: `documented` iff they announce themselves
        let lifecycle = if sessions.iter().any(|s| matches!(s.first(), Some(TopicLogSyncEvent::SessionStarted))) {
            "documented"
        } else {
            "real"
        };
        w.event(json!({"ev": "Reset", "run": run, "lifecycle": lifecycle, "pool": pool()}));
        let mut agg = Aggregator::new();
        let mut idx = vec![0usize; sessions.len()];
        let mut bytes = 0u64;
        loop {
            let open: Vec<usize> = (0..sessions.len()).filter(|i| idx[*i] < sessions[*i].len()).collect();
            if open.is_empty() {
                break;
            }
            let i = *rng.pick(&open);
            let event = sessions[i][idx[i]].clone();
            idx[i] += 1;
            let (name, m) = match &event {
                TopicLogSyncEvent::SessionStarted => {
                    seen_session_started = true;
                    ("SessionStarted", M4::default())
                }
                TopicLogSyncEvent::SyncStarted { metrics } => ("SyncStarted", M4::from_metrics(metrics)),
                TopicLogSyncEvent::OperationReceived { metrics, .. } => ("OperationReceived", M4::from_metrics(metrics)),
                TopicLogSyncEvent::SyncFinished { metrics } => ("SyncFinished", M4::from_metrics(metrics)),
                TopicLogSyncEvent::LiveModeStarted => ("LiveModeStarted", M4::default()),
                TopicLogSyncEvent::SessionFinished { metrics } => ("SessionFinished", M4::from_metrics(metrics)),
                TopicLogSyncEvent::Failed { .. } => ("Failed", M4::default()),
            };
            out.count(&format!("real_ev_{name}"));
            bytes += m.sent() + m.recv();
            match feed(&mut agg, 500 + i as u64, remote, event) {
                Ok(obs) => log_event(&mut w, name, &format!("s{}", i + 1), m, &obs),
                Err(p) => {
                    out.violation("C40", "aggregator-panics", format!("run {run} s{}.{name}: {p}", i + 1), json!({"run": run}));
                    break;
                }
            }
        }
        if seen_session_started {
            out.count("real_sessions_emit_SessionStarted");
        }
        out.eval();
        if bytes > 0 {
            out.mark_distinct(format!("run{run}"));
        }
        out.sample(json!({"run": run, "sessions": sessions.len(), "events": sessions.iter().map(|s| s.len()).sum::<usize>()}));
    }
    let (events, runs) = w.finish();
    out.set_trace(events, runs);
    out.write(args);
}
