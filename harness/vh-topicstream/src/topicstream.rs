//! Conformance harness for /verif/spec/TopicStream (C15, second half of C07).
//!
//! * `replay`: every behaviour exported by TLC (`MC_TopicStream.tla`, `hist`) is executed step by
//!   step on a real `p2panda::Node` with a file-backed SQLite database.  The cfg-guarded schedule
//!   points (`p2panda_core::verif::point`) in forge.rs / stream.rs / acked.rs / replay.rs park the
//!   publisher, the stream task and the application's ack call; one specification action = release
//!   one parked process until its next point.  After every step the persisted cursor, the stored
//!   operations, the topic associations, ack results and delivered events are compared with the
//!   state TLC computed.  `Crash` = drop of node, handles and runtime (in-process) or SIGKILL of a
//!   child harness process hosting the node (`--crash kill`, thorough tier).
//! * `record`: a seeded random scheduler drives the same machinery (the implementation decides
//!   which point it reaches next), one NDJSON event per specification action; validated by TLC
//!   against `Trace_TopicStream.tla`.  `--free N` additionally records free-running histories
//!   (no schedule control) that are killed with SIGKILL at a random moment and re-opened.
//! * `child`: hosts one node incarnation, commands on stdin, observations on stdout.
mod driver;
mod gate;
mod inc;
mod record;
mod replay;

pub fn run(args: &vh_common::Args) {
    match args.mode.as_str() {
        "replay" => replay::run(args),
        "record" => record::run(args),
        "child" => driver::child_main(args),
        _ => vh_common::unknown(args),
    }
}
