//! Conformance harness binary `vh-topicstream`: one module per TLA+ specification (see /verif/spec).
mod topicstream;

fn main() {
    let args = vh_common::Args::parse();
    vh_common::quiet_panics();
    match args.module.as_str() {
        "topicstream" => topicstream::run(&args),
        _ => vh_common::unknown(&args),
    }
}
