//! Schedule control: every `verif::point` of the code under test parks its caller until the driver
//! releases it.  One `Gate` per node incarnation; the process-wide controller finds the gate of
//! the calling thread through a thread-local set on the incarnation's runtime threads.
use std::cell::Cell;
use std::collections::HashMap;
use std::sync::{Arc, Mutex, OnceLock};
use std::time::Duration;

use tokio::sync::{Notify, oneshot};

thread_local! {
    static INC_ID: Cell<u64> = const { Cell::new(0) };
}

static GATES: OnceLock<Mutex<HashMap<u64, Arc<Gate>>>> = OnceLock::new();

fn gates() -> &'static Mutex<HashMap<u64, Arc<Gate>>> {
    GATES.get_or_init(|| Mutex::new(HashMap::new()))
}

/// Marks the current thread as belonging to incarnation `id` (0 = none).
pub fn set_thread_incarnation(id: u64) {
    INC_ID.with(|c| c.set(id));
}

/// Watchdog for "the process never reached a point / never finished" (tool error, not a verdict).
pub const STUCK_AFTER: Duration = Duration::from_secs(120);

#[derive(Default)]
struct GateState {
    /// harness-spawned tasks: task id -> process name ("pub", "app")
    procs: HashMap<tokio::task::Id, &'static str>,
    /// process name -> (point name, release handle)
    parked: HashMap<&'static str, (&'static str, oneshot::Sender<()>)>,
    /// false: every point returns at once (free-running mode)
    control: bool,
}

pub struct Gate {
    state: Mutex<GateState>,
    notify: Notify,
}

impl Gate {
    /// Creates the gate of incarnation `id` and installs the process-wide controller (once).
    pub fn install(id: u64, control: bool) -> Arc<Gate> {
        static INSTALLED: OnceLock<()> = OnceLock::new();
        INSTALLED.get_or_init(|| {
            p2panda_core::verif::set_async_controller(Some(Arc::new(|name: &'static str| {
                let id = INC_ID.with(|c| c.get());
                if id == 0 {
                    return None;
                }
                let gate = gates().lock().unwrap_or_else(|e| e.into_inner()).get(&id).cloned();
                gate.and_then(|g| g.on_point(name))
            })));
        });
        let gate = Arc::new(Gate {
            state: Mutex::new(GateState {
                control,
                ..Default::default()
            }),
            notify: Notify::new(),
        });
        gates()
            .lock()
            .unwrap_or_else(|e| e.into_inner())
            .insert(id, gate.clone());
        gate
    }

    pub fn uninstall(id: u64) {
        gates().lock().unwrap_or_else(|e| e.into_inner()).remove(&id);
    }

    fn on_point(&self, name: &'static str) -> Option<p2panda_core::verif::Parked> {
        let mut st = self.state.lock().unwrap_or_else(|e| e.into_inner());
        if !st.control {
            return None;
        }
        // points of other verification modules (e.g. task.ready.*) are none of our business
        const MINE: [&str; 6] = ["forge.", "publish.", "stream.", "replay.", "process_operation.", "acked."];
        if !MINE.iter().any(|p| name.starts_with(p)) {
            return None;
        }
        let registered = tokio::task::try_id().and_then(|id| st.procs.get(&id).copied());
        let proc = match registered {
            Some(p) => p,
            None => {
                // Unregistered caller: the stream task spawned inside `processed_stream` (its
                // points are stream.* / replay.* / process_operation.* / acked.*). A forge or
                // publish point hit by an unregistered caller is the harness itself (foreign
                // topic operation): not parked.
                if name.starts_with("forge.") || name.starts_with("publish.") {
                    return None;
                }
                "st"
            }
        };
        let (tx, rx) = oneshot::channel();
        st.parked.insert(proc, (name, tx));
        drop(st);
        self.notify.notify_waiters();
        Some(Box::pin(async move {
            if rx.await.is_err() {
                // gate gone (incarnation torn down): never continue uncontrolled
                std::future::pending::<()>().await;
            }
        }))
    }

    /// Gives up schedule control: every parked process continues, later points return at once.
    pub fn set_free(&self) {
        let mut st = self.state.lock().unwrap_or_else(|e| e.into_inner());
        st.control = false;
        for (_, (_, tx)) in st.parked.drain() {
            let _ = tx.send(());
        }
    }

    pub fn register(&self, id: tokio::task::Id, proc: &'static str) {
        let mut st = self.state.lock().unwrap_or_else(|e| e.into_inner());
        st.procs.insert(id, proc);
    }

    pub fn parked(&self, proc: &str) -> Option<&'static str> {
        let st = self.state.lock().unwrap_or_else(|e| e.into_inner());
        st.parked.get(proc).map(|(n, _)| *n)
    }

    /// Lets the parked process continue. Returns false if it was not parked.
    pub fn release(&self, proc: &str) -> bool {
        let mut st = self.state.lock().unwrap_or_else(|e| e.into_inner());
        match st.parked.remove(proc) {
            Some((_, tx)) => {
                let _ = tx.send(());
                true
            }
            None => false,
        }
    }

    /// Waits until `proc` is parked; returns the point name.
    pub async fn wait_parked(&self, proc: &str) -> Result<&'static str, String> {
        let fut = async {
            loop {
                let notified = self.notify.notified();
                tokio::pin!(notified);
                notified.as_mut().enable();
                if let Some(name) = self.parked(proc) {
                    return name;
                }
                notified.await;
            }
        };
        match tokio::time::timeout(STUCK_AFTER, fut).await {
            Ok(name) => Ok(name),
            Err(_) => Err(format!(
                "stuck: process '{proc}' did not reach a schedule point within {STUCK_AFTER:?}"
            )),
        }
    }
}
