//! spec -> impl: executes TLC-exported behaviours of MC_TopicStream on the real node.
use std::collections::{BTreeMap, BTreeSet};
use std::sync::atomic::{AtomicUsize, Ordering};
use std::sync::{Arc, Mutex};

use vh_common::{Args, Outcome, Value, json, read_ndjson};

use super::driver::{Host, db_dir, remove_db};
use super::inc::{Ids, build_remote_ops};

const RULE: &str = "one behaviour = one TLC-exported schedule of MC_TopicStream executed in lock-step on a real Node \
(file-backed SQLite); distinct = distinct (crash-point pcs, ack policy, replayed set size) combinations";

/// A disagreement between the real node and the state TLC computed.
pub struct Finding {
    pub property: &'static str,
    pub signature: String,
    pub detail: String,
}

fn op_key(v: &Value) -> String {
    format!(
        "{}/{}/{}/{}{}",
        v["a"].as_str().unwrap_or("?"),
        v["tp"].as_str().unwrap_or("?"),
        v["seq"].as_i64().unwrap_or(-9),
        if v["body"].as_bool().unwrap_or(false) { "b" } else { "-" },
        if v["prune"].as_bool().unwrap_or(false) { "p" } else { "" }
    )
}

fn op_set(v: &Value) -> BTreeSet<String> {
    v.as_array().into_iter().flatten().map(op_key).collect()
}

fn assoc_set(v: &Value) -> BTreeSet<String> {
    v.as_array()
        .into_iter()
        .flatten()
        .map(|x| format!("{}:{}", x["tp"].as_str().unwrap_or("?"), x["a"].as_str().unwrap_or("?")))
        .collect()
}

fn cursor_map(v: &Value, authors: &[String]) -> BTreeMap<String, i64> {
    authors
        .iter()
        .map(|a| (a.clone(), v.get(a).and_then(|h| h.as_i64()).unwrap_or(-1)))
        .collect()
}

fn expected_point(proc: &str, pc: &str) -> Vec<&'static str> {
    match (proc, pc) {
        ("st", "idle") => vec!["stream.loop.top"],
        ("st", "taken") => vec!["stream.published.before_process", "process_operation.start"],
        ("st", "processed") => vec!["stream.published.processed", "process_operation.processed"],
        ("st", "acklocked") | ("app", "acklocked") => vec!["acked.ack.before_read"],
        // "ackblocked": inside semaphore.acquire(), no schedule point reached
        ("st", "ackread") | ("app", "ackread") => vec!["acked.ack.after_read"],
        ("st", "ackintx") | ("app", "ackintx") => vec!["acked.ack.before_commit"],
        ("st", "deliver") => vec!["stream.loop.before_send", "replay.before_send"],
        ("st", "ending") => vec!["replay.before_ended"],
        ("pub", "intx") => vec!["forge.tx.before_commit"],
        ("pub", "forged") => vec!["publish.after_forge"],
        _ => vec![],
    }
}

/// State carried along one behaviour (shared by replay and by the recorder's self-checks).
pub struct Walk {
    pub authors: Vec<String>,
    pub prev_cursor: BTreeMap<String, i64>,
    /// replay window of the current incarnation: expected set, received so far, finished
    pub expect: BTreeSet<String>,
    pub got_replay: BTreeSet<String>,
    pub in_window: bool,
    pub window_done: bool,
    /// set when an acker was found inside Acked::ack although the other one holds the permit
    pub non_exclusive: Option<String>,
    pub cursor_at_open: BTreeMap<String, i64>,
}

impl Walk {
    pub fn new(authors: Vec<String>) -> Walk {
        let prev = authors.iter().map(|a| (a.clone(), -1)).collect();
        Walk {
            authors,
            prev_cursor: prev,
            expect: BTreeSet::new(),
            got_replay: BTreeSet::new(),
            in_window: false,
            window_done: false,
            non_exclusive: None,
            cursor_at_open: BTreeMap::new(),
        }
    }

    /// Lock-step lost during a replay: `settled` = events the application received while the node
    /// ran freely to the end of the replay.
    pub fn judge_settled(&mut self, settled: &Value) -> Vec<Finding> {
        let mut out = Vec::new();
        let mut ended = !self.in_window && settled["markers"].as_array().map(|m| m.is_empty()).unwrap_or(true);
        for ev in settled["events"].as_array().into_iter().flatten() {
            match ev["k"].as_str() {
                Some("rs") => self.in_window = true,
                Some("re") => {
                    self.in_window = false;
                    ended = true;
                    break;
                }
                Some("op") if self.in_window => {
                    self.got_replay.insert(op_key(&ev["op"]));
                }
                _ => {}
            }
        }
        if ended && self.got_replay != self.expect {
            let missing: Vec<_> = self.expect.difference(&self.got_replay).collect();
            let surplus: Vec<_> = self.got_replay.difference(&self.expect).collect();
            out.push(Finding {
                property: "C15",
                signature: if !missing.is_empty() {
                    "c15-replay-misses-unacked".into()
                } else {
                    "c15-replay-redelivers-acked".into()
                },
                detail: format!(
                    "replay from frontier {:?} delivered {:?}; stored, with body and not acknowledged are {:?} (missing {missing:?}, surplus {surplus:?})",
                    self.cursor_at_open, self.got_replay, self.expect
                ),
            });
        }
        self.window_done = true;
        out
    }

    /// Compares the observation after `step` with the post state TLC computed.
    pub fn compare(&mut self, step: &Value, obs: &Value, prop: &'static str) -> Vec<Finding> {
        let mut out = Vec::new();
        let act = step["act"].as_str().unwrap_or("?");
        let post = &step["post"];
        let is_reset = act == "Open" && step["arg"]["from"] != "frontier";

        // ---- C07: persisted cursor
        let want = cursor_map(&post["cursor"], &self.authors);
        let got = cursor_map(&obs["cursor"], &self.authors);
        let backwards: Vec<&String> = self.authors.iter().filter(|a| got[*a] < self.prev_cursor[*a]).collect();
        if !is_reset && !backwards.is_empty() {
            out.push(Finding {
                property: "C07",
                signature: "c07-cursor-moved-backwards".into(),
                detail: format!(
                    "after {act} the persisted cursor of {backwards:?} went from {:?} to {:?} without StreamFrom::Start/Cursor",
                    self.prev_cursor, got
                ),
            });
        } else if got != want || obs["cursor_extra"].as_u64().unwrap_or(0) != 0 {
            let foreign = act == "AppAckBegin" && step["arg"]["op"]["tp"] != "t";
            out.push(Finding {
                property: "C07",
                signature: if foreign {
                    "c07-foreign-ack-changed-cursor".into()
                } else {
                    format!("c07-cursor-differs-from-model:{act}")
                },
                detail: format!(
                    "after {act} the persisted cursor is {got:?} (+{} foreign entries), the specification says {want:?}",
                    obs["cursor_extra"]
                ),
            });
        }
        if obs.get("res").is_some()
            && matches!(act, "AppAckBegin" | "AppAckRead" | "AppAckCommit" | "AppAckWriteTx" | "AckCommit")
        {
            let want_res = post["res"].as_str().unwrap_or("?");
            let got_res = obs["res"].as_str().unwrap_or("?");
            if want_res != got_res {
                let foreign = step["arg"]["op"]["tp"] != "t";
                out.push(Finding {
                    property: "C07",
                    signature: if foreign && act == "AppAckBegin" && got_res != "rejected" {
                        "c07-foreign-ack-not-rejected".into()
                    } else {
                        format!("c07-ack-result-differs:{act}")
                    },
                    detail: format!(
                        "{act}({}) returned '{got_res}', the specification says '{want_res}'",
                        op_key(&step["arg"]["op"])
                    ),
                });
            }
        }
        self.prev_cursor = got.clone();

        // ---- C15: stored operations + topic associations (what a replay can be computed from)
        let want_stored = op_set(&post["stored"]);
        let got_stored = op_set(&obs["stored"]);
        if want_stored != got_stored {
            out.push(Finding {
                property: "C15",
                signature: format!("c15-stored-differs-from-model:{act}"),
                detail: format!("after {act} the store holds {got_stored:?}, the specification says {want_stored:?}"),
            });
        }
        let want_assoc = assoc_set(&post["assoc"]);
        let got_assoc = assoc_set(&obs["assoc"]);
        if want_assoc != got_assoc {
            out.push(Finding {
                property: "C15",
                signature: format!("c15-topic-association-differs:{act}"),
                detail: format!("after {act} topic associations are {got_assoc:?}, the specification says {want_assoc:?}"),
            });
        }

        // ---- C15: replay window
        if act == "Open" {
            self.expect = op_set(&step["arg"]["expect"]);
            self.got_replay.clear();
            self.in_window = false;
            // nothing to replay: no ReplayStarted/ReplayEnded will come, the window is complete
            self.window_done = post["stctx"] == "live";
            self.cursor_at_open = got;
            if self.window_done && !self.expect.is_empty() {
                out.push(Finding {
                    property: "C15",
                    signature: "c15-replay-misses-unacked".into(),
                    detail: format!("stream opened without replay although {:?} are stored and not acknowledged", self.expect),
                });
            }
        }
        if act == "AppRecv" {
            let want_ev = &step["arg"]["ev"];
            let ev = &obs["ev"];
            let k = ev["k"].as_str().unwrap_or("?");
            let same = want_ev["k"].as_str() == Some(k) && (k != "op" || op_key(&want_ev["op"]) == op_key(&ev["op"]));
            match k {
                "rs" => self.in_window = true,
                "re" => {
                    self.in_window = false;
                    self.window_done = true;
                    if self.got_replay != self.expect {
                        let missing: Vec<_> = self.expect.difference(&self.got_replay).collect();
                        let surplus: Vec<_> = self.got_replay.difference(&self.expect).collect();
                        out.push(Finding {
                            property: "C15",
                            signature: if !missing.is_empty() {
                                "c15-replay-misses-unacked".into()
                            } else {
                                "c15-replay-redelivers-acked".into()
                            },
                            detail: format!(
                                "replay from frontier {:?} delivered {:?}; stored, with body and not acknowledged are {:?} (missing {missing:?}, surplus {surplus:?})",
                                self.cursor_at_open, self.got_replay, self.expect
                            ),
                        });
                    }
                }
                "op" if self.in_window => {
                    let key = op_key(&ev["op"]);
                    if !self.expect.contains(&key) {
                        out.push(Finding {
                            property: "C15",
                            signature: "c15-replay-redelivers-acked".into(),
                            detail: format!(
                                "replay from frontier {:?} delivered {key}, which is not in the un-acknowledged set {:?}",
                                self.cursor_at_open, self.expect
                            ),
                        });
                    }
                    self.got_replay.insert(key);
                }
                _ => {}
            }
            if !same {
                out.push(Finding {
                    property: "C15",
                    signature: "c15-delivery-differs-from-model".into(),
                    detail: format!("application received {ev}, the specification says {want_ev}"),
                });
            }
        }

        // ---- lock-step: every process is parked where the specification says it is
        if obs["parked"].is_object() {
            for (proc, pc_field) in [("st", "stpc"), ("pub", "pubpc"), ("app", "apppc")] {
                let pc = post[pc_field].as_str().unwrap_or("?");
                let want_pts = expected_point(proc, pc);
                let got_pt = obs["parked"][proc].as_str();
                let ok = match got_pt {
                    None => want_pts.is_empty(),
                    Some(p) => want_pts.contains(&p),
                };
                if !ok && pc == "ackblocked" {
                    // C07/C15 mechanism: the read-advance-write cycle of Acked::ack must be exclusive
                    out.push(Finding {
                        property: prop,
                        signature: "ack-critical-section-not-exclusive".into(),
                        detail: format!(
                            "{act}: '{proc}' entered Acked::ack while the other acker holds the Acked permit (parked inside its \
                             critical section) and reached {got_pt:?}; the specification has it waiting for the permit, \
                             so two read-advance-write cycles on the persisted cursor overlap"
                        ),
                    });
                    self.non_exclusive = Some(proc.to_string());
                } else if !ok {
                    out.push(Finding {
                        property: prop,
                        signature: format!("conformance-step-structure:{act}"),
                        detail: format!(
                            "after {act} process '{proc}' is at {got_pt:?}; the specification has it at pc '{pc}' {want_pts:?}: \
                             the model no longer describes the code's step structure"
                        ),
                    });
                }
            }
        }
        out
    }
}

struct Shared {
    out: Outcome,
    tool_error: Option<String>,
}

pub fn run(args: &Args) {
    let input = args.input.clone().unwrap_or_else(|| {
        eprintln!("replay needs --in");
        std::process::exit(2)
    });
    let behaviours = read_ndjson(&input);
    let kill = args.extra.get("crash").map(|s| s == "kill").unwrap_or(false);
    let prop: &'static str = match args.extra.get("prop").map(|s| s.as_str()) {
        Some("C07") => "C07",
        _ => "C15",
    };
    let max = args.extra_usize("max", usize::MAX);
    let workers = args.extra_usize("workers", 4).max(1);
    let behaviours: Vec<Value> = behaviours.into_iter().take(max).collect();
    let total = behaviours.len();
    let behaviours = Arc::new(behaviours);
    let next = Arc::new(AtomicUsize::new(0));
    let shared = Arc::new(Mutex::new(Shared {
        out: Outcome::new(args, RULE),
        tool_error: None,
    }));

    let mut threads = Vec::new();
    for w in 0..workers {
        let behaviours = behaviours.clone();
        let next = next.clone();
        let shared = shared.clone();
        let seed = args.seed;
        threads.push(std::thread::spawn(move || {
            let dir = db_dir(&format!("replay-{}-{w}", if kill { "kill" } else { "drop" }));
            loop {
                let i = next.fetch_add(1, Ordering::SeqCst);
                if i >= behaviours.len() {
                    break;
                }
                if shared.lock().unwrap().tool_error.is_some() {
                    break;
                }
                let db = dir.join(format!("b{i}.sqlite"));
                remove_db(&db);
                let r = run_behaviour(&behaviours[i], &db, kill, prop, seed, i);
                remove_db(&db);
                let mut sh = shared.lock().unwrap();
                match r {
                    Err(e) => {
                        sh.tool_error = Some(format!("behaviour {i}: {e}"));
                    }
                    Ok(res) => {
                        sh.out.eval();
                        for key in res.distinct {
                            sh.out.mark_distinct(key);
                        }
                        for (c, n) in res.counters {
                            sh.out.count_by(&c, n);
                        }
                        if i < 2 {
                            sh.out.sample(json!({"behaviour": i, "steps": behaviours[i]["steps"].as_array().map(|s| s.len()), "crashes": res.crashes}));
                        }
                        for f in res.findings {
                            sh.out.violation(f.property, &f.signature, f.detail, behaviours[i].clone());
                        }
                    }
                }
            }
        }));
    }
    for t in threads {
        let _ = t.join();
    }
    let sh = Arc::try_unwrap(shared).ok().expect("workers done").into_inner().unwrap();
    if let Some(e) = sh.tool_error {
        eprintln!("tool error: {e}");
        std::process::exit(2);
    }
    let abandoned = sh.out.counters.get("abandoned:database-is-locked").copied().unwrap_or(0);
    if abandoned as usize * 20 > total.max(20) {
        eprintln!("tool error: {abandoned} of {total} behaviours abandoned (database is locked)");
        std::process::exit(2);
    }
    let mut sh = sh;
    if args.extra.get("sweep").map(|s| s == "1").unwrap_or(false) {
        match publish_crash_sweep(kill, args.seed) {
            Ok((findings, cuts, stored_after_cut)) => {
                sh.out.count_by("sweep:publish-cut-points", cuts);
                sh.out.count_by("sweep:cuts-with-operation-stored", stored_after_cut);
                sh.out.mark_distinct(format!("publish-crash-sweep:{cuts}"));
                for f in findings {
                    sh.out.violation(f.property, &f.signature, f.detail.clone(), json!({"kind": "publish-crash-sweep", "detail": f.detail}));
                }
            }
            Err(e) => {
                eprintln!("tool error in publish crash sweep: {e}");
                std::process::exit(2);
            }
        }
    }
    eprintln!("[topicstream replay] {total} behaviours, crash mode = {}", if kill { "SIGKILL child" } else { "in-process drop" });
    sh.out.write(args);
}

struct BehaviourResult {
    findings: Vec<Finding>,
    distinct: Vec<String>,
    counters: Vec<(String, u64)>,
    crashes: usize,
}

fn run_behaviour(b: &Value, db: &std::path::Path, kill: bool, prop: &'static str, seed: u64, idx: usize) -> Result<BehaviourResult, String> {
    let steps = b["steps"].as_array().ok_or("behaviour without steps")?;
    let ids = Ids::new();
    // authors of the model = keys of the first cursor
    let mut authors: Vec<String> = steps
        .first()
        .and_then(|s| s["post"]["cursor"].as_object())
        .map(|m| m.keys().cloned().collect())
        .unwrap_or_default();
    authors.sort();
    let mut bodies: BTreeMap<&str, Vec<(bool, bool)>> = BTreeMap::new();
    // body flags of remote operations: taken from the TakeImported steps of this behaviour
    for s in steps {
        if s["act"] == "TakeImported" {
            let a = s["arg"]["op"]["a"].as_str().unwrap_or("?");
            let seq = s["arg"]["op"]["seq"].as_i64().unwrap_or(0) as usize;
            let name: &'static str = match a {
                "r1" => "r1",
                "r2" => "r2",
                _ => return Err(format!("unknown remote author {a}")),
            };
            let v = bodies.entry(name).or_default();
            if v.len() <= seq {
                v.resize(seq + 1, (true, false));
            }
            v[seq] = (
                s["arg"]["op"]["body"].as_bool().unwrap_or(true),
                s["arg"]["op"]["prune"].as_bool().unwrap_or(false),
            );
        }
    }
    let remote = build_remote_ops(&ids, &bodies);
    let net: String = (0..32).map(|k| format!("{:02x}", ((seed as usize).wrapping_mul(31) + idx * 7 + k * 13 + std::process::id() as usize) & 0xff)).collect();

    let mut walk = Walk::new(authors);
    let mut host: Option<Host> = None;
    let mut findings = Vec::new();
    let mut counters: BTreeMap<String, u64> = BTreeMap::new();
    let mut crashes = 0usize;
    let mut distinct = Vec::new();
    let mut policies = BTreeSet::new();
    let mut last_open = json!(null);
    let mut abandoned = false;

    for step in steps {
        let act = step["act"].as_str().unwrap_or("?");
        *counters.entry(format!("act:{act}")).or_insert(0) += 1;
        let obs = match act {
            "Open" => {
                if let Some(h) = host.take() {
                    h.crash();
                }
                let mut cmd = step.clone();
                cmd["cfg"] = json!({"db": db.to_string_lossy(), "remote": remote, "net": net, "control": true});
                last_open = cmd.clone();
                policies.insert(step["arg"]["p"].as_str().unwrap_or("?").to_string());
                let (h, obs) = Host::start(kill, &cmd)?;
                host = Some(h);
                if obs["open_attempts"].as_u64().unwrap_or(1) > 1 {
                    *counters.entry("open:retried".into()).or_insert(0) += 1;
                }
                *counters.entry(format!("open:{}", step["arg"]["from"].as_str().unwrap_or("?"))).or_insert(0) += 1;
                obs
            }
            "Crash" => {
                let h = host.take().ok_or("Crash without a running node")?;
                h.crash();
                crashes += 1;
                let at = format!(
                    "crash@st={}/{},pub={},app={}",
                    step["arg"]["stpc"].as_str().unwrap_or("?"),
                    step["arg"]["stctx"].as_str().unwrap_or("?"),
                    step["arg"]["pubpc"].as_str().unwrap_or("?"),
                    step["arg"]["apppc"].as_str().unwrap_or("?")
                );
                *counters.entry(at.clone()).or_insert(0) += 1;
                distinct.push(at);
                continue; // the persisted state is compared at the next Open
            }
            _ => {
                let h = host.as_mut().ok_or_else(|| format!("{act} without a running node"))?;
                match h.exec(step) {
                    Ok(obs) => obs,
                    Err(e) if e.starts_with("stuck:") => {
                        // The specification says the step is enabled, the code did not get to its
                        // next schedule point. Decide WHY without a clock: release every parked
                        // process. If the node then runs to the end of the marker session, the step
                        // was waiting for something a parked process holds, i.e. the code takes a
                        // lock / a path the specification does not know at this step.
                        match h.exec(&json!({"act": "Settle"})) {
                            Ok(settled) => {
                                findings.push(Finding {
                                    property: prop,
                                    signature: format!("conformance-step-structure:{act}"),
                                    detail: format!(
                                        "{act} is enabled in the specification but the code blocked until the other parked \
                                         processes were released ({e}): the model no longer describes the code's step structure"
                                    ),
                                });
                                if !walk.window_done {
                                    findings.extend(walk.judge_settled(&settled));
                                }
                                break;
                            }
                            Err(e2) => return Err(format!("{e}; and the node does not run when released either: {e2}")),
                        }
                    }
                    Err(e) if e.contains("database is locked") && !kill => {
                        // In-process crash only: what is left of the dropped incarnation (actor and
                        // pipeline threads of the old node) occasionally still writes to the file
                        // while the new node runs; a read-then-write transaction of the new node then
                        // fails with SQLITE_BUSY_SNAPSHOT. That is the simulation's afterlife, not a
                        // step of the behaviour: the behaviour is abandoned (counted, never judged).
                        *counters.entry("abandoned:database-is-locked".into()).or_insert(0) += 1;
                        abandoned = true;
                        break;
                    }
                    Err(e) => return Err(e),
                }
            }
        };
        if (act == "AckEnter" && step["post"]["stpc"] == "ackblocked")
            || (act == "AppAckBegin" && step["post"]["apppc"] == "ackblocked")
        {
            *counters.entry("probe:acker-must-wait-for-permit".into()).or_insert(0) += 1;
        }
        let fs = walk.compare(step, &obs, prop);
        if let Some(x) = walk.non_exclusive.take() {
            // Two ackers are inside Acked::ack at once. Show what that does to the properties: let
            // the second one read now (stale), finish the holder, finish the second one, look at the
            // persisted cursor; for C15 crash, re-open from the frontier and look at the replay.
            findings.extend(fs);
            *counters.entry("exploit:overlapping-acks".into()).or_insert(0) += 1;
            match exploit_overlap(&mut host, step, &x, &walk, kill, prop, &last_open) {
                Ok(more) => findings.extend(more),
                Err(e) => {
                    *counters.entry(format!("exploit:aborted:{}", e.chars().take(40).collect::<String>())).or_insert(0) += 1;
                }
            }
            break;
        }
        let stop = !fs.is_empty();
        let drift = fs.iter().any(|f| f.signature.starts_with("conformance-step-structure"));
        findings.extend(fs);
        if stop {
            // After the first disagreement the rest of the schedule is meaningless. If the
            // disagreement is about the step structure while a replay is still running, let the node
            // run freely and judge the replay itself (property level): what it delivers up to
            // ReplayEnded against the un-acknowledged set.
            if drift && !walk.window_done {
                if let Some(h) = host.as_mut() {
                    if let Ok(settled) = h.exec(&json!({"act": "Settle"})) {
                        findings.extend(walk.judge_settled(&settled));
                    }
                }
            }
            break;
        }
    }
    if let Some(h) = host.take() {
        h.crash();
    }
    if abandoned {
        findings.clear();
    }
    distinct.push(format!("policies={policies:?},crashes={crashes},expect={}", walk.expect.len()));
    Ok(BehaviourResult {
        findings,
        distinct,
        counters: counters.into_iter().collect(),
        crashes,
    })
}

/// See the call site. `x` = the acker found inside `Acked::ack` (parked at acked.ack.before_read)
/// although the other one holds the permit.
fn exploit_overlap(
    host: &mut Option<Host>,
    step: &Value,
    x: &str,
    walk: &Walk,
    kill: bool,
    prop: &'static str,
    last_open: &Value,
) -> Result<Vec<Finding>, String> {
    let mut out = Vec::new();
    let post = &step["post"];
    let h_name = if x == "st" { "app" } else { "st" };
    let act = |who: &str, what: &str| -> Value {
        json!({"act": if who == "app" { format!("AppAck{what}") } else { format!("Ack{what}") }, "arg": {}})
    };
    let hst = host.as_mut().ok_or("no node")?;
    // 1. the second acker reads (stale: the holder has not written yet)
    hst.exec(&act(x, "Read"))?;
    // 2. the holder finishes
    let hpc = post[if h_name == "st" { "stpc" } else { "apppc" }].as_str().unwrap_or("?");
    let todo: &[&str] = match hpc {
        "acklocked" => &["Read", "WriteTx", "Commit"],
        "ackread" => &["WriteTx", "Commit"],
        "ackintx" => &["Commit"],
        other => return Err(format!("holder at pc {other}")),
    };
    for t in todo {
        hst.exec(&act(h_name, t))?;
    }
    // 3. the second acker writes what it computed from its stale read
    hst.exec(&act(x, "WriteTx"))?;
    let obs = hst.exec(&act(x, "Commit"))?;
    // 4. both acks returned: the persisted cursor must cover both and must not have gone back
    let before = &walk.prev_cursor;
    let after = cursor_map(&obs["cursor"], &walk.authors);
    let mut frontier = before.clone();
    let mut acked = Vec::new();
    for op in [&post["stop"], &post["appop"]] {
        if op["tp"] == "t" {
            let a = op["a"].as_str().unwrap_or("?").to_string();
            let seq = op["seq"].as_i64().unwrap_or(-1);
            acked.push(op_key(op));
            let e = frontier.entry(a).or_insert(-1);
            *e = (*e).max(seq);
        }
    }
    let back: Vec<&String> = walk.authors.iter().filter(|a| after[*a] < before[*a]).collect();
    let lost: Vec<&String> = walk.authors.iter().filter(|a| after[*a] < frontier[*a]).collect();
    if !back.is_empty() {
        out.push(Finding {
            property: "C07",
            signature: "c07-cursor-moved-backwards".into(),
            detail: format!(
                "overlapping acks of {acked:?} (both returned): persisted cursor of {back:?} went from {before:?} to {after:?}"
            ),
        });
    } else if !lost.is_empty() {
        out.push(Finding {
            property: "C07",
            signature: "c07-concurrent-acks-lost-update".into(),
            detail: format!(
                "overlapping acks of {acked:?} (both returned): persisted cursor is {after:?}, pointwise max of what was acknowledged is {frontier:?}"
            ),
        });
    }
    // 5. C15: crash, re-open from the frontier, everything the replay delivers must be un-acknowledged
    if prop == "C15" && !lost.is_empty() && last_open.is_object() {
        host.take().ok_or("no node")?.crash();
        let mut open = last_open.clone();
        open["arg"]["from"] = json!("frontier");
        let (mut h2, _) = Host::start(kill, &open)?;
        let settled = h2.exec(&json!({"act": "Settle"}));
        h2.crash();
        let settled = settled?;
        let redelivered: Vec<String> = settled["replayed"]
            .as_array()
            .into_iter()
            .flatten()
            .filter(|o| o["tp"] == "t" && o["seq"].as_i64().unwrap_or(i64::MAX) <= frontier.get(o["a"].as_str().unwrap_or("?")).copied().unwrap_or(-1))
            .map(op_key)
            .collect();
        if !redelivered.is_empty() {
            out.push(Finding {
                property: "C15",
                signature: "c15-replay-redelivers-acked".into(),
                detail: format!(
                    "after overlapping acks of {acked:?} (both returned; acknowledged frontier {frontier:?}) and a crash, the stream re-opened \
                     from the frontier delivered {redelivered:?} again (persisted cursor {after:?})"
                ),
            });
        }
    }
    Ok(out)
}

/// Poll-count crash sweep of the FIRST publish of the node into the topic on a fresh database:
/// for k = 1, 2, .. the publish future is polled k times, dropped, the incarnation crashes; the
/// next incarnation opens the stream from the frontier. Whatever k: either nothing is stored, or the
/// operation is stored AND its log is associated with the topic AND the replay delivers it
/// (specification: ForgeCommit is one atomic step, invariant StoredImpliesAssociated, ReplayExact).
fn publish_crash_sweep(kill: bool, seed: u64) -> Result<(Vec<Finding>, u64, u64), String> {
    let ids = Ids::new();
    let dir = db_dir(if kill { "sweep-kill" } else { "sweep-drop" });
    let remote = build_remote_ops(&ids, &BTreeMap::new());
    let mut findings = Vec::new();
    let mut stored_after_cut = 0u64;
    let mut k = 0u64;
    loop {
        k += 1;
        if k > 200 {
            return Err("publish did not complete within 200 polls".into());
        }
        let db = dir.join(format!("k{k}.sqlite"));
        remove_db(&db);
        let net: String = (0..32).map(|j| format!("{:02x}", (seed as usize + k as usize * 3 + j * 7 + std::process::id() as usize) & 0xff)).collect();
        let cfg = json!({"db": db.to_string_lossy(), "remote": remote, "net": net, "control": false, "preobserve": true});
        let open = json!({"act": "Open", "arg": {"p": "explicit", "from": "frontier", "c": {}}, "cfg": cfg});
        let (mut h, _) = Host::start(kill, &open)?;
        let r = h.exec(&json!({"act": "PollPublish", "arg": {"k": k}}));
        h.crash();
        let r = r?;
        let done = r["done"].as_bool().unwrap_or(false);
        // next incarnation
        let (mut h2, first) = Host::start(kill, &open)?;
        let drained = h2.exec(&json!({"act": "Drain"}));
        h2.crash();
        remove_db(&db);
        let drained = drained?;
        let pre = &first["pre"];
        let stored = op_set(&pre["stored"]);
        let assoc = assoc_set(&pre["assoc"]);
        let replayed = op_set(&drained["replayed"]);
        let unacked: BTreeSet<String> = pre["stored"]
            .as_array()
            .into_iter()
            .flatten()
            .filter(|o| o["tp"] == "t" && o["body"] == true)
            .filter(|o| o["seq"].as_i64().unwrap_or(-1) > pre["cursor"][o["a"].as_str().unwrap_or("?")].as_i64().unwrap_or(-1))
            .map(op_key)
            .collect();
        if !stored.is_empty() && !done {
            stored_after_cut += 1;
        }
        for o in pre["stored"].as_array().into_iter().flatten() {
            let key = format!("{}:{}", o["tp"].as_str().unwrap_or("?"), o["a"].as_str().unwrap_or("?"));
            if !assoc.contains(&key) {
                findings.push(Finding {
                    property: "C15",
                    signature: "c15-stored-operation-not-associated".into(),
                    detail: format!(
                        "publish dropped after {k} polls + crash: {} is stored but its log is not associated with the topic \
                         (associations {assoc:?}); the specification's ForgeCommit is atomic (StoredImpliesAssociated)",
                        op_key(o)
                    ),
                });
            }
        }
        if replayed != unacked {
            findings.push(Finding {
                property: "C15",
                signature: if unacked.difference(&replayed).next().is_some() {
                    "c15-replay-misses-unacked".into()
                } else {
                    "c15-replay-redelivers-acked".into()
                },
                detail: format!(
                    "publish dropped after {k} polls + crash: stream re-opened from the frontier delivered {replayed:?}; stored, with body \
                     and not acknowledged are {unacked:?} (stored {stored:?}, associations {assoc:?})"
                ),
            });
        }
        if done {
            if r["ok"] != true {
                return Err(format!("publish failed: {}", r["error"]));
            }
            if !stored.contains("me/t/0/b") {
                findings.push(Finding {
                    property: "C15",
                    signature: "c15-completed-publish-not-stored".into(),
                    detail: format!("publish returned Ok after {k} polls, after the crash the store holds {stored:?}"),
                });
            }
            break;
        }
        if !findings.is_empty() {
            break; // one failing cut point is enough
        }
    }
    Ok((findings, k, stored_after_cut))
}
