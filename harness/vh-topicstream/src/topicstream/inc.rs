//! One incarnation of the real node: `p2panda::Node` on a file-backed SQLite database with the
//! topic stream of `t` open, driven one specification action at a time.
use std::collections::BTreeMap;
use std::sync::Arc;

use futures_util::{FutureExt, StreamExt};
use p2panda::network::MdnsDiscoveryMode;
use p2panda::node::AckPolicy;
use p2panda::operation::{Extensions, Header, LogId, Operation};
use p2panda::streams::{AckedError, StreamEvent, StreamFrom, StreamPublisher, StreamSubscription};
use p2panda::verif_api::{Forge, OperationForge};
use p2panda::{Cursor, Node};
use p2panda_core::cbor::{decode_cbor, encode_cbor};
use p2panda_core::logs::LogHeights;
use p2panda_core::{Body, Hash, SeqNum, SigningKey, Topic, VerifyingKey};
use p2panda_store::SqliteStore;
use p2panda_store::cursors::CursorStore;
use p2panda_store::logs::LogStore;
use p2panda_store::topics::TopicStore;
use tokio::sync::{mpsc, oneshot};
use tokio::task::JoinHandle;
use tokio_stream::wrappers::UnboundedReceiverStream;
use vh_common::{Value, json};

use super::gate::{Gate, STUCK_AFTER};

pub const AUTHORS: [&str; 3] = ["me", "r1", "r2"];
pub const TOPICS: [&str; 2] = ["t", "f"];

/// Fixed identities. The three keys are assigned so that `me < r1 < r2` in the order of
/// `VerifyingKey` (iteration order of every BTreeMap keyed by author = `AuthorOrder` of the spec).
#[derive(Clone)]
pub struct Ids {
    pub keys: BTreeMap<&'static str, SigningKey>,
    pub topics: BTreeMap<&'static str, Topic>,
}

impl Ids {
    pub fn new() -> Ids {
        let mut ks: Vec<SigningKey> = (1u8..=3).map(|i| SigningKey::from_bytes(&[i; 32])).collect();
        ks.sort_by_key(|k| k.verifying_key());
        let mut keys = BTreeMap::new();
        for (name, k) in AUTHORS.iter().zip(ks) {
            keys.insert(*name, k);
        }
        let mut topics = BTreeMap::new();
        topics.insert("t", Topic::from([0x74u8; 32]));
        topics.insert("f", Topic::from([0x66u8; 32]));
        Ids { keys, topics }
    }

    pub fn vk(&self, a: &str) -> VerifyingKey {
        self.keys[a].verifying_key()
    }

    pub fn author_name(&self, vk: &VerifyingKey) -> Option<&'static str> {
        AUTHORS.iter().copied().find(|a| &self.vk(a) == vk)
    }

    pub fn topic(&self, tp: &str) -> Topic {
        self.topics[tp]
    }

    pub fn log(&self, tp: &str) -> LogId {
        LogId::from_topic(self.topic(tp))
    }

    pub fn topic_name_of_log(&self, log: &LogId) -> &'static str {
        TOPICS.iter().copied().find(|t| &self.log(t) == log).unwrap_or("?")
    }
}

/// Remote operations are created once per behaviour (their timestamps differ per creation) and
/// handed to every incarnation as hex: `{ "r1": [ {"h": <header hex>, "b": <body hex>|null}, .. ] }`.
pub fn build_remote_ops(ids: &Ids, bodies: &BTreeMap<&str, Vec<(bool, bool)>>) -> Value {
    let mut out = serde_json::Map::new();
    for (author, flags) in bodies {
        let key = &ids.keys[author];
        let mut backlink: Option<Hash> = None;
        let mut list = Vec::new();
        for (seq, (has_body, prune)) in flags.iter().enumerate() {
            let body: Option<Body> = if *has_body {
                let bytes = encode_cbor(&format!("{author}-{seq}")).expect("cbor");
                Some(Body::new(&bytes))
            } else {
                None
            };
            let mut header = Header {
                version: 1,
                verifying_key: key.verifying_key(),
                signature: None,
                payload_size: body.as_ref().map(|b| b.size()).unwrap_or(0),
                payload_hash: body.as_ref().map(|b| b.hash()),
                seq_num: seq as SeqNum,
                backlink,
                extensions: Extensions::from_topic(ids.topic("t")).set_prune_flag(*prune),
            };
            header.sign(key);
            backlink = Some(header.hash());
            list.push(json!({
                "h": hex(&header.to_bytes()),
                "b": body.as_ref().map(|b| hex(b.as_bytes())),
            }));
        }
        out.insert(author.to_string(), Value::Array(list));
    }
    Value::Object(out)
}

fn hex(bytes: &[u8]) -> String {
    bytes.iter().map(|b| format!("{b:02x}")).collect()
}

fn unhex(s: &str) -> Vec<u8> {
    (0..s.len() / 2)
        .map(|i| u8::from_str_radix(&s[2 * i..2 * i + 2], 16).expect("hex"))
        .collect()
}

fn decode_remote(v: &Value) -> Operation {
    let hbytes = unhex(v["h"].as_str().expect("header hex"));
    let header: Header = decode_cbor(&hbytes[..]).expect("decode remote header");
    let body = v["b"].as_str().map(|b| Body::new(&unhex(b)));
    Operation {
        hash: header.hash(),
        header,
        body,
    }
}

pub fn op_json(a: &str, tp: &str, seq: i64, body: bool, prune: bool) -> Value {
    json!({"a": a, "tp": tp, "seq": seq, "body": body, "prune": prune})
}

enum Advance<T> {
    Parked(&'static str),
    Finished(T),
}

type AppTaskOut = (StreamSubscription<String>, Result<(), AckedError>);

pub struct Inc {
    #[allow(dead_code)]
    pub id: u64,
    gate: Arc<Gate>,
    ids: Ids,
    /// kept alive for the lifetime of the incarnation
    #[allow(dead_code)]
    node: Node,
    store: SqliteStore,
    tx: StreamPublisher<String>,
    rx: Option<StreamSubscription<String>>,
    pub_task: Option<JoinHandle<Result<String, String>>>,
    app_task: Option<JoinHandle<AppTaskOut>>,
    imp_tx: Option<mpsc::UnboundedSender<Operation>>,
    remote: BTreeMap<(String, i64), Operation>,
    controlled: bool,
    pub pre: Option<Value>,
    explicit: bool,
    /// import sessions opened on this stream so far (= session id of the next one)
    sessions: u64,
    /// the stream task / the application's ack call was released into `Acked::ack` while the other
    /// acker held the permit and has not reached a schedule point since (it waits in `acquire`)
    st_blocked: bool,
    app_blocked: bool,
}

impl Inc {
    /// `Open`: spawns the node on the database file and opens the stream of topic `t`.
    pub async fn open(id: u64, cmd: &Value) -> Result<Inc, String> {
        let ids = Ids::new();
        let cfg = &cmd["cfg"];
        let arg = &cmd["arg"];
        let controlled = cfg["control"].as_bool().unwrap_or(true);
        let gate = Gate::install(id, controlled);

        let policy = match arg["p"].as_str() {
            Some("explicit") => AckPolicy::Explicit,
            _ => AckPolicy::Automatic,
        };
        let db = cfg["db"].as_str().ok_or("cfg.db missing")?;
        // free-running histories: state of the file as the dead process left it, read through a
        // plain store before the node (and its replay with auto-acks) touches it
        let pre = if cfg["preobserve"].as_bool().unwrap_or(false) {
            let store = p2panda_store::SqliteStoreBuilder::new()
                .database_url(&format!("sqlite://{db}"))
                .build()
                .await
                .map_err(|e| format!("pre-observe: open store: {e}"))?;
            let v = observe_store(&store, &ids, &gate).await?;
            store.pool().close().await;
            Some(v)
        } else {
            None
        };
        let mut net = [0u8; 32];
        for (i, b) in unhex(cfg["net"].as_str().unwrap_or("")).iter().take(32).enumerate() {
            net[i] = *b;
        }
        let node = p2panda::builder()
            .database_url(&format!("sqlite://{db}"))
            .signing_key(ids.keys["me"].clone())
            .ack_policy(policy)
            .network_id(net)
            .mdns_mode(MdnsDiscoveryMode::Disabled)
            .bind_ip_v4(std::net::Ipv4Addr::LOCALHOST)
            .bind_ip_v6(std::net::Ipv6Addr::LOCALHOST)
            .spawn()
            .await
            .map_err(|e| format!("node spawn failed: {e}"))?;
        let store = node.store();

        let from = match arg["from"].as_str() {
            Some("start") => StreamFrom::Start,
            Some("cursor") => {
                let mut heights: LogHeights<VerifyingKey, LogId> = LogHeights::default();
                for a in AUTHORS {
                    if let Some(h) = arg["c"][a].as_i64()
                        && h >= 0
                    {
                        heights.entry(ids.vk(a)).or_default().insert(ids.log("t"), h as SeqNum);
                    }
                }
                StreamFrom::Cursor(Cursor::new(ids.topic("t").to_string(), heights))
            }
            _ => StreamFrom::Frontier,
        };

        let (tx, rx) = node
            .stream_from::<String>(ids.topic("t"), from)
            .await
            .map_err(|e| format!("stream_from failed: {e}"))?;

        let mut remote = BTreeMap::new();
        if let Some(map) = cfg["remote"].as_object() {
            for (author, list) in map {
                for (seq, v) in list.as_array().into_iter().flatten().enumerate() {
                    remote.insert((author.clone(), seq as i64), decode_remote(v));
                }
            }
        }

        let inc = Inc {
            id,
            gate,
            ids,
            node,
            store,
            tx,
            rx: Some(rx),
            pub_task: None,
            app_task: None,
            imp_tx: None,
            remote,
            controlled,
            pre,
            explicit: matches!(policy, AckPolicy::Explicit),
            sessions: 0,
            st_blocked: false,
            app_blocked: false,
        };
        if controlled {
            // the stream task parks at the first replayed operation or at the top of its loop
            inc.gate.wait_parked("st").await?;
        }
        Ok(inc)
    }

    pub fn store(&self) -> &SqliteStore {
        &self.store
    }

    /// In-process crash only: a killed process loses its SQLite locks with its file descriptors;
    /// a dropped runtime does not (the connection of a transaction that was open at the crash
    /// point stays alive inside the shared store handle). Roll that transaction back by hand so
    /// that the next incarnation finds the file the way a dead process would have left it.
    pub async fn release_db_like_a_dead_process(&self) {
        let _ = self
            .store
            .tx(async |tx| {
                sqlx::query("ROLLBACK")
                    .execute(&mut **tx)
                    .await
                    .map(|_| ())
                    .map_err(p2panda_store::SqliteError::Sqlite)
            })
            .await;
    }





    pub fn remote_op(&self, a: &str, seq: i64) -> Option<Operation> {
        self.remote.get(&(a.to_string(), seq)).cloned()
    }

    async fn spawn_registered<F, T>(&self, proc: &'static str, fut: F) -> JoinHandle<T>
    where
        F: Future<Output = T> + Send + 'static,
        T: Send + 'static,
    {
        let (go_tx, go_rx) = oneshot::channel::<()>();
        let handle = tokio::spawn(async move {
            let _ = go_rx.await;
            fut.await
        });
        self.gate.register(handle.id(), proc);
        let _ = go_tx.send(());
        handle
    }

    async fn advance<T>(&self, proc: &'static str, handle: &mut JoinHandle<T>) -> Result<Advance<T>, String> {
        tokio::select! {
            biased;
            r = &mut *handle => match r {
                Ok(v) => Ok(Advance::Finished(v)),
                Err(e) => Err(format!("task '{proc}' failed: {e}")),
            },
            name = self.gate.wait_parked(proc) => Ok(Advance::Parked(name?)),
        }
    }

    /// Bounded look at a process that is expected to wait for the Acked permit: on the code as it
    /// is it never arrives (it is blocked until the holder, which we keep parked, releases), so
    /// this can only ever miss an arrival, never invent one.
    async fn probe_parked(&self, proc: &str) -> Option<&'static str> {
        for _ in 0..60 {
            if let Some(p) = self.gate.parked(proc) {
                return Some(p);
            }
            tokio::task::yield_now().await;
            tokio::time::sleep(std::time::Duration::from_millis(4)).await;
        }
        self.gate.parked(proc)
    }

    /// After the holder of the permit is through: an acker that waited for the permit now gets it.
    async fn resume_blocked(&mut self, out: &mut serde_json::Map<String, Value>) -> Result<(), String> {
        if self.st_blocked {
            self.gate.wait_parked("st").await?;
            self.st_blocked = false;
        }
        if self.app_blocked {
            let mut h = self.app_task.take().ok_or("blocked ack call lost")?;
            let adv = match self.advance("app", &mut h).await {
                Ok(a) => a,
                Err(e) => {
                    self.app_task = Some(h);
                    return Err(e);
                }
            };
            self.app_blocked = false;
            match adv {
                Advance::Parked(_) => {
                    self.app_task = Some(h);
                    out.insert("res".into(), json!("pending"));
                }
                Advance::Finished((rx, r)) => {
                    self.rx = Some(rx);
                    out.insert("res".into(), json!(ack_result(&r)));
                }
            }
        }
        Ok(())
    }

    async fn step_st(&self) -> Result<(), String> {
        if !self.gate.release("st") {
            return Err("lockstep: stream task is not parked".into());
        }
        self.gate.wait_parked("st").await?;
        Ok(())
    }

    async fn hash_of(&self, op: &Value) -> Result<Hash, String> {
        let a = op["a"].as_str().unwrap_or("?");
        let tp = op["tp"].as_str().unwrap_or("?");
        let seq = op["seq"].as_i64().unwrap_or(-1);
        if !AUTHORS.contains(&a) || !TOPICS.contains(&tp) || seq < 0 {
            return Err(format!("bad op {op}"));
        }
        let after = if seq == 0 { None } else { Some((seq - 1) as SeqNum) };
        let entries: Option<Vec<(Operation, Vec<u8>)>> = self
            .store
            .get_log_entries(&self.ids.vk(a), &self.ids.log(tp), after, Some(seq as SeqNum))
            .await
            .map_err(|e| format!("get_log_entries: {e}"))?;
        entries
            .and_then(|v| v.into_iter().find(|(o, _)| o.header.seq_num as i64 == seq))
            .map(|(o, _)| o.hash)
            .ok_or_else(|| format!("operation {op} is not in the store"))
    }

    /// Executes one specification action; returns action-specific observations.
    pub async fn exec(&mut self, cmd: &Value) -> Result<Value, String> {
        let act = cmd["act"].as_str().unwrap_or("");
        let arg = &cmd["arg"];
        let mut out = serde_json::Map::new();
        match act {
            "ForgeBegin" => {
                let tx = self.tx.clone();
                let seq = arg["op"]["seq"].as_i64().unwrap_or(0);
                let prune = arg["op"]["prune"].as_bool().unwrap_or(false);
                let body = arg["op"]["body"].as_bool().unwrap_or(true);
                let msg = format!("me-{seq}");
                let mut h = self
                    .spawn_registered("pub", async move {
                        let r = if prune {
                            tx.prune(if body { Some(msg) } else { None }).await
                        } else {
                            tx.publish(msg).await
                        };
                        match r {
                            Ok(f) => Ok(f.hash().to_string()),
                            Err(e) => Err(e.to_string()),
                        }
                    })
                    .await;
                match self.advance("pub", &mut h).await? {
                    Advance::Parked(_) => {}
                    Advance::Finished(r) => return Err(format!("publish finished without parking: {r:?}")),
                }
                self.pub_task = Some(h);
            }
            "ForgeCommit" => {
                let mut h = self.pub_task.take().ok_or("no publish call in flight")?;
                self.gate.release("pub");
                match self.advance("pub", &mut h).await? {
                    Advance::Parked(_) => {}
                    Advance::Finished(r) => return Err(format!("publish finished early: {r:?}")),
                }
                self.pub_task = Some(h);
            }
            "Enqueue" => {
                let mut h = self.pub_task.take().ok_or("no publish call in flight")?;
                self.gate.release("pub");
                match self.advance("pub", &mut h).await? {
                    Advance::Parked(p) => return Err(format!("publish parked again at {p}")),
                    Advance::Finished(r) => {
                        out.insert("pubres".into(), json!(if r.is_ok() { "ok" } else { "error" }));
                        if let Err(e) = r {
                            out.insert("error".into(), json!(e));
                        }
                    }
                }
            }
            "ForgeForeign" => {
                let forge = OperationForge::from_signing_key(self.ids.keys["me"].clone(), self.store.clone());
                let topic = self.ids.topic("f");
                let body = encode_cbor(&"foreign".to_string()).expect("cbor");
                forge
                    .create_operation(topic, LogId::from_topic(topic), Some(body), Extensions::from_topic(topic))
                    .await
                    .map_err(|e| format!("forge (foreign topic): {e}"))?;
            }
            "TakePublished" | "PipelineProcess" | "SkipAck" | "AckRead" | "AckWriteTx" | "Deliver" | "ReplayEnd" => {
                self.step_st().await?;
            }
            "AckCommit" => {
                self.step_st().await?;
                self.resume_blocked(&mut out).await?;
            }
            "AckEnter" => {
                let expect_blocked = cmd["post"]["stpc"] == "ackblocked" || arg["maybe_blocked"] == true;
                if expect_blocked {
                    if !self.gate.release("st") {
                        return Err("lockstep: stream task is not parked".into());
                    }
                    self.st_blocked = self.probe_parked("st").await.is_none();
                } else {
                    self.step_st().await?;
                }
            }
            "TakeImported" => {
                if self.imp_tx.is_none() {
                    self.open_import_session().await?;
                }
                let a = arg["op"]["a"].as_str().unwrap_or("?");
                let seq = arg["op"]["seq"].as_i64().unwrap_or(-1);
                let op = self.remote_op(a, seq).ok_or_else(|| format!("no remote operation {a}/{seq}"))?;
                self.imp_tx.as_ref().expect("session").send(op).map_err(|_| "import stream closed")?;
                self.step_st().await?;
            }
            "AppRecv" => {
                let ev = self.app_recv()?;
                out.insert("ev".into(), ev);
            }
            "AppAckBegin" => {
                let hash = self.hash_of(&arg["op"]).await?;
                let rx = self.rx.take().ok_or("application is busy")?;
                let mut h = self
                    .spawn_registered("app", async move {
                        let r = rx.ack(hash).await;
                        (rx, r)
                    })
                    .await;
                let expect_blocked = cmd["post"]["apppc"] == "ackblocked" || arg["maybe_blocked"] == true;
                let mut waiting = false;
                if expect_blocked {
                    // bounded look: neither parked nor finished = waiting for the permit
                    waiting = true;
                    for _ in 0..60 {
                        if self.gate.parked("app").is_some() || h.is_finished() {
                            waiting = false;
                            break;
                        }
                        tokio::task::yield_now().await;
                        tokio::time::sleep(std::time::Duration::from_millis(4)).await;
                    }
                }
                if waiting {
                    self.app_task = Some(h);
                    self.app_blocked = true;
                    out.insert("res".into(), json!("pending"));
                } else {
                    let adv = match self.advance("app", &mut h).await {
                        Ok(a) => a,
                        Err(e) => {
                            self.app_task = Some(h);
                            return Err(e);
                        }
                    };
                    match adv {
                        Advance::Parked(_) => {
                            self.app_task = Some(h);
                            out.insert("res".into(), json!("pending"));
                        }
                        Advance::Finished((rx, r)) => {
                            self.rx = Some(rx);
                            out.insert("res".into(), json!(ack_result(&r)));
                        }
                    }
                }
            }
            "AppAckRead" | "AppAckWriteTx" => {
                let mut h = self.app_task.take().ok_or("no ack call in flight")?;
                self.gate.release("app");
                let adv = match self.advance("app", &mut h).await {
                    Ok(a) => a,
                    Err(e) => {
                        self.app_task = Some(h);
                        return Err(e);
                    }
                };
                match adv {
                    Advance::Parked(_) => {
                        self.app_task = Some(h);
                        out.insert("res".into(), json!("pending"));
                    }
                    Advance::Finished((rx, r)) => {
                        self.rx = Some(rx);
                        return Err(format!("ack finished before commit point: {}", ack_result(&r)));
                    }
                }
            }
            "AppAckCommit" => {
                let mut h = self.app_task.take().ok_or("no ack call in flight")?;
                self.gate.release("app");
                let adv = match self.advance("app", &mut h).await {
                    Ok(a) => a,
                    Err(e) => {
                        self.app_task = Some(h);
                        return Err(e);
                    }
                };
                match adv {
                    Advance::Parked(p) => return Err(format!("ack parked again at {p}")),
                    Advance::Finished((rx, r)) => {
                        self.rx = Some(rx);
                        out.insert("res".into(), json!(ack_result(&r)));
                    }
                }
                let mut ignore = serde_json::Map::new();
                self.resume_blocked(&mut ignore).await?;
            }
            "Observe" => {}
            other => return Err(format!("unknown action {other}")),
        }
        let mut obs = self.observe().await?;
        if let Some(m) = obs.as_object_mut() {
            for (k, v) in out {
                m.insert(k, v);
            }
        }
        Ok(obs)
    }

    /// First remote operation of an incarnation: `StreamPublisher::import` with a harness-fed
    /// stream; the session bookkeeping of the stream task (ImportStarted) is passed silently.
    async fn open_import_session(&mut self) -> Result<(), String> {
        let (tx, rx) = mpsc::unbounded_channel::<Operation>();
        let publisher = self.tx.clone();
        let (ready_tx, ready_rx) = oneshot::channel::<Result<(), String>>();
        tokio::spawn(async move {
            let r = publisher.import(UnboundedReceiverStream::new(rx)).await;
            match r {
                Ok(fut) => {
                    let _ = ready_tx.send(Ok(()));
                    let _ = fut.await;
                }
                Err(e) => {
                    let _ = ready_tx.send(Err(e.to_string()));
                }
            }
        });
        if self.controlled {
            // loop.top -> (import_rx branch, `continue`) -> loop.top
            if self.gate.parked("st") != Some("stream.loop.top") {
                return Err(format!("import: stream task parked at {:?}", self.gate.parked("st")));
            }
            self.step_st().await?;
            if self.gate.parked("st") != Some("stream.loop.top") {
                return Err(format!("import: expected loop top, got {:?}", self.gate.parked("st")));
            }
            match tokio::time::timeout(STUCK_AFTER, ready_rx).await {
                Ok(Ok(Ok(()))) => {}
                other => return Err(format!("import did not become ready: {other:?}")),
            }
            // loop.top -> (ExternalStreamEvent::Start) -> before_send -> loop.top
            self.step_st().await?;
            if self.gate.parked("st") != Some("stream.loop.before_send") {
                return Err(format!("import: expected before_send, got {:?}", self.gate.parked("st")));
            }
            self.step_st().await?;
            if self.gate.parked("st") != Some("stream.loop.top") {
                return Err(format!("import: expected loop top after start, got {:?}", self.gate.parked("st")));
            }
        } else {
            match tokio::time::timeout(STUCK_AFTER, ready_rx).await {
                Ok(Ok(Ok(()))) => {}
                other => return Err(format!("import did not become ready: {other:?}")),
            }
        }
        self.imp_tx = Some(tx);
        self.sessions += 1;
        Ok(())
    }

    /// Feeds a remote operation into the import session (free-running mode).
    pub async fn feed_remote(&mut self, a: &str, seq: i64) -> Result<(), String> {
        if self.imp_tx.is_none() {
            self.open_import_session().await?;
        }
        let op = self.remote_op(a, seq).ok_or_else(|| format!("no remote operation {a}/{seq}"))?;
        self.imp_tx.as_ref().expect("session").send(op).map_err(|_| "import stream closed".to_string())
    }

    /// Receives everything the stream has for the application up to "now" without schedule
    /// control. "Now" is marked by the ImportStarted event of a fresh (empty) import session, which
    /// the stream task only handles in its main loop, i.e. after `replay_log_ranges` has returned.
    pub async fn drain_replay(&mut self) -> Result<Value, String> {
        let mut rx = self.rx.take().ok_or("application is busy")?;
        let (tx, orx) = mpsc::unbounded_channel::<Operation>();
        let publisher = self.tx.clone();
        tokio::spawn(async move {
            if let Ok(fut) = publisher.import(UnboundedReceiverStream::new(orx)).await {
                let _ = fut.await;
            }
        });
        let my_session = self.sessions;
        self.sessions += 1;
        self.imp_tx = Some(tx);
        let mut replayed = Vec::new();
        let mut others = Vec::new();
        let mut markers = Vec::new();
        let mut events = Vec::new();
        let mut seen_end = false;
        let fut = async {
            while let Some(ev) = rx.next().await {
                if let StreamEvent::ImportStarted { session_id } = &ev
                    && *session_id == my_session
                {
                    break;
                }
                match event_json(&self.ids, &ev) {
                    Some(v) => {
                        events.push(v.clone());
                        if v["k"] == "op" {
                            if !seen_end {
                                replayed.push(v["op"].clone());
                            }
                        } else if v["k"] == "rs" || v["k"] == "re" {
                            if v["k"] == "re" {
                                seen_end = true;
                            }
                            markers.push(v["k"].clone());
                        } else {
                            others.push(v);
                        }
                    }
                    None => {}
                }
            }
        };
        if tokio::time::timeout(STUCK_AFTER, fut).await.is_err() {
            return Err("stuck: the stream never handled the marker import session".into());
        }
        self.rx = Some(rx);
        Ok(json!({"replayed": replayed, "markers": markers, "others": others, "events": events}))
    }

    /// Crash sweep of `publish`: the publish future is polled `k` times (every poll after the first
    /// happens because the future was woken, i.e. after a bit of progress) and then dropped; the
    /// caller crashes the incarnation right afterwards. Reaches the await points of the forge that
    /// have no schedule point, e.g. between two transactions.
    pub async fn poll_publish(&mut self, k: u64) -> Result<Value, String> {
        let tx = self.tx.clone();
        let fut: std::pin::Pin<Box<dyn Future<Output = Result<String, String>> + Send>> = Box::pin(async move {
            tx.publish("me-0".to_string())
                .await
                .map(|f| f.hash().to_string())
                .map_err(|e| e.to_string())
        });
        let r = PollLimit { fut, left: k }.await;
        Ok(match r {
            Some(res) => json!({"done": true, "ok": res.is_ok(), "error": res.err()}),
            None => json!({"done": false}),
        })
    }

    /// Lock-step was lost (the code took a different step than the specification): give up
    /// schedule control, let everything run and report what the application receives, so that the
    /// caller can still judge the replay at property level.
    pub async fn settle(&mut self) -> Result<Value, String> {
        self.gate.set_free();
        self.controlled = false;
        self.st_blocked = false;
        self.app_blocked = false;
        if let Some(h) = self.app_task.take() {
            match tokio::time::timeout(STUCK_AFTER, h).await {
                Ok(Ok((rx, _))) => self.rx = Some(rx),
                _ => return Err("settle: application ack call did not return".into()),
            }
        }
        self.drain_replay().await
    }

    /// Free-running mode: seeded random workload without schedule control. `emit` is called after
    /// every COMPLETED call (the parent kills the process at a moment of its choosing).
    pub async fn free_run(&mut self, arg: &Value, emit: &mut dyn FnMut(Value)) -> Result<(), String> {
        let mut rng = vh_common::Rng::new(arg["seed"].as_u64().unwrap_or(1));
        let n = arg["n"].as_u64().unwrap_or(50);
        let mut rx = self.rx.take().ok_or("application is busy")?;
        let obs = self.observe().await?;
        let height = |a: &str, obs: &Value| -> i64 {
            obs["stored"]
                .as_array()
                .into_iter()
                .flatten()
                .filter(|o| o["a"] == a && o["tp"] == "t")
                .filter_map(|o| o["seq"].as_i64())
                .max()
                .unwrap_or(-1)
        };
        let mut my_next = height("me", &obs) + 1;
        let mut received: Vec<Value> = Vec::new();
        for _ in 0..n {
            match rng.below(10) {
                0..=3 => {
                    let msg = format!("me-{my_next}");
                    let r = if rng.chance(1, 8) {
                        self.tx.prune(Some(msg)).await
                    } else {
                        self.tx.publish(msg).await
                    };
                    match r {
                        Ok(_) => {
                            emit(json!({"p": "pub", "seq": my_next}));
                            my_next += 1;
                        }
                        // A publish may fail (e.g. SQLITE_BUSY_SNAPSHOT "database is locked" when
                        // log_prune's DELETE, which runs outside the store's transaction permit,
                        // commits between the forge's read and write): nothing was published.
                        Err(e) => emit(json!({"p": "pub_err", "error": e.to_string()})),
                    }
                }
                4..=5 => {
                    let r = if rng.chance(1, 2) { "r1" } else { "r2" };
                    // never leave a gap: an operation that failed processing is fed again
                    let stored_next = height(r, &self.observe().await?) + 1;
                    let next = stored_next;
                    let seq = if next > 0 && rng.chance(1, 4) { rng.below(next as u64) as i64 } else { next };
                    if self.remote_op(r, seq).is_some() {
                        self.feed_remote(r, seq).await?;
                        emit(json!({"p": "fed", "a": r, "seq": seq}));
                    }
                }
                6..=7 => {
                    while let Some(Some(ev)) = rx.next().now_or_never() {
                        if let Some(v) = event_json(&self.ids, &ev) {
                            if v["k"] == "op" {
                                received.push(v["op"].clone());
                            }
                            emit(json!({"p": "recv", "ev": v}));
                        }
                    }
                }
                8 => {
                    if !received.is_empty() && self.explicit {
                        // one ack, or several at once (join_all): different logs and one log out of
                        // order both occur, the picks are random
                        let k = if rng.chance(1, 2) { 1 } else { rng.range(2, 4) as usize };
                        let mut batch: Vec<(Value, Hash)> = Vec::new();
                        for _ in 0..k {
                            if received.is_empty() {
                                break;
                            }
                            let op = rng.pick(&received).clone();
                            // a received operation may have been pruned from its log meanwhile
                            match self.hash_of(&op).await {
                                Ok(hash) => batch.push((op, hash)),
                                Err(_) => received.retain(|o| o != &op),
                            }
                        }
                        let rx_ref = &rx;
                        let results =
                            futures_util::future::join_all(batch.iter().map(|(_, h)| rx_ref.ack(*h))).await;
                        for ((op, _), r) in batch.iter().zip(results.iter()) {
                            emit(json!({"p": "ack", "op": op, "res": ack_result(r), "batch": batch.len()}));
                        }
                    }
                }
                _ => tokio::task::yield_now().await,
            }
        }
        self.rx = Some(rx);
        Ok(())
    }

    /// Next event of the subscription if one is ready NOW (import bookkeeping events skipped).
    fn app_recv(&mut self) -> Result<Value, String> {
        let rx = self.rx.as_mut().ok_or("application is busy")?;
        loop {
            match rx.next().now_or_never() {
                None => return Ok(json!({"k": "none"})),
                Some(None) => return Ok(json!({"k": "closed"})),
                Some(Some(ev)) => {
                    if let Some(v) = event_json(&self.ids, &ev) {
                        return Ok(v);
                    }
                }
            }
        }
    }

    /// Committed state of the database, read through the store's public query API.
    pub async fn observe(&self) -> Result<Value, String> {
        let mut v = observe_store(&self.store, &self.ids, &self.gate).await?;
        if let Some(m) = v.as_object_mut() {
            m.insert("blocked".into(), json!({"st": self.st_blocked, "app": self.app_blocked}));
        }
        Ok(v)
    }
}

pub fn event_json(ids: &Ids, ev: &StreamEvent<String>) -> Option<Value> {
    Some(match ev {
        StreamEvent::Processed { operation, .. } => {
            let header = operation.processed().header();
            let a = ids.author_name(&header.verifying_key).unwrap_or("?");
            let tp = ids.topic_name_of_log(&header.extensions.log_id());
            let prune = header.extensions.prune_flag().is_set();
            json!({"k": "op", "op": op_json(a, tp, header.seq_num as i64, true, prune), "msg": operation.message()})
        }
        StreamEvent::ReplayStarted { total_operations } => json!({"k": "rs", "total": total_operations}),
        StreamEvent::ReplayEnded => json!({"k": "re"}),
        StreamEvent::ImportStarted { .. } | StreamEvent::ImportEnded { .. } => return None,
        StreamEvent::SyncStarted { .. } | StreamEvent::SyncEnded { .. } => return None,
        StreamEvent::ProcessingFailed { error, .. } => json!({"k": "other", "what": format!("ProcessingFailed: {error}")}),
        StreamEvent::ReplayFailed { error } => json!({"k": "other", "what": format!("ReplayFailed: {error}")}),
        StreamEvent::DecodeFailed { error, .. } => json!({"k": "other", "what": format!("DecodeFailed: {error}")}),
        StreamEvent::AckFailed { error, .. } => json!({"k": "other", "what": format!("AckFailed: {error}")}),
    })
}

pub fn ack_result(r: &Result<(), AckedError>) -> String {
    match r {
        Ok(()) => "ok".into(),
        Err(AckedError::InvalidTopic(_)) => "rejected".into(),
        Err(e) => format!("error: {e}"),
    }
}

pub async fn observe_store(store: &SqliteStore, ids: &Ids, gate: &Gate) -> Result<Value, String> {
    // persisted cursor of topic t
    let cursor: Option<Cursor<VerifyingKey, LogId>> = store
        .get_cursor(ids.topic("t").to_string())
        .await
        .map_err(|e| format!("get_cursor: {e}"))?;
    let mut cur = serde_json::Map::new();
    let mut extra = 0usize;
    for a in AUTHORS {
        let h = cursor
            .as_ref()
            .and_then(|c| c.log_height(&ids.vk(a), &ids.log("t")).copied())
            .map(|h| h as i64)
            .unwrap_or(-1);
        cur.insert(a.to_string(), json!(h));
    }
    if let Some(c) = &cursor {
        for (vk, logs) in c.state() {
            for log in logs.keys() {
                if ids.author_name(vk).is_none() || log != &ids.log("t") {
                    extra += 1;
                }
            }
        }
    }
    // stored operations and associations of both topics
    let mut stored = Vec::new();
    let mut assoc = Vec::new();
    for tp in TOPICS {
        let logs: BTreeMap<VerifyingKey, Vec<LogId>> = store
            .resolve(&ids.topic(tp))
            .await
            .map_err(|e| format!("resolve: {e}"))?;
        for (vk, log_ids) in &logs {
            if log_ids.contains(&ids.log(tp)) {
                assoc.push(json!({"tp": tp, "a": ids.author_name(vk).unwrap_or("?")}));
            }
        }
        for a in AUTHORS {
            let entries: Option<Vec<(Operation, Vec<u8>)>> = store
                .get_log_entries(&ids.vk(a), &ids.log(tp), None, None)
                .await
                .map_err(|e| format!("get_log_entries: {e}"))?;
            for (op, _) in entries.unwrap_or_default() {
                let prune = op.header.extensions.prune_flag().is_set();
                stored.push(op_json(a, tp, op.header.seq_num as i64, op.body.is_some(), prune));
            }
        }
    }
    Ok(json!({
        "cursor": Value::Object(cur),
        "cursor_extra": extra,
        "stored": stored,
        "assoc": assoc,
        "parked": {"st": gate.parked("st"), "pub": gate.parked("pub"), "app": gate.parked("app")},
    }))
}

/// Polls the inner future at most `left` times; `None` if it was still pending after the last one.
struct PollLimit<T> {
    fut: std::pin::Pin<Box<dyn Future<Output = T> + Send>>,
    left: u64,
}

impl<T> Future for PollLimit<T> {
    type Output = Option<T>;

    fn poll(mut self: std::pin::Pin<&mut Self>, cx: &mut std::task::Context<'_>) -> std::task::Poll<Option<T>> {
        if self.left == 0 {
            return std::task::Poll::Ready(None);
        }
        self.left -= 1;
        match self.fut.as_mut().poll(cx) {
            std::task::Poll::Ready(v) => std::task::Poll::Ready(Some(v)),
            std::task::Poll::Pending if self.left == 0 => std::task::Poll::Ready(None),
            std::task::Poll::Pending => std::task::Poll::Pending,
        }
    }
}
