//! Hosts for one node incarnation: in-process (own thread + own tokio runtime; crash = the runtime
//! and everything on it is dropped) and child process (crash = SIGKILL).
use std::io::{BufRead, BufReader, Write};
use std::path::PathBuf;
use std::process::{Child, ChildStdin, ChildStdout, Command, Stdio};
use std::sync::atomic::{AtomicU64, Ordering};
use std::sync::mpsc as smpsc;
use std::thread;

use vh_common::{Value, json};

use super::gate::{self, Gate};
use super::inc::Inc;

static NEXT_INC: AtomicU64 = AtomicU64::new(1);

pub enum Host {
    InProc {
        tx: smpsc::Sender<(Value, smpsc::Sender<Result<Value, String>>)>,
        thread: Option<thread::JoinHandle<()>>,
    },
    Child {
        child: Child,
        stdin: ChildStdin,
        stdout: BufReader<ChildStdout>,
    },
}

fn build_runtime(id: u64) -> tokio::runtime::Runtime {
    tokio::runtime::Builder::new_multi_thread()
        .worker_threads(2)
        .enable_all()
        .on_thread_start(move || gate::set_thread_incarnation(id))
        .build()
        .expect("tokio runtime")
}

/// Serves commands for one incarnation on the current thread until `Crash` or end of input.
/// `next` blocks for the next command (None = host gone); `reply` sends the answer.
fn serve(
    id: u64,
    open_cmd: Value,
    mut next: impl FnMut() -> Option<Value>,
    mut reply: impl FnMut(Result<Value, String>),
) {
    p2panda::test_utils::setup_logging(); // only with RUST_LOG set
    gate::set_thread_incarnation(id);
    let rt = build_runtime(id);
    let pool = rt.block_on(async {
        let mut inc = match Inc::open(id, &open_cmd).await {
            Ok(inc) => inc,
            Err(e) => {
                reply(Err(e));
                return None;
            }
        };
        let pool = inc.store().pool().clone();
        let first = inc.observe().await.map(|mut v| {
            if let (Some(m), Some(pre)) = (v.as_object_mut(), inc.pre.clone()) {
                m.insert("pre".into(), pre);
            }
            v
        });
        reply(first);
        loop {
            // commands arrive over a blocking channel; the runtime's workers keep running meanwhile
            let cmd = match tokio::task::block_in_place(&mut next) {
                Some(c) => c,
                None => break,
            };
            if cmd["act"] == "Crash" {
                break;
            }
            let r = match cmd["act"].as_str() {
                Some("Drain") => inc.drain_replay().await,
                Some("Settle") => inc.settle().await,
                Some("PollPublish") => inc.poll_publish(cmd["arg"]["k"].as_u64().unwrap_or(1)).await,
                Some("FreeRun") => {
                    let mut emit = |v: Value| reply(Ok(json!({"progress": v})));
                    match inc.free_run(&cmd["arg"], &mut emit).await {
                        Ok(()) => Ok(json!({"done": true})),
                        Err(e) => Err(e),
                    }
                }
                _ => inc.exec(&cmd).await,
            };
            reply(r);
        }
        // Crash: the incarnation (node, handles, tasks parked at their points) goes away with the
        // runtime; nothing is shut down in an orderly way.
        inc.release_db_like_a_dead_process().await;
        drop(inc);
        Some(pool)
    });
    rt.shutdown_background();
    // In-process only (a killed child never gets here): parts of the dropped node live on their own
    // threads (actors, pipeline) and wind down asynchronously. A dead process has no afterlife:
    // wait until every connection of the old pool is closed before the file is opened again.
    if let Some(pool) = pool {
        let rt2 = tokio::runtime::Builder::new_current_thread().enable_all().build().expect("runtime");
        rt2.block_on(async {
            let _ = tokio::time::timeout(std::time::Duration::from_secs(60), pool.close()).await;
        });
    }
    Gate::uninstall(id);
    gate::set_thread_incarnation(0);
}

impl Host {
    /// Starts an incarnation and executes `open_cmd`; returns the host and the first observation.
    ///
    /// A node that does not come up (spawn / stream_from error) is started again, up to three
    /// times: right after an in-process crash the remains of the previous incarnation (actor and
    /// pipeline threads of the dropped node) occasionally make an internal actor of the new node
    /// fail during start-up. Nothing of the behaviour has been executed on the new incarnation at
    /// that point, so starting it again is not a judgement of any property.
    pub fn start(kill: bool, open_cmd: &Value) -> Result<(Host, Value), String> {
        let mut last = String::new();
        for attempt in 0..3 {
            match Host::start_once(kill, open_cmd) {
                Ok((h, mut obs)) => {
                    if let Some(m) = obs.as_object_mut() {
                        m.insert("open_attempts".into(), json!(attempt + 1));
                    }
                    return Ok((h, obs));
                }
                Err(e) => {
                    last = e;
                    std::thread::sleep(std::time::Duration::from_millis(300));
                }
            }
        }
        Err(format!("node did not start in 3 attempts: {last}"))
    }

    fn start_once(kill: bool, open_cmd: &Value) -> Result<(Host, Value), String> {
        if kill {
            let exe = std::env::current_exe().map_err(|e| e.to_string())?;
            let mut child = Command::new(exe)
                .args(["topicstream", "child"])
                .stdin(Stdio::piped())
                .stdout(Stdio::piped())
                .stderr(Stdio::inherit())
                .spawn()
                .map_err(|e| format!("cannot spawn child harness: {e}"))?;
            let stdin = child.stdin.take().expect("stdin");
            let stdout = BufReader::new(child.stdout.take().expect("stdout"));
            let mut host = Host::Child { child, stdin, stdout };
            match host.exec(open_cmd) {
                Ok(obs) => Ok((host, obs)),
                Err(e) => {
                    host.crash();
                    Err(e)
                }
            }
        } else {
            let id = NEXT_INC.fetch_add(1, Ordering::SeqCst);
            let (tx, rx) = smpsc::channel::<(Value, smpsc::Sender<Result<Value, String>>)>();
            let (first_tx, first_rx) = smpsc::channel::<Result<Value, String>>();
            let open = open_cmd.clone();
            let thread = thread::Builder::new()
                .name(format!("inc-{id}"))
                .spawn(move || {
                    let pending: std::cell::RefCell<Option<smpsc::Sender<Result<Value, String>>>> =
                        std::cell::RefCell::new(Some(first_tx));
                    serve(
                        id,
                        open,
                        || match rx.recv() {
                            Ok((cmd, reply)) => {
                                *pending.borrow_mut() = Some(reply);
                                Some(cmd)
                            }
                            Err(_) => None,
                        },
                        |r| {
                            if let Some(reply) = pending.borrow_mut().take() {
                                let _ = reply.send(r);
                            }
                        },
                    );
                })
                .map_err(|e| e.to_string())?;
            let obs = first_rx
                .recv()
                .map_err(|_| "incarnation thread died during open".to_string())??;
            Ok((
                Host::InProc {
                    tx,
                    thread: Some(thread),
                },
                obs,
            ))
        }
    }

    pub fn exec(&mut self, cmd: &Value) -> Result<Value, String> {
        match self {
            Host::InProc { tx, .. } => {
                let (rtx, rrx) = smpsc::channel();
                tx.send((cmd.clone(), rtx)).map_err(|_| "incarnation thread gone".to_string())?;
                rrx.recv().map_err(|_| "incarnation thread died".to_string())?
            }
            Host::Child { stdin, stdout, .. } => {
                let line = serde_json::to_string(cmd).expect("json");
                stdin
                    .write_all(line.as_bytes())
                    .and_then(|_| stdin.write_all(b"\n"))
                    .and_then(|_| stdin.flush())
                    .map_err(|e| format!("child stdin: {e}"))?;
                let mut buf = String::new();
                let n = stdout.read_line(&mut buf).map_err(|e| format!("child stdout: {e}"))?;
                if n == 0 {
                    return Err("child harness exited unexpectedly".into());
                }
                let v: Value = serde_json::from_str(buf.trim()).map_err(|e| format!("child reply: {e}: {buf}"))?;
                if let Some(err) = v.get("err").and_then(|e| e.as_str()) {
                    return Err(err.to_string());
                }
                Ok(v["ok"].clone())
            }
        }
    }

    /// Child only: sends a command without waiting for the answer.
    pub fn send_only(&mut self, cmd: &Value) -> Result<(), String> {
        match self {
            Host::Child { stdin, .. } => {
                let line = serde_json::to_string(cmd).expect("json");
                stdin
                    .write_all(line.as_bytes())
                    .and_then(|_| stdin.write_all(b"\n"))
                    .and_then(|_| stdin.flush())
                    .map_err(|e| format!("child stdin: {e}"))
            }
            _ => Err("send_only needs a child host".into()),
        }
    }

    /// Child only: next line the child wrote (`{"ok": ..}` unwrapped; None at end of output).
    pub fn read_only(&mut self) -> Result<Option<Value>, String> {
        match self {
            Host::Child { stdout, .. } => {
                let mut buf = String::new();
                let n = stdout.read_line(&mut buf).map_err(|e| format!("child stdout: {e}"))?;
                if n == 0 {
                    return Ok(None);
                }
                let v: Value = serde_json::from_str(buf.trim()).map_err(|e| format!("child reply: {e}: {buf}"))?;
                if let Some(err) = v.get("err").and_then(|e| e.as_str()) {
                    return Err(err.to_string());
                }
                Ok(Some(v["ok"].clone()))
            }
            _ => Err("read_only needs a child host".into()),
        }
    }

    /// Crash of the incarnation.
    pub fn crash(self) {
        match self {
            Host::InProc { tx, mut thread } => {
                let (rtx, _rrx) = smpsc::channel();
                let _ = tx.send((json!({"act": "Crash"}), rtx));
                if let Some(t) = thread.take() {
                    let _ = t.join();
                }
            }
            Host::Child { mut child, stdin, stdout } => {
                let _ = child.kill(); // SIGKILL
                let _ = child.wait();
                drop(stdin);
                drop(stdout);
            }
        }
    }
}

/// `vh-topicstream topicstream child`: first line = Open command, then one command per line.
pub fn child_main(_args: &vh_common::Args) {
    let stdin = std::io::stdin();
    let mut lines = stdin.lock().lines();
    let open: Value = match lines.next() {
        Some(Ok(l)) => serde_json::from_str(&l).expect("open command"),
        _ => std::process::exit(2),
    };
    let out = std::io::stdout();
    serve(
        1,
        open,
        || match lines.next() {
            Some(Ok(l)) => serde_json::from_str::<Value>(&l).ok(),
            _ => None,
        },
        |r| {
            let v = match r {
                Ok(v) => json!({"ok": v}),
                Err(e) => json!({"err": e}),
            };
            let mut o = out.lock();
            let _ = writeln!(o, "{}", serde_json::to_string(&v).expect("json"));
            let _ = o.flush();
        },
    );
    // end of input without Crash: leave like a crash would
    std::process::exit(0);
}

/// Work directory for database files (under the check's work directory = cwd).
pub fn db_dir(sub: &str) -> PathBuf {
    let dir = std::env::current_dir().expect("cwd").join("ts-db").join(sub);
    let _ = std::fs::create_dir_all(&dir);
    dir
}

pub fn remove_db(path: &std::path::Path) {
    for suffix in ["", "-wal", "-shm", "-journal"] {
        let mut p = path.as_os_str().to_owned();
        p.push(suffix);
        let _ = std::fs::remove_file(PathBuf::from(p));
    }
}
