//! impl -> spec: a seeded random scheduler walks the real node through its schedule points; the
//! implementation decides where each released process lands.  One NDJSON event per specification
//! action (arguments + persisted state + the pcs derived from the point names), validated by TLC
//! against Trace_TopicStream.tla.
use std::collections::{BTreeMap, VecDeque};

use vh_common::{Args, Outcome, Rng, TraceWriter, Value, json};

use super::driver::{Host, db_dir, remove_db};
use super::inc::{AUTHORS, Ids, build_remote_ops};

const RULE: &str = "one run = one seeded random schedule (publish / import / ack / crash / reopen) of a real Node recorded \
at its schedule points; distinct = distinct (action, pc of the stream task) pairs seen";

/// Length of every remote author's log; body flag of remote seq s is `s % 3 != 1`
/// (must equal RemoteBodies in trace.cfg).
pub const REMOTE_LEN: usize = 12;
pub fn remote_body(seq: usize) -> bool {
    seq % 3 != 1
}
/// prune flag of remote seq s (must equal RemotePrunes in trace.cfg)
pub fn remote_prune(seq: usize) -> bool {
    seq % 5 == 4
}

fn pc_of(proc: &str, point: Option<&str>) -> &'static str {
    match (proc, point) {
        ("st", None) => "off",
        (_, None) => "idle",
        (_, Some("stream.loop.top")) => "idle",
        (_, Some("stream.published.before_process")) | (_, Some("process_operation.start")) => "taken",
        (_, Some("stream.published.processed")) | (_, Some("process_operation.processed")) => "processed",
        (_, Some("acked.ack.before_read")) => "acklocked",
        (_, Some("acked.ack.after_read")) => "ackread",
        (_, Some("acked.ack.before_commit")) => "ackintx",
        (_, Some("stream.loop.before_send")) | (_, Some("replay.before_send")) => "deliver",
        (_, Some("replay.before_ended")) => "ending",
        (_, Some("forge.tx.before_commit")) => "intx",
        (_, Some("publish.after_forge")) => "forged",
        _ => "unknown",
    }
}

struct Tracker {
    up: bool,
    stpc: &'static str,
    pubpc: &'static str,
    apppc: &'static str,
    /// (seq, body) of own operations enqueued and not yet taken by the stream task
    pubq: VecDeque<(i64, bool)>,
    forged: (i64, bool),
    /// does the operation the stream task works on get acknowledged by the node (None = unknown)
    st_needs_ack: Option<bool>,
    auto: bool,
    stored: Vec<Value>,
    steps_since_open: usize,
}

impl Tracker {
    fn height(&self, a: &str, tp: &str) -> i64 {
        self.stored
            .iter()
            .filter(|o| o["a"] == a && o["tp"] == tp)
            .filter_map(|o| o["seq"].as_i64())
            .max()
            .unwrap_or(-1)
    }
    fn tx_free(&self) -> bool {
        self.pubpc != "intx" && self.stpc != "ackintx" && self.apppc != "ackintx"
    }
    fn ack_free(&self) -> bool {
        !matches!(self.stpc, "acklocked" | "ackread" | "ackintx") && !matches!(self.apppc, "acklocked" | "ackread" | "ackintx")
    }
    fn absorb(&mut self, obs: &Value) {
        self.stpc = pc_of("st", obs["parked"]["st"].as_str());
        self.pubpc = pc_of("pub", obs["parked"]["pub"].as_str());
        self.apppc = pc_of("app", obs["parked"]["app"].as_str());
        if obs["blocked"]["st"] == true {
            self.stpc = "ackblocked";
        }
        if obs["blocked"]["app"] == true {
            self.apppc = "ackblocked";
        }
        self.stored = obs["stored"].as_array().cloned().unwrap_or_default();
    }
}

fn event(act: &str, arg: Value, obs: &Value, t: &Tracker) -> Value {
    let mut e = json!({
        "ev": act,
        "cursor": obs["cursor"],
        "stored": obs["stored"],
        "assoc": obs["assoc"],
        "stpc": t.stpc, "pubpc": t.pubpc, "apppc": t.apppc,
        "res": obs.get("res").cloned().unwrap_or(json!("none")),
    });
    if let (Some(m), Some(a)) = (e.as_object_mut(), arg.as_object()) {
        for (k, v) in a {
            m.insert(k.clone(), v.clone());
        }
    }
    e
}

pub fn run(args: &Args) {
    let out_path = args.out.clone().unwrap_or_else(|| {
        eprintln!("record needs --out");
        std::process::exit(2)
    });
    let kill = args.extra.get("crash").map(|s| s == "kill").unwrap_or(false);
    let steps_per_run = args.extra_usize("steps", 120);
    let n_remotes = args.extra_usize("remotes", 2).clamp(1, 2);
    let runs = args.n.max(1);
    let mut rng = Rng::new(args.seed ^ 0x7051_c57e);
    let mut w = TraceWriter::create(&out_path);
    let mut out = Outcome::new(args, RULE);
    let ids = Ids::new();
    let dir = db_dir(if kill { "record-kill" } else { "record-drop" });

    for run in 0..runs {
        let db = dir.join(format!("r{run}.sqlite"));
        remove_db(&db);
        let mut bodies: BTreeMap<&str, Vec<(bool, bool)>> = BTreeMap::new();
        for r in AUTHORS.iter().skip(1).take(n_remotes) {
            bodies.insert(r, (0..REMOTE_LEN).map(|s| (remote_body(s), remote_prune(s))).collect());
        }
        let remote = build_remote_ops(&ids, &bodies);
        let net: String = (0..32)
            .map(|k| format!("{:02x}", (args.seed as usize + run * 11 + k * 5 + std::process::id() as usize) & 0xff))
            .collect();
        w.event(json!({"ev": "Reset"}));
        out.eval();
        if let Err(e) = one_run(
            &mut rng, &mut w, &mut out, &db, kill, steps_per_run, n_remotes, &remote, &net,
        ) {
            eprintln!("tool error in run {run}: {e}");
            std::process::exit(2);
        }
        remove_db(&db);
    }
    // free-running histories killed by SIGKILL at a random moment (no schedule control)
    let free = args.extra_usize("free", 0);
    for run in 0..free {
        let db = dir.join(format!("free{run}.sqlite"));
        remove_db(&db);
        let mut bodies: BTreeMap<&str, Vec<(bool, bool)>> = BTreeMap::new();
        for r in AUTHORS.iter().skip(1).take(2) {
            bodies.insert(r, (0..REMOTE_LEN).map(|s| (remote_body(s), remote_prune(s))).collect());
        }
        let remote = build_remote_ops(&ids, &bodies);
        let net: String = (0..32)
            .map(|k| format!("{:02x}", (args.seed as usize + run * 17 + k * 3 + 99 + std::process::id() as usize) & 0xff))
            .collect();
        w.event(json!({"ev": "Reset"}));
        out.eval();
        if let Err(e) = free_run(&mut rng, &mut w, &mut out, &db, &remote, &net, args.extra_usize("rounds", 4)) {
            eprintln!("tool error in free run {run}: {e}");
            std::process::exit(2);
        }
        remove_db(&db);
    }
    let (events, runs) = w.finish();
    out.set_trace(events, runs);
    out.write(args);
}

#[allow(clippy::too_many_arguments)]
fn one_run(
    rng: &mut Rng,
    w: &mut TraceWriter,
    out: &mut Outcome,
    db: &std::path::Path,
    kill: bool,
    steps: usize,
    n_remotes: usize,
    remote: &Value,
    net: &str,
) -> Result<(), String> {
    let mut host: Option<Host> = None;
    let mut t = Tracker {
        up: false,
        stpc: "off",
        pubpc: "idle",
        apppc: "idle",
        pubq: VecDeque::new(),
        forged: (-1, true),
        st_needs_ack: None,
        auto: true,
        stored: Vec::new(),
        steps_since_open: 0,
    };
    let mut cursor_max: i64 = 1;
    let mut n = 0usize;
    while n < steps {
        n += 1;
        if !t.up {
            // (re)open
            let p = if rng.chance(1, 2) { "auto" } else { "explicit" };
            let roll = rng.below(10);
            let (from, c) = if roll == 0 {
                ("start", json!({}))
            } else if roll == 1 {
                let mut m = serde_json::Map::new();
                for a in AUTHORS.iter().take(1 + n_remotes) {
                    m.insert(a.to_string(), json!(rng.range(0, (cursor_max + 2) as u64) as i64 - 1));
                }
                ("cursor", Value::Object(m))
            } else {
                ("frontier", json!({}))
            };
            let cmd = json!({
                "act": "Open",
                "arg": {"p": p, "from": from, "c": c},
                "cfg": {"db": db.to_string_lossy(), "remote": remote, "net": net, "control": true},
            });
            let (h, obs) = Host::start(kill, &cmd)?;
            host = Some(h);
            t.up = true;
            t.auto = p == "auto";
            t.st_needs_ack = None;
            t.pubq.clear();
            t.steps_since_open = 0;
            t.absorb(&obs);
            w.event(event("Open", json!({"p": p, "from": from, "c": c}), &obs, &t));
            out.mark_distinct(format!("Open:{from}:{}", t.stpc));
            out.count(&format!("open:{from}"));
            continue;
        }
        t.steps_since_open += 1;
        // crash: anywhere, a few percent of the steps
        if rng.chance(5, 100) && t.steps_since_open > 2 {
            let at = format!("crash@st={},pub={},app={}", t.stpc, t.pubpc, t.apppc);
            out.count(&at);
            out.mark_distinct(at);
            host.take().expect("host").crash();
            t.up = false;
            t.stpc = "off";
            t.pubpc = "idle";
            t.apppc = "idle";
            w.event(json!({"ev": "Crash"}));
            continue;
        }
        // enabled actions (what can be released without blocking on a lock another parked process holds)
        let mut choices: Vec<(&'static str, Value)> = Vec::new();
        match t.pubpc {
            "idle" if t.tx_free() => choices.push(("ForgeBegin", json!({}))),
            "intx" => choices.push(("ForgeCommit", json!({}))),
            "forged" => choices.push(("Enqueue", json!({}))),
            _ => {}
        }
        if t.tx_free() && rng.chance(1, 6) {
            choices.push(("ForgeForeign", json!({})));
        }
        match t.stpc {
            "idle" => {
                if let Some((seq, body)) = t.pubq.front() {
                    choices.push(("TakePublished", json!({"op": {"a": "me", "tp": "t", "seq": seq, "body": body}})));
                } else {
                    for r in AUTHORS.iter().skip(1).take(n_remotes) {
                        // the next operation of the log or one that is still stored
                        let h = t.height(r, "t");
                        let mut cands: Vec<i64> = t
                            .stored
                            .iter()
                            .filter(|o| o["a"] == *r && o["tp"] == "t")
                            .filter_map(|o| o["seq"].as_i64())
                            .collect();
                        if ((h + 1) as usize) < REMOTE_LEN {
                            cands.push(h + 1);
                            cands.push(h + 1); // the next one twice as likely
                        }
                        if cands.is_empty() {
                            continue;
                        }
                        let s = *rng.pick(&cands);
                        choices.push((
                            "TakeImported",
                            json!({"op": {"a": r, "tp": "t", "seq": s, "body": remote_body(s as usize), "prune": remote_prune(s as usize)}}),
                        ));
                    }
                }
            }
            "taken" if t.tx_free() => choices.push(("PipelineProcess", json!({}))),
            "processed" if t.ack_free() => choices.push(("ReleaseProcessed", json!({}))),
            // the application holds the Acked permit (parked inside its ack): if the node will ack
            // this operation, its call has to wait; if it will not, it goes on to deliver
            "processed" => match t.st_needs_ack {
                Some(true) => choices.push(("ReleaseProcessed", json!({"maybe_blocked": true}))),
                Some(false) => choices.push(("ReleaseProcessed", json!({}))),
                None => {}
            },
            "acklocked" => choices.push(("AckRead", json!({}))),
            "ackread" if t.tx_free() => choices.push(("AckWriteTx", json!({}))),
            "ackintx" => choices.push(("AckCommit", json!({}))),
            "deliver" => choices.push(("Deliver", json!({}))),
            "ending" => choices.push(("ReplayEnd", json!({}))),
            _ => {}
        }
        match t.apppc {
            "idle" => {
                choices.push(("AppRecv", json!({})));
                if !t.stored.is_empty() && rng.chance(1, 2) {
                    let op = rng.pick(&t.stored).clone();
                    // while the stream task is inside its own ack the call has to wait for the permit
                    choices.push(("AppAckBegin", json!({"op": op, "maybe_blocked": !t.ack_free()})));
                }
            }
            "acklocked" => choices.push(("AppAckRead", json!({}))),
            "ackread" if t.tx_free() => choices.push(("AppAckWriteTx", json!({}))),
            "ackintx" => choices.push(("AppAckCommit", json!({}))),
            _ => {}
        }
        if choices.is_empty() {
            return Err(format!("no action enabled at st={} pub={} app={}", t.stpc, t.pubpc, t.apppc));
        }
        let (act, arg) = rng.pick(&choices).clone();
        let before_st = t.stpc;
        // "ReleaseProcessed": the implementation decides between acknowledging and not
        let cmd_act = if act == "ReleaseProcessed" { "AckEnter" } else { act };
        let mut cmd_arg = arg.clone();
        if act == "ForgeBegin" {
            let prune = rng.chance(1, 7);
            let body = !prune || rng.chance(2, 3);
            cmd_arg = json!({"op": {"seq": t.height("me", "t") + 1, "prune": prune, "body": body}});
        }
        let obs = host.as_mut().expect("host").exec(&json!({"act": cmd_act, "arg": cmd_arg.clone()}))?;
        t.absorb(&obs);
        let name = match act {
            "ReleaseProcessed" => match t.stpc {
                "acklocked" | "ackblocked" => "AckEnter",
                "deliver" => "SkipAck",
                other => return Err(format!("released from 'processed', landed at pc {other}")),
            },
            other => other,
        };
        match name {
            "ForgeBegin" => t.forged.1 = cmd_arg["op"]["body"].as_bool().unwrap_or(true),
            "ForgeCommit" => t.forged.0 = t.height("me", "t"),
            "Enqueue" => t.pubq.push_back(t.forged),
            "TakePublished" => {
                if let Some((_, body)) = t.pubq.pop_front() {
                    t.st_needs_ack = Some(!body || t.auto);
                }
            }
            "TakeImported" => {
                let body = arg["op"]["body"].as_bool().unwrap_or(true);
                t.st_needs_ack = Some(!body || t.auto);
            }
            "AppRecv" => {
                if obs["ev"]["k"] == "none" {
                    continue; // nothing in the channel: not a step of the specification
                }
            }
            _ => {}
        }
        if matches!(t.stpc, "idle" | "ending" | "off") {
            t.st_needs_ack = None;
        }
        for o in &t.stored {
            if o["tp"] == "t" {
                cursor_max = cursor_max.max(o["seq"].as_i64().unwrap_or(0));
            }
        }
        let mut arg = arg;
        if name == "ForgeBegin" {
            arg = cmd_arg.clone();
        }
        if name == "AppRecv" {
            arg = json!({"rcv": obs["ev"]});
        }
        w.event(event(name, arg, &obs, &t));
        out.mark_distinct(format!("{name}:{before_st}->{}", t.stpc));
        out.count(&format!("act:{name}"));
    }
    if let Some(h) = host.take() {
        h.crash();
    }
    Ok(())
}

/// One free-running history: `rounds` incarnations in child processes on one database file. Each
/// incarnation is opened from the frontier, its replay is collected, then a random workload runs
/// until the parent kills the process (SIGKILL) after a random number of completed calls.
fn free_run(
    rng: &mut Rng,
    w: &mut TraceWriter,
    out: &mut Outcome,
    db: &std::path::Path,
    remote: &Value,
    net: &str,
    rounds: usize,
) -> Result<(), String> {
    let mut acked_ok: Vec<Value> = Vec::new();
    let mut published: Vec<Value> = Vec::new();
    let mut prev_cursor = json!({});
    for round in 0..rounds {
        let p = if rng.chance(1, 2) { "auto" } else { "explicit" };
        let cmd = json!({
            "act": "Open",
            "arg": {"p": p, "from": "frontier", "c": {}},
            "cfg": {"db": db.to_string_lossy(), "remote": remote, "net": net, "control": false, "preobserve": true},
        });
        let (mut host, first) = Host::start(true, &cmd)?;
        let pre = first["pre"].clone();
        let drained = host.exec(&json!({"act": "Drain"}))?;
        if drained["others"].as_array().map(|a| !a.is_empty()).unwrap_or(false) {
            out.count("free:unexpected-events");
        }
        w.event(json!({
            "ev": "FreeRestart",
            "p": p,
            "cursor": pre["cursor"], "stored": pre["stored"], "assoc": pre["assoc"],
            "replayed": drained["replayed"],
            "markers": drained["markers"],
            "others": drained["others"],
            "acked_ok": acked_ok, "published": published, "prev_cursor": prev_cursor,
        }));
        out.count("free:restarts");
        out.mark_distinct(format!(
            "free:{p}:replayed={}:stored={}",
            drained["replayed"].as_array().map(|a| a.len()).unwrap_or(0),
            pre["stored"].as_array().map(|a| a.len()).unwrap_or(0)
        ));
        // cursor after the replay (auto policy acks while replaying): lower bound for the next round
        let after = host.exec(&json!({"act": "Observe"}))?;
        prev_cursor = after["cursor"].clone();
        acked_ok.clear();
        published.clear();
        if round + 1 == rounds {
            host.crash();
            break;
        }
        // workload; killed after `k` completed calls plus a random short delay
        let n = 40u64;
        let k = rng.range(1, n);
        host.send_only(&json!({"act": "FreeRun", "arg": {"seed": rng.next_u64() >> 12, "n": n}}))?;
        let mut seen = 0u64;
        loop {
            match host.read_only()? {
                None => break,
                Some(v) => {
                    if v.get("done").is_some() {
                        break;
                    }
                    let pr = &v["progress"];
                    match pr["p"].as_str() {
                        Some("pub") => published.push(pr["seq"].clone()),
                        Some("ack") if pr["res"] == "ok" => acked_ok.push(pr["op"].clone()),
                        _ => {}
                    }
                    seen += 1;
                    if seen >= k {
                        break;
                    }
                }
            }
        }
        std::thread::sleep(std::time::Duration::from_micros(rng.below(3000)));
        host.crash();
        out.count("free:kills");
    }
    Ok(())
}
