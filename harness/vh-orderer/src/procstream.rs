//! ProcStream (C13): the real `ProcessorStream`, `Buffer`, `ComposedProcessors`, `PipelineBuilder`
//! / `Pipeline` and `StreamLayerExt::layer` of p2panda-stream against spec/ProcStream. Only the
//! leaf processors, the input stream and the glue between stacked streams are harness-owned.
//!
//! A leaf has the shape of `Ingest` / `LogPrune`: `process` awaits something that really suspends
//! (a tokio timer) and then pushes the item to its queue, `next` pops the queue or waits on a
//! `Notify`. Everything runs on a current-thread runtime with a paused clock: time advances only
//! when every task is idle, so the arrival times and per-call processing delays alone decide the
//! schedule - no wall-clock judgement, no sleeps.
//!
//! * `replay`: a TLC behaviour fixes the order of the timer events (item arrivals, completions of
//!   `process`); the k-th timer event is given the instant k * 10 ms. The run is recorded like a
//!   `record` run (file `--trace-out`, validated by TLC in the next step), and the outcome is
//!   judged by the property itself: every input exactly once, in order.
//! * `record`: seeded random topologies, arrival times and delays.
//!
//! A lost item is classified by what the leaves saw: if its last event is "the `process` future
//! holding it was dropped" at a leaf that is not the first of its group, it was lost in the
//! hand-over inside `ComposedProcessors::next` (the known defect); anything else is a different
//! failure.
use std::cell::{Cell, RefCell};
use std::collections::{BTreeMap, BTreeSet, VecDeque};
use std::pin::Pin;
use std::rc::Rc;
use std::time::Duration;

use futures_util::{Stream, StreamExt};
use p2panda_stream::{ComposedError, PipelineBuilder, Processor, ProcessorExt, StreamLayerExt};
use tokio::sync::Notify;
use tokio::time::Instant;
use vh_common::{Args, Outcome, Rng, TraceWriter, Value, json, read_ndjson, unknown};

pub fn run(args: &Args) {
    match args.mode.as_str() {
        "replay" => replay(args),
        "record" => record(args),
        _ => unknown(args),
    }
}

type Item = u32;

/// What the harness-owned parts see, in program order.
#[derive(Clone, Debug, PartialEq, Eq)]
enum Raw {
    Arrive(Item),
    ProcStart(usize, Item),
    ProcDone(usize, Item),
    ProcAbort(usize, Item),
    /// `process` of leaf l returned Err for the item
    ProcFail(usize, Item),
    Pop(usize, Item),
    /// an output of group g-1 is handed to stream g
    Xfer(usize, Item),
    /// the stream of group g yielded the item as an Err (its final output)
    ErrOut(usize, Item),
    #[allow(dead_code)]
    Yield(Item),
}

type Log = Rc<RefCell<Vec<Raw>>>;

const NEVER_MS: u64 = 100_000_000; // a `process` call the schedule never completes
const QUIET_MS: u64 = 10_000_000_000; // nothing happened for this long (paused clock): quiescent

/// Timing of one run: absolute arrival instants, and per leaf the absolute completion instant
/// of its n-th `process` call (ms since the start).
#[derive(Clone, Debug, Default)]
struct Plan {
    arrivals: Vec<u64>,
    deadlines: Vec<Vec<u64>>,
    /// per item: the leaf whose `process` fails for it (0 = none)
    fail: Vec<usize>,
    /// per leaf: delay of its n-th `process` call (used where no absolute instant is planned)
    delays: Vec<Vec<u64>>,
    /// delay used when a leaf is called more often than planned (the run left the schedule)
    fallback_ms: u64,
}

struct Leaf {
    idx: usize,
    queue: RefCell<VecDeque<Item>>,
    notify: Notify,
    calls: Cell<usize>,
    plan: Rc<Plan>,
    start: Instant,
    log: Log,
}

struct AbortGuard<'a> {
    leaf: &'a Leaf,
    item: Item,
    armed: bool,
}

impl Drop for AbortGuard<'_> {
    fn drop(&mut self) {
        if self.armed {
            self.leaf.log.borrow_mut().push(Raw::ProcAbort(self.leaf.idx, self.item));
        }
    }
}

impl Processor<Item> for Leaf {
    type Output = Item;
    /// the rejected item (the error is that item's output)
    type Error = Item;

    async fn process(&self, input: Item) -> Result<(), Item> {
        let n = self.calls.get();
        self.calls.set(n + 1);
        self.log.borrow_mut().push(Raw::ProcStart(self.idx, input));
        let mut guard = AbortGuard {
            leaf: self,
            item: input,
            armed: true,
        };
        let now = Instant::now();
        let planned = self.plan.deadlines[self.idx - 1].get(n).copied();
        let relative = self.plan.delays.get(self.idx - 1).and_then(|d| d.get(n)).copied();
        let deadline = match (planned, relative) {
            (Some(ms), _) if self.start + Duration::from_millis(ms) > now => self.start + Duration::from_millis(ms),
            (None, Some(ms)) => now + Duration::from_millis(ms.max(1)),
            _ => now + Duration::from_millis(self.plan.fallback_ms.max(1)),
        };
        // an await that really suspends (like Ingest's database call)
        tokio::time::sleep_until(deadline).await;
        guard.armed = false;
        if self.plan.fail.get(input as usize - 1).copied().unwrap_or(0) == self.idx {
            self.log.borrow_mut().push(Raw::ProcFail(self.idx, input));
            return Err(input);
        }
        self.queue.borrow_mut().push_back(input);
        self.log.borrow_mut().push(Raw::ProcDone(self.idx, input));
        self.notify.notify_one();
        Ok(())
    }

    async fn next(&self) -> Result<Item, Item> {
        loop {
            if let Some(item) = self.queue.borrow_mut().pop_front() {
                self.log.borrow_mut().push(Raw::Pop(self.idx, item));
                return Ok(item);
            }
            self.notify.notified().await;
        }
    }
}

/// The item an error of a (composed) processor belongs to.
trait ErrId {
    fn err_id(&self) -> Item;
}
impl ErrId for Item {
    fn err_id(&self) -> Item {
        *self
    }
}
impl<A: ErrId, B: ErrId> ErrId for ComposedError<A, B> {
    fn err_id(&self) -> Item {
        match self {
            ComposedError::First(e) => e.err_id(),
            ComposedError::Second(e) => e.err_id(),
        }
    }
}

type BoxStream = Pin<Box<dyn Stream<Item = Item>>>;

/// One group = one `.layer(..)` call: a single leaf, or the leaves composed with the real
/// `PipelineBuilder` (which nests `ComposedProcessors` to the left).
fn add_group(input: BoxStream, mut leaves: Vec<Leaf>, g: usize, log: Log, via_ext: bool) -> BoxStream {
    // the stream of group g yields Result<Item, _>; the glue unwraps it and logs the transfer
    macro_rules! glue {
        ($s:expr) => {{
            let log = log.clone();
            Box::pin($s.filter_map(move |r| {
                let log = log.clone();
                async move {
                    match r {
                        Ok(item) => {
                            log.borrow_mut().push(Raw::Xfer(g + 1, item));
                            Some(item)
                        }
                        Err(e) => {
                            // an Err item is the final output of that input: delivered here
                            log.borrow_mut().push(Raw::ErrOut(g, e.err_id()));
                            None
                        }
                    }
                }
            })) as BoxStream
        }};
    }
    match leaves.len() {
        1 => {
            let l1 = leaves.remove(0);
            if via_ext {
                glue!(l1.into_stream(input))
            } else {
                glue!(input.layer(l1))
            }
        }
        2 => {
            let l1 = leaves.remove(0);
            let l2 = leaves.remove(0);
            glue!(input.layer(PipelineBuilder::new().layer(l1).layer(l2).build()))
        }
        3 => {
            let l1 = leaves.remove(0);
            let l2 = leaves.remove(0);
            let l3 = leaves.remove(0);
            glue!(input.layer(PipelineBuilder::new().layer(l1).layer(l2).layer(l3).build()))
        }
        4 => {
            let l1 = leaves.remove(0);
            let l2 = leaves.remove(0);
            let l3 = leaves.remove(0);
            let l4 = leaves.remove(0);
            glue!(input.layer(PipelineBuilder::new().layer(l1).layer(l2).layer(l3).layer(l4).build()))
        }
        n => panic!("unsupported group size {n}"),
    }
}

struct RunOut {
    raw: Vec<Raw>,
    /// outputs in delivery order: x = Ok(x) from the last stream, -x = Err for item x from any stream
    yielded: Vec<i64>,
    /// the last stream returned `None` (processor streams never terminate)
    terminated: bool,
}

/// Runs the real pipeline under a paused clock until nothing can happen any more.
fn run_pipeline(groups: &[usize], n: usize, plan: Plan, via_ext: bool) -> Result<RunOut, String> {
    let rt = tokio::runtime::Builder::new_current_thread()
        .enable_time()
        .start_paused(true)
        .build()
        .expect("runtime");
    let groups = groups.to_vec();
    vh_common::catch(move || {
        let local = tokio::task::LocalSet::new();
        rt.block_on(local.run_until(async move {
            let log: Log = Rc::new(RefCell::new(Vec::new()));
            let start = Instant::now();
            let plan = Rc::new(plan);
            // input stream: item i at its planned instant; pending for ever afterwards
            let src_log = log.clone();
            let arrivals = plan.arrivals.clone();
            let source = futures_util::stream::unfold(0usize, move |i| {
                let src_log = src_log.clone();
                let arrivals = arrivals.clone();
                async move {
                    if i >= n {
                        std::future::pending::<()>().await;
                    }
                    tokio::time::sleep_until(start + Duration::from_millis(arrivals[i])).await;
                    let item = (i + 1) as Item;
                    src_log.borrow_mut().push(Raw::Arrive(item));
                    Some((item, i + 1))
                }
            });
            let mut stream: BoxStream = Box::pin(source);
            let mut idx = 0;
            for (g0, size) in groups.iter().enumerate() {
                let leaves: Vec<Leaf> = (0..*size)
                    .map(|_| {
                        idx += 1;
                        Leaf {
                            idx,
                            queue: RefCell::new(VecDeque::new()),
                            notify: Notify::new(),
                            calls: Cell::new(0),
                            plan: plan.clone(),
                            start,
                            log: log.clone(),
                        }
                    })
                    .collect();
                stream = add_group(stream, leaves, g0 + 1, log.clone(), via_ext);
            }
            let mut terminated = false;
            // quiescence on a paused clock: the only timer left is this timeout
            loop {
                match tokio::time::timeout(Duration::from_millis(QUIET_MS), stream.next()).await {
                    Ok(Some(_)) => {} // the last glue logged Xfer(NG + 1, item): the consumer's Yield
                    Ok(None) => {
                        terminated = true;
                        break;
                    }
                    Err(_) => break,
                }
            }
            drop(stream);
            let raw = log.borrow().clone();
            let ng = groups.len();
            let yielded = raw
                .iter()
                .filter_map(|r| match r {
                    Raw::Xfer(g, x) if *g == ng + 1 => Some(*x as i64),
                    Raw::ErrOut(_, x) => Some(-(*x as i64)),
                    _ => None,
                })
                .collect();
            RunOut { raw, yielded, terminated }
        }))
    })
}

// ------------------------------------------------------------------------------------------
// Raw log -> one event per spec action

struct Topo {
    first: Vec<usize>, // per group (1-based index g-1)
    last: Vec<usize>,
    group_of: Vec<usize>, // per leaf (index l-1) -> g
}

fn topo(groups: &[usize]) -> Topo {
    let mut first = vec![];
    let mut last = vec![];
    let mut group_of = vec![];
    let mut l = 0;
    for (g0, size) in groups.iter().enumerate() {
        first.push(l + 1);
        for _ in 0..*size {
            l += 1;
            group_of.push(g0 + 1);
        }
        last.push(l);
    }
    Topo { first, last, group_of }
}

/// Pop(j, x) [ProcAbort] ProcStart(j+1, x)  -> Take;   Pop(last, x) [ProcAbort] -> Output;
/// [ProcAbort] ProcStart(first, x) -> Input;  ProcDone(first) -> BufDone;  ProcDone(other) -> HandDone.
fn coalesce(raw: &[Raw], groups: &[usize]) -> Result<Vec<Value>, String> {
    let t = topo(groups);
    let ng = groups.len();
    let mut out = Vec::new();
    let mut i = 0;
    // aborts seen and not yet attached (they precede the ProcStart of an Input)
    let mut pending_abort: Option<(usize, Item)> = None;
    while i < raw.len() {
        match &raw[i] {
            Raw::Arrive(x) => out.push(json!({"ev": "Arrive", "x": x})),
            Raw::Xfer(g, x) => {
                if *g == ng + 1 {
                    out.push(json!({"ev": "Yield", "x": x}));
                } else {
                    out.push(json!({"ev": "Xfer", "g": g, "x": x}));
                }
            }
            Raw::Yield(x) => out.push(json!({"ev": "Yield", "x": x})),
            Raw::ErrOut(g, x) => {
                if *g == ng {
                    out.push(json!({"ev": "Yield", "x": -(*x as i64)}));
                } else {
                    out.push(json!({"ev": "Xfer", "g": g + 1, "x": -(*x as i64)}));
                }
            }
            Raw::ProcFail(l, x) => {
                let g = t.group_of[*l - 1];
                if *l == t.first[g - 1] {
                    out.push(json!({"ev": "BufFail", "g": g, "x": x}));
                } else {
                    out.push(json!({"ev": "HandFail", "g": g, "l": l, "x": x}));
                }
            }
            Raw::ProcAbort(l, x) => {
                if pending_abort.is_some() {
                    return Err(format!("two dropped `process` futures in a row at raw event {i}"));
                }
                pending_abort = Some((*l, *x));
            }
            Raw::ProcStart(l, x) => {
                let g = t.group_of[*l - 1];
                if *l != t.first[g - 1] {
                    return Err(format!("process({x}) of leaf {l} started without a pop of leaf {} before it", l - 1));
                }
                let ab = match pending_abort.take() {
                    Some((al, ax)) if t.group_of[al - 1] == g => ax,
                    Some((al, _)) => return Err(format!("leaf {al}'s process future dropped by another group's input")),
                    None => 0,
                };
                out.push(json!({"ev": "Input", "g": g, "x": x, "ab": ab}));
            }
            Raw::ProcDone(l, x) => {
                let g = t.group_of[*l - 1];
                if *l == t.first[g - 1] {
                    out.push(json!({"ev": "BufDone", "g": g, "x": x}));
                } else {
                    out.push(json!({"ev": "HandDone", "g": g, "l": l, "x": x}));
                }
            }
            Raw::Pop(l, x) => {
                let g = t.group_of[*l - 1];
                let mut ab = 0;
                if let Some(Raw::ProcAbort(al, ax)) = raw.get(i + 1) {
                    if t.group_of[*al - 1] != g {
                        return Err(format!("leaf {al}'s process future dropped by a pop in another group"));
                    }
                    ab = *ax;
                    i += 1;
                }
                if *l == t.last[g - 1] {
                    out.push(json!({"ev": "Output", "g": g, "x": x, "ab": ab}));
                } else {
                    match raw.get(i + 1) {
                        Some(Raw::ProcStart(l2, x2)) if *l2 == *l + 1 && x2 == x => {
                            i += 1;
                            out.push(json!({"ev": "Take", "g": g, "j": l, "x": x, "ab": ab}));
                        }
                        other => {
                            return Err(format!(
                                "item {x} popped from leaf {l} was not handed to leaf {} (next raw event {other:?})",
                                l + 1
                            ));
                        }
                    }
                }
            }
        }
        if pending_abort.is_some() && !matches!(raw[i], Raw::ProcAbort(..)) {
            return Err(format!("a dropped `process` future is not followed by the step that dropped it ({:?})", raw[i]));
        }
        i += 1;
    }
    if let Some((l, x)) = pending_abort {
        // dropped at the very end (the stream itself was dropped): not an event of the run
        let _ = (l, x);
    }
    Ok(out)
}

// ------------------------------------------------------------------------------------------
// Property oracle on the implementation's own output

struct Verdict {
    findings: Vec<(String, String)>, // (signature, detail)
    lost: BTreeSet<Item>,
}

fn judge(r: &RunOut, groups: &[usize], n: usize, fail: &[usize]) -> Verdict {
    let raw = &r.raw[..];
    let yielded = &r.yielded[..];
    let t = topo(groups);
    let mut findings = Vec::new();
    let arrived: BTreeSet<Item> = raw.iter().filter_map(|r| if let Raw::Arrive(x) = r { Some(*x) } else { None }).collect();
    if arrived.len() != n {
        findings.push(("input-not-consumed".to_string(), format!("only {arrived:?} of {n} inputs were taken from the input stream")));
    }
    // processor streams never terminate
    if r.terminated {
        findings.push((
            "stream-terminated".to_string(),
            format!("the stream returned None after the outputs {yielded:?} (x = Ok(x), -x = Err for item x)"),
        ));
    }
    // exactly once: one output per input, Ok or Err
    let mut seen = BTreeSet::new();
    for y in yielded {
        let x = y.unsigned_abs() as Item;
        if !seen.insert(x) {
            findings.push(("output-yielded-twice".into(), format!("item {x} came out more than once: {yielded:?}")));
        }
        if !arrived.contains(&x) {
            findings.push(("output-never-input".into(), format!("item {x} was yielded but never arrived")));
        }
        // an item comes out as Err exactly if one of its `process` calls was made to fail
        let marked = fail.get(x as usize - 1).copied().unwrap_or(0) != 0;
        if marked != (*y < 0) {
            findings.push((
                "ok-err-mismatch".into(),
                format!("item {x}: process fails = {marked}, but it came out as {}", if *y < 0 { "Err" } else { "Ok" }),
            ));
        }
    }
    // order of the Ok outputs (an Err is sent past the processor's queues and may overtake)
    let oks: Vec<i64> = yielded.iter().filter(|y| **y > 0).cloned().collect();
    if oks.windows(2).any(|w| w[0] >= w[1]) {
        findings.push(("outputs-out-of-order".into(), format!("FIFO leaves, outputs {yielded:?}")));
    }
    // losses, classified by the last thing the leaves saw of the item
    let lost: BTreeSet<Item> = arrived.difference(&seen).cloned().collect();
    for x in &lost {
        let last = raw.iter().rev().find(|r| match r {
            Raw::Arrive(y) | Raw::Yield(y) => y == x,
            Raw::ProcStart(_, y)
            | Raw::ProcDone(_, y)
            | Raw::ProcAbort(_, y)
            | Raw::ProcFail(_, y)
            | Raw::Pop(_, y)
            | Raw::Xfer(_, y)
            | Raw::ErrOut(_, y) => y == x,
        });
        match last {
            Some(Raw::ProcAbort(l, _)) if *l != t.first[t.group_of[*l - 1] - 1] => {
                findings.push((
                    "composed-next-dropped-during-handoff-loses-intermediate".into(),
                    format!(
                        "item {x}: ComposedProcessors::next was dropped while awaiting `second.process({x})` of leaf {l} \
                         (group {}); outputs {yielded:?}",
                        t.group_of[*l - 1]
                    ),
                ));
            }
            other => {
                findings.push((
                    "item-lost".into(),
                    format!("item {x} never came out (last seen: {other:?}); outputs {yielded:?}"),
                ));
            }
        }
    }
    Verdict { findings, lost }
}

/// One violation (with its replayable case) per failure class and step; every occurrence is counted.
fn report_once(out: &mut Outcome, reported: &mut BTreeSet<String>, sig: &str, detail: &str, case: &Value) {
    out.count(&format!("finding:{sig}"));
    if reported.insert(sig.to_string()) {
        out.violation("C13", sig, detail.to_string(), case.clone());
    }
}

fn emit_run(tw: &mut TraceWriter, groups: &[usize], n: usize, fail: &[usize], events: Vec<Value>) {
    let leaves: usize = groups.iter().sum();
    tw.event(json!({"ev": "Reset", "groups": groups, "n": n, "leaves": leaves, "fail": fail}));
    for e in events {
        tw.event(e);
    }
}

// ------------------------------------------------------------------------------------------
// Replay (spec -> impl): the behaviour's order of timer events becomes the timing of the run

fn plan_from_behaviour(b: &Value, groups: &[usize], n: usize) -> Plan {
    let t = topo(groups);
    let leaves: usize = groups.iter().sum();
    let mut plan = Plan {
        arrivals: vec![0; n],
        deadlines: vec![Vec::new(); leaves],
        fail: b["fail"].as_array().map(|a| a.iter().map(|v| v.as_u64().unwrap() as usize).collect()).unwrap_or_else(|| vec![0; n]),
        delays: Vec::new(),
        fallback_ms: 7,
    };
    let mut clock: u64 = 0;
    // open `process` calls: leaf -> index into deadlines[leaf]
    let mut open: BTreeMap<usize, usize> = BTreeMap::new();
    for s in b["steps"].as_array().expect("steps") {
        let a = s["a"].as_str().unwrap();
        let timer = matches!(a, "Arrive" | "BufDone" | "HandDone" | "BufFail" | "HandFail");
        if timer {
            clock += 10;
        }
        match a {
            "Arrive" => plan.arrivals[s["x"].as_u64().unwrap() as usize - 1] = clock,
            "Input" => {
                let g = s["g"].as_u64().unwrap() as usize;
                let l = t.first[g - 1];
                plan.deadlines[l - 1].push(NEVER_MS);
                open.insert(l, plan.deadlines[l - 1].len() - 1);
            }
            "Take" => {
                let l = s["j"].as_u64().unwrap() as usize + 1;
                plan.deadlines[l - 1].push(NEVER_MS);
                open.insert(l, plan.deadlines[l - 1].len() - 1);
            }
            "BufDone" | "BufFail" => {
                let g = s["g"].as_u64().unwrap() as usize;
                let l = t.first[g - 1];
                if let Some(k) = open.remove(&l) {
                    plan.deadlines[l - 1][k] = clock;
                }
            }
            "HandDone" | "HandFail" => {
                let l = s["l"].as_u64().unwrap() as usize;
                if let Some(k) = open.remove(&l) {
                    plan.deadlines[l - 1][k] = clock;
                }
            }
            _ => {}
        }
    }
    plan
}

/// The spec's steps in the vocabulary of the recorded events (YieldDone is not observable).
fn spec_events(b: &Value) -> Vec<Value> {
    b["steps"]
        .as_array()
        .unwrap()
        .iter()
        .map(|s| {
            let mut o = s.as_object().unwrap().clone();
            let a = o.remove("a").unwrap();
            o.insert("ev".into(), a);
            Value::Object(o)
        })
        .collect()
}

fn replay(args: &Args) {
    let behaviours = read_ndjson(args.input.as_ref().expect("--in"));
    let mut out = Outcome::new(
        args,
        "every TLC behaviour turned into arrival instants / per-call delays (k-th timer event at k*10 ms) and run on the \
         real ProcessorStream+Buffer+ComposedProcessors under a paused clock; judged by the property (every input exactly \
         once, in order) and recorded for TLC trace validation; non-trivial = at least 2 inputs; distinct by topology + \
         timing plan",
    );
    let mut tw = args.extra.get("trace-out").map(|p| TraceWriter::create(&std::path::PathBuf::from(p)));
    let mut reported = BTreeSet::new();
    for b in &behaviours {
        out.eval();
        let groups: Vec<usize> = b["groups"].as_array().unwrap().iter().map(|g| g.as_u64().unwrap() as usize).collect();
        let n = b["n"].as_u64().unwrap() as usize;
        let plan = plan_from_behaviour(b, &groups, n);
        let fail = plan.fail.clone();
        if n >= 2 {
            out.mark_distinct(format!("{groups:?}|{:?}|{:?}|{fail:?}", plan.arrivals, plan.deadlines));
        }
        if fail.iter().any(|l| *l != 0) {
            out.count("runs-with-a-failing-process");
        }
        let r = match run_pipeline(&groups, n, plan, false) {
            Ok(r) => r,
            Err(p) => {
                out.violation("C13", "processor-stream-panics", p, b.clone());
                continue;
            }
        };
        let v = judge(&r, &groups, n, &fail);
        for (sig, detail) in &v.findings {
            report_once(&mut out, &mut reported, sig, detail, b);
        }
        match coalesce(&r.raw, &groups) {
            Ok(events) => {
                // statistics: did the real run take exactly the spec's steps?
                let exact = events == spec_events(b);
                out.count(if exact { "reproduced-step-for-step" } else { "left-the-behaviour" });
                if b["ties"].as_u64() == Some(0) {
                    out.count(if exact { "tie-free-reproduced" } else { "tie-free-left" });
                }
                let spec_lost: BTreeSet<Item> =
                    b["lost"].as_array().map(|a| a.iter().map(|x| x.as_u64().unwrap() as Item).collect()).unwrap_or_default();
                if exact && spec_lost != v.lost {
                    out.violation(
                        "C13",
                        "same-steps-different-outcome",
                        format!("same steps as the spec but lost {:?}, spec lost {:?}", v.lost, spec_lost),
                        b.clone(),
                    );
                }
                if !v.lost.is_empty() {
                    out.count("runs-with-loss");
                }
                if let Some(tw) = tw.as_mut() {
                    emit_run(tw, &groups, n, &fail, events);
                }
                if v.findings.is_empty() {
                    out.sample(b.clone());
                }
            }
            Err(e) => out.violation("C13", "event-log-not-a-step-sequence", e, b.clone()),
        }
    }
    if let Some(tw) = tw {
        let (events, runs) = tw.finish();
        out.set_trace(events, runs);
    }
    out.write(args);
}

// ------------------------------------------------------------------------------------------
// Record (impl -> spec): random topologies and timings

fn record(args: &Args) {
    let mut out = Outcome::new(
        args,
        "seeded random topologies (1-3 groups of 1-4 leaves), 1-8 inputs, random arrival times and per-call delays on a \
         paused clock; non-trivial = run in which some input arrived while an earlier item was still inside the pipeline; \
         distinct by run",
    );
    let mut tw = TraceWriter::create(args.out.as_ref().expect("--out"));
    // the schedule-directed runs recorded by the replay steps are validated in the same TLC run
    // (one JVM start instead of three)
    if let Some(list) = args.extra.get("include") {
        for f in list.split(',').filter(|f| !f.is_empty()) {
            let path = std::path::PathBuf::from(f);
            if path.exists() {
                for e in read_ndjson(&path) {
                    tw.event(e);
                }
                out.count("included-trace-files");
            } else {
                eprintln!("include: {f} does not exist");
                std::process::exit(2);
            }
        }
    }
    let mut rng = Rng::new(args.seed ^ 0xc13);
    let runs = if args.n == 0 { 50 } else { args.n };
    let mut reported = BTreeSet::new();
    let shapes: Vec<Vec<usize>> = vec![
        vec![1], vec![2], vec![3], vec![1, 1], vec![2, 1], vec![1, 2], vec![1, 1, 1], vec![2, 2], vec![4], vec![3, 1],
        vec![1, 3], vec![2, 1, 2],
    ];
    for run in 0..runs {
        out.eval();
        let groups = rng.pick(&shapes).clone();
        let leaves: usize = groups.iter().sum();
        let n = rng.range(1, if args.thorough() { 8 } else { 6 }) as usize;
        // arrivals: bursts and gaps; delays: short and long, all odd/even-separated to avoid equal instants
        let mut t = 0u64;
        let mut arrivals = Vec::new();
        for _ in 0..n {
            t += match rng.below(3) {
                0 => 2 * rng.range(1, 3),
                1 => 2 * rng.range(4, 15),
                _ => 2 * rng.range(20, 60),
            };
            arrivals.push(t);
        }
        // every leaf is consistently fast or slow within a run, with some jitter per call
        let mut delays = Vec::new();
        for _ in 0..leaves {
            let base = match rng.below(3) {
                0 => 1,
                1 => rng.range(3, 12),
                _ => rng.range(20, 80),
            };
            delays.push((0..(n + 2)).map(|_| 2 * (base + rng.below(base.min(6) + 1)) + 1).collect::<Vec<u64>>());
        }
        // some inputs are rejected by one of the leaves (the error is that input's output)
        let fail: Vec<usize> = (0..n).map(|_| if rng.chance(1, 5) { rng.range(1, leaves as u64) as usize } else { 0 }).collect();
        if fail.iter().any(|l| *l != 0) {
            out.count("runs-with-a-failing-process");
        }
        let plan = Plan {
            arrivals,
            deadlines: vec![Vec::new(); leaves],
            fail: fail.clone(),
            delays,
            fallback_ms: 5,
        };
        let r = match run_pipeline(&groups, n, plan.clone(), rng.chance(1, 2)) {
            Ok(r) => r,
            Err(p) => {
                out.violation("C13", "processor-stream-panics", p, json!({"groups": groups, "n": n, "run": run}));
                continue;
            }
        };
        let case = json!({"groups": groups, "n": n, "arrivals": plan.arrivals, "delays": plan.delays, "fail": fail, "yielded": r.yielded});
        let v = judge(&r, &groups, n, &fail);
        for (sig, detail) in &v.findings {
            report_once(&mut out, &mut reported, sig, detail, &case);
        }
        if !v.lost.is_empty() {
            out.count("runs-with-loss");
        }
        // overlap: an Arrive while an earlier item has not been yielded / lost yet
        let mut inside = 0i64;
        let mut overlapped = false;
        for e in &r.raw {
            match e {
                Raw::Arrive(_) => {
                    if inside > 0 {
                        overlapped = true;
                    }
                    inside += 1;
                }
                Raw::Xfer(g, _) if *g == groups.len() + 1 => inside -= 1,
                Raw::ErrOut(..) => inside -= 1,
                _ => {}
            }
        }
        if overlapped {
            out.mark_distinct(format!("run{run}"));
        }
        match coalesce(&r.raw, &groups) {
            Ok(events) => {
                emit_run(&mut tw, &groups, n, &fail, events);
                if v.findings.is_empty() {
                    out.sample(case);
                }
            }
            Err(e) => out.violation("C13", "event-log-not-a-step-sequence", e, case),
        }
    }
    let (events, runs) = tw.finish();
    out.set_trace(events, runs);
    out.write(args);
}
