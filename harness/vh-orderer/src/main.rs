//! Conformance harness binary `vh-orderer`: one module per TLA+ specification (see /verif/spec).
mod orderer;
mod procstream;

fn main() {
    let args = vh_common::Args::parse();
    if std::env::var_os("VH_LOUD").is_none() {
        vh_common::quiet_panics();
    }
    match args.module.as_str() {
        "orderer" => orderer::run(&args),
        "procstream" => procstream::run(&args),
        _ => vh_common::unknown(&args),
    }
}
