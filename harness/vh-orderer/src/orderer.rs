//! Orderer (C11, C12): the real `p2panda_stream::orderer::Orderer` over the real `SqliteStore`
//! against spec/Orderer.
//!
//! * `replay`: behaviours exported by TLC (dependency graph, delivery schedule, the await point at
//!   which every `next` future is parked / dropped) are executed on the real processor. The
//!   `next` futures are polled by hand; a store wrapper (`GStore`, the only harness-owned
//!   collaborator: it delegates every call to `SqliteStore`) parks the future immediately before
//!   and after each store call, so "drop the future at await point k" is exact and repeatable.
//! * `record`: seeded random DAGs, redeliveries and cancellations. Here the gates are off: the
//!   futures are dropped after a random number of *real* suspensions (sqlx round trips).
//!   One NDJSON event per spec action; validated by `Trace_Orderer.tla`.
//!
//! Property-level oracles evaluated on the implementation's own output (independent of TLC's
//! prediction): dependencies-first on the released sequence, ready set = closure of the delivered
//! items (dependency lists read as sets), everything releasable released at quiescence (C11);
//! nothing that left the queue is missing from the output at quiescence (C12).
use std::cell::{Cell, RefCell};
use std::collections::{BTreeMap, BTreeSet, HashSet};
use std::fmt;
use std::future::{Future, poll_fn};
use std::pin::Pin;
use std::rc::Rc;
use std::str::FromStr;
use std::task::Poll;

use p2panda_core::traits::{Digest, OperationId};
use p2panda_core::{Body, Hash, Header, LogId, Operation, SigningKey, Topic};
use p2panda_store::operations::OperationStore;
use p2panda_store::orderer::{OrdererStore, OrdererTestExt};
use p2panda_store::sqlite::TransactionPermit;
use p2panda_store::{SqliteError, SqliteStore, Transaction};
use p2panda_stream::Processor;
use p2panda_stream::orderer::{Orderer, Ordering};
use serde::{Deserialize, Serialize};
use vh_common::{Args, Outcome, Rng, TraceWriter, Value, json, read_ndjson, unknown};

pub fn run(args: &Args) {
    match args.mode.as_str() {
        "replay" => replay(args),
        "record" => record(args),
        "probe" => probe(args),
        _ => unknown(args),
    }
}

// ------------------------------------------------------------------------------------------
// Item type: a real `Operation` whose header extension carries the dependency list; a local id
// newtype (the orphan rule forbids `impl Ordering<Hash> for Operation<_>` outside p2panda-stream).

#[derive(Clone, Copy, Debug, PartialEq, Eq, Hash, PartialOrd, Ord, Serialize, Deserialize)]
#[serde(transparent)]
pub struct Hid(pub Hash);

impl OperationId for Hid {}

impl fmt::Display for Hid {
    fn fmt(&self, f: &mut fmt::Formatter<'_>) -> fmt::Result {
        write!(f, "{}", self.0.to_hex())
    }
}

impl FromStr for Hid {
    type Err = p2panda_core::HashError;
    fn from_str(s: &str) -> Result<Self, Self::Err> {
        Hash::from_str(s).map(Hid)
    }
}

#[derive(Clone, Debug, Default, Serialize, Deserialize)]
pub struct Ext {
    deps: Vec<Hid>,
    name: String,
}

pub type Op = Operation<Ext>;

impl Ordering<Hid> for Op {
    fn dependencies(&self) -> &[Hid] {
        &self.header.extensions.deps
    }
}

impl Digest<Hid> for Op {
    fn hash(&self) -> Hid {
        Hid(self.hash)
    }
}

fn make_op(name: &str, deps: Vec<Hid>, rng: &mut Rng) -> Op {
    let mut seed = [0u8; 32];
    seed.copy_from_slice(&rng.bytes(32));
    let signing_key = SigningKey::from_bytes(&seed);
    let body: Body = name.as_bytes().to_vec().into();
    let mut header = Header {
        verifying_key: signing_key.verifying_key(),
        payload_size: body.size(),
        payload_hash: Some(body.hash()),
        extensions: Ext {
            deps,
            name: name.to_string(),
        },
        ..Default::default()
    };
    header.sign(&signing_key);
    Operation {
        hash: header.hash(),
        header,
        body: Some(body),
    }
}

// ------------------------------------------------------------------------------------------
// Store wrapper: delegates everything to SqliteStore; optionally parks the calling future before
// and after the store calls `Orderer::next` makes.

#[derive(Default)]
pub struct Ctl {
    /// gates active (replay of `next`); off while `process` runs and in record mode
    gating: Cell<bool>,
    /// after-gates pass through (only the last call before the return needs one)
    skip_after: Cell<bool>,
    /// gate at which a future is parked right now
    at: RefCell<Option<String>>,
    /// one-shot release of the parked gate
    go: Cell<bool>,
    /// real store calls in flight (a Pending poll with in_call > 0 is real I/O)
    in_call: Cell<u32>,
    /// store calls made by `next` futures, in order (evidence + drift detection)
    calls: RefCell<Vec<&'static str>>,
    /// the gated store call entered last
    last_call: Cell<&'static str>,
}

struct InCall<'a>(&'a Ctl);
impl<'a> InCall<'a> {
    fn new(ctl: &'a Ctl) -> Self {
        ctl.in_call.set(ctl.in_call.get() + 1);
        InCall(ctl)
    }
}
impl Drop for InCall<'_> {
    fn drop(&mut self) {
        self.0.in_call.set(self.0.in_call.get() - 1);
    }
}

#[derive(Clone)]
pub struct GStore {
    inner: SqliteStore,
    ctl: Rc<Ctl>,
}

impl GStore {
    async fn gate(&self, name: &'static str, after: bool) {
        if !self.ctl.gating.get() || (after && self.ctl.skip_after.get()) {
            return;
        }
        let label = if after { format!("{name}.after") } else { name.to_string() };
        *self.ctl.at.borrow_mut() = Some(label);
        self.ctl.go.set(false);
        let ctl = self.ctl.clone();
        poll_fn(move |_cx| {
            if ctl.go.get() {
                ctl.go.set(false);
                *ctl.at.borrow_mut() = None;
                Poll::Ready(())
            } else {
                Poll::Pending
            }
        })
        .await
    }

    async fn gated<R>(&self, name: &'static str, call: impl Future<Output = R>) -> R {
        self.gate(name, false).await;
        if self.ctl.gating.get() {
            self.ctl.calls.borrow_mut().push(name);
        }
        self.ctl.last_call.set(name);
        let result = {
            let _guard = InCall::new(&self.ctl);
            call.await
        };
        self.gate(name, true).await;
        result
    }

    async fn plain<R>(&self, call: impl Future<Output = R>) -> R {
        let _guard = InCall::new(&self.ctl);
        call.await
    }
}

impl Transaction for GStore {
    type Error = SqliteError;
    type Permit = TransactionPermit;

    async fn begin(&self) -> Result<TransactionPermit, SqliteError> {
        self.gated("begin", self.inner.begin()).await
    }

    async fn rollback(&self, permit: TransactionPermit) -> Result<(), SqliteError> {
        self.plain(self.inner.rollback(permit)).await
    }

    async fn commit(&self, permit: TransactionPermit) -> Result<(), SqliteError> {
        self.gated("commit", self.inner.commit(permit)).await
    }
}

impl OrdererStore<Hid> for GStore {
    type Error = SqliteError;

    async fn mark_ready(&self, id: Hid) -> Result<bool, SqliteError> {
        self.plain(self.inner.mark_ready(id)).await
    }

    async fn mark_pending(&self, id: Hid, dependencies: Vec<Hid>) -> Result<bool, SqliteError> {
        self.plain(self.inner.mark_pending(id, dependencies)).await
    }

    async fn get_next_pending(&self, id: Hid) -> Result<Option<HashSet<(Hid, Vec<Hid>)>>, SqliteError> {
        self.plain(self.inner.get_next_pending(id)).await
    }

    async fn take_next_ready(&self) -> Result<Option<Hid>, SqliteError> {
        self.gated("take", OrdererStore::<Hid>::take_next_ready(&self.inner)).await
    }

    async fn remove_pending(&self, id: Hid) -> Result<bool, SqliteError> {
        self.plain(self.inner.remove_pending(id)).await
    }

    async fn ready(&self, keys: &[Hid]) -> Result<bool, SqliteError> {
        self.plain(self.inner.ready(keys)).await
    }
}

impl OperationStore<Op, Hid> for GStore {
    type Error = SqliteError;

    async fn insert_operation<L: LogId>(&self, id: &Hid, operation: &Op, log_id: &L) -> Result<bool, SqliteError> {
        self.plain(self.inner.insert_operation(&id.0, operation, log_id)).await
    }

    async fn get_operation(&self, id: &Hid) -> Result<Option<Op>, SqliteError> {
        self.gated("get", self.inner.get_operation(&id.0)).await
    }

    async fn get_operation_tx(&self, id: &Hid) -> Result<Option<Op>, SqliteError> {
        self.gated("get", self.inner.get_operation_tx(&id.0)).await
    }

    async fn has_operation(&self, id: &Hid) -> Result<bool, SqliteError> {
        self.plain(OperationStore::<Op, Hash>::has_operation(&self.inner, &id.0)).await
    }

    async fn has_operation_tx(&self, id: &Hid) -> Result<bool, SqliteError> {
        self.plain(OperationStore::<Op, Hash>::has_operation_tx(&self.inner, &id.0)).await
    }

    async fn delete_operation(&self, id: &Hid) -> Result<bool, SqliteError> {
        self.plain(OperationStore::<Op, Hash>::delete_operation(&self.inner, &id.0)).await
    }

    async fn delete_operation_payload(&self, id: &Hid) -> Result<bool, SqliteError> {
        self.plain(OperationStore::<Op, Hash>::delete_operation_payload(&self.inner, &id.0)).await
    }
}

// ------------------------------------------------------------------------------------------
// One world: a dependency graph concretised as real operations in a fresh in-memory database.

type Ord3 = Orderer<Op, Hid, GStore>;

struct World {
    store: GStore,
    ctl: Rc<Ctl>,
    /// spec name -> operation (deliverable items)
    ops: BTreeMap<String, Op>,
    /// hash -> spec name (items and missing ids)
    names: BTreeMap<Hid, String>,
    /// spec name -> dependency names as a set
    depsets: BTreeMap<String, BTreeSet<String>>,
    delivered: BTreeSet<String>,
}

impl World {
    /// `graph`: name -> dependency list (names; entries may repeat; unknown names are "missing"
    /// ids). Names must be given so that dependencies on other *items* can be resolved in some
    /// order (a DAG); cyclic references are not constructible with hash ids.
    async fn new(inner: &SqliteStore, graph: &BTreeMap<String, Vec<String>>, rng: &mut Rng) -> World {
        // One in-memory database serves many runs (creating one costs ~100 ms of migrations):
        // the three tables the orderer touches are emptied between runs.
        let inner = inner.clone();
        for table in ["orderer_ready_v1", "orderer_pending_v1", "operations_v1"] {
            sqlx::query(&format!("DELETE FROM {table}"))
                .execute(inner.pool())
                .await
                .expect("reset table");
        }
        let ctl = Rc::new(Ctl::default());
        ctl.skip_after.set(true);
        let store = GStore {
            inner,
            ctl: ctl.clone(),
        };
        let mut ids: BTreeMap<String, Hid> = BTreeMap::new();
        let mut ops: BTreeMap<String, Op> = BTreeMap::new();
        let mut names = BTreeMap::new();
        let mut depsets = BTreeMap::new();
        // missing ids: hashes of operations that are never stored nor delivered
        for deps in graph.values() {
            for d in deps {
                if !graph.contains_key(d) && !ids.contains_key(d) {
                    let ghost = make_op(d, vec![], rng);
                    ids.insert(d.clone(), Hid(ghost.hash));
                    names.insert(Hid(ghost.hash), d.clone());
                }
            }
        }
        // items in dependency order
        let mut remaining: Vec<&String> = graph.keys().collect();
        while !remaining.is_empty() {
            let before = remaining.len();
            remaining.retain(|name| {
                let deps = &graph[*name];
                if deps.iter().all(|d| ids.contains_key(d)) {
                    let mut dep_ids: Vec<Hid> = deps.iter().map(|d| ids[d]).collect();
                    // the order of the list as handed to the orderer is arbitrary
                    rng.shuffle(&mut dep_ids);
                    let op = make_op(name, dep_ids, rng);
                    ids.insert((*name).clone(), Hid(op.hash));
                    names.insert(Hid(op.hash), (*name).clone());
                    ops.insert((*name).clone(), op);
                    depsets.insert((*name).clone(), deps.iter().cloned().collect::<BTreeSet<_>>());
                    false
                } else {
                    true
                }
            });
            assert!(remaining.len() < before, "dependency graph is not a DAG");
        }
        // the operations are in the operation store before they reach the orderer (ingest ran)
        let permit = store.inner.begin().await.expect("begin");
        let log_id = Topic::random();
        for op in ops.values() {
            store.inner.insert_operation(&op.hash, op, &log_id).await.expect("insert operation");
        }
        store.inner.commit(permit).await.expect("commit");
        World {
            store,
            ctl,
            ops,
            names,
            depsets,
            delivered: BTreeSet::new(),
        }
    }

    fn orderer(&self) -> Ord3 {
        Orderer::new(self.store.clone())
    }

    fn name_of(&self, op: &Op) -> String {
        self.names.get(&Hid(op.hash)).cloned().unwrap_or_else(|| "?".into())
    }

    /// least set closed under "delivered and every dependency (as a set) in the set"
    fn closure(&self) -> BTreeSet<String> {
        let mut acc: BTreeSet<String> = BTreeSet::new();
        loop {
            let new: Vec<String> = self
                .delivered
                .iter()
                .filter(|x| !acc.contains(*x) && self.depsets[*x].iter().all(|d| acc.contains(d)))
                .cloned()
                .collect();
            if new.is_empty() {
                return acc;
            }
            acc.extend(new);
        }
    }

    /// Committed state through the store's public API (own transaction, rolled back).
    async fn observe(&self) -> Obs {
        let s = &self.store.inner;
        let permit = s.begin().await.expect("begin (observe)");
        let mut ready = BTreeSet::new();
        for (id, name) in &self.names {
            if s.ready(&[*id]).await.expect("ready") {
                ready.insert(name.clone());
            }
        }
        let inq = s.ready_queue_len().await;
        let nready = s.ready_len().await;
        let pend = s.pending_len().await;
        s.rollback(permit).await.expect("rollback (observe)");
        Obs {
            ready,
            nready,
            inq,
            pend,
        }
    }

    async fn process(&mut self, orderer: &Ord3, name: &str) -> Result<(), String> {
        let was = self.ctl.gating.replace(false);
        let op = self.ops[name].clone();
        let r = tokio::task::unconstrained(orderer.process(op)).await;
        self.ctl.gating.set(was);
        match r {
            Ok(()) => {
                self.delivered.insert(name.to_string());
                Ok(())
            }
            Err((_, e)) => Err(e.to_string()),
        }
    }
}

#[derive(Clone, Debug, PartialEq, Eq)]
struct Obs {
    ready: BTreeSet<String>,
    nready: usize,
    inq: usize,
    pend: usize,
}

// ------------------------------------------------------------------------------------------
// Hand-polled `next` future

type NextResult = Result<Op, String>;
type NextFut<'a> = Pin<Box<dyn Future<Output = NextResult> + 'a>>;

fn start_next<'a>(orderer: &'a Ord3) -> NextFut<'a> {
    Box::pin(tokio::task::unconstrained(async move {
        orderer.next().await.map_err(|(_, e)| e.to_string())
    }))
}

#[derive(Debug, Clone, PartialEq, Eq)]
enum Parked {
    /// parked at a gate of the store wrapper
    Gate(String),
    /// pending on an await that is not a store call (the Notify)
    Notified,
    Done(NextResult),
}

/// Polls the future until it parks at a gate, parks on a non-store await, or completes. Real
/// I/O suspensions (sqlx worker round trips) are waited for with the task's real waker.
async fn advance(fut: &mut NextFut<'_>, ctl: &Ctl) -> Parked {
    let mut confirm = 0;
    loop {
        let r = poll_fn(|cx| match fut.as_mut().poll(cx) {
            Poll::Ready(v) => Poll::Ready(Parked::Done(v)),
            Poll::Pending => {
                if let Some(g) = ctl.at.borrow().clone() {
                    Poll::Ready(Parked::Gate(g))
                } else if ctl.in_call.get() == 0 {
                    Poll::Ready(Parked::Notified)
                } else {
                    Poll::Pending
                }
            }
        })
        .await;
        if r == Parked::Notified && confirm < 2 {
            // let spawned tasks (rollback of a dropped permit) run, then make sure it stays parked
            confirm += 1;
            tokio::task::yield_now().await;
            continue;
        }
        return r;
    }
}

/// One real suspension: polls the future once; if it is pending on real I/O (or on the
/// semaphore a spawned rollback still holds) waits until its waker fires and returns `None`
/// WITHOUT polling again, so the caller can drop the future exactly there. Used by the
/// recorder (gates off).
async fn poll_once(fut: &mut NextFut<'_>, ctl: &Ctl) -> Option<Parked> {
    let mut polled = false;
    poll_fn(|cx| {
        if polled {
            return Poll::Ready(None);
        }
        polled = true;
        match fut.as_mut().poll(cx) {
            Poll::Ready(v) => Poll::Ready(Some(Parked::Done(v))),
            Poll::Pending => {
                if ctl.in_call.get() == 0 {
                    Poll::Ready(Some(Parked::Notified))
                } else {
                    Poll::Pending
                }
            }
        }
    })
    .await
}

fn drop_next(fut: &mut Option<NextFut<'_>>, ctl: &Ctl) {
    *fut = None;
    *ctl.at.borrow_mut() = None;
    ctl.go.set(false);
}

fn runtime() -> tokio::runtime::Runtime {
    tokio::runtime::Builder::new_current_thread()
        .enable_all()
        .build()
        .expect("runtime")
}

// ------------------------------------------------------------------------------------------
// Replay (spec -> impl)

fn graph_from(b: &Value) -> BTreeMap<String, Vec<String>> {
    let mut g = BTreeMap::new();
    if let Some(obj) = b["deps"].as_object() {
        for (k, v) in obj {
            let deps = v
                .as_array()
                .map(|a| a.iter().map(|d| d.as_str().unwrap().to_string()).collect())
                .unwrap_or_default();
            g.insert(k.clone(), deps);
        }
    }
    g
}

/// The input part of a behaviour: graph + the action sequence without its outputs.
fn input_key(b: &Value) -> String {
    let steps: Vec<Value> = b["steps"]
        .as_array()
        .expect("steps")
        .iter()
        .map(|s| {
            let mut o = serde_json::Map::new();
            for k in ["a", "x", "at", "to"] {
                if let Some(v) = s.get(k) {
                    o.insert(k.to_string(), v.clone());
                }
            }
            Value::Object(o)
        })
        .collect();
    json!({"deps": b["deps"], "steps": steps}).to_string()
}

/// Expected outputs of a behaviour, in step order: (ready set, in-queue count, released) per
/// observed step, and the id of every `Ret`.
fn expected_outputs(b: &Value) -> Vec<Value> {
    b["steps"]
        .as_array()
        .expect("steps")
        .iter()
        .filter(|s| s.get("obs").is_some())
        .map(|s| {
            let mut ready: Vec<String> = s["obs"]["ready"]
                .as_array()
                .map(|a| a.iter().map(|x| x.as_str().unwrap().to_string()).collect())
                .unwrap_or_default();
            ready.sort();
            json!({"id": s.get("id").cloned().unwrap_or(Value::Null), "ready": ready,
                   "inq": s["obs"]["inq"], "released": s["obs"]["released"]})
        })
        .collect()
}

struct RunResult {
    outputs: Vec<Value>,
    pend: Vec<usize>,
    released: Vec<String>,
    /// property-level findings: (property, signature, detail)
    findings: Vec<(&'static str, String, String)>,
    /// the await structure of the code is not the one the spec describes
    drift: Option<String>,
    calls: Vec<&'static str>,
}

fn pc_of(p: &Parked) -> String {
    match p {
        Parked::Gate(g) if g.ends_with(".after") => "ret".to_string(),
        Parked::Gate(g) => g.clone(),
        Parked::Notified => "notified".to_string(),
        Parked::Done(_) => "idle".to_string(),
    }
}

async fn run_behaviour(db: &SqliteStore, b: &Value, rng: &mut Rng) -> RunResult {
    let graph = graph_from(b);
    let mut w = World::new(db, &graph, rng).await;
    let orderer = w.orderer();
    let ctl = w.ctl.clone();
    let mut res = RunResult {
        outputs: vec![],
        pend: vec![],
        released: vec![],
        findings: vec![],
        drift: None,
        calls: vec![],
    };
    let mut fut: Option<NextFut<'_>> = None;
    // where the in-flight future is parked ("idle" = no future, "new" = created, not polled)
    let mut at = "idle".to_string();
    // Once the code has left the behaviour (`res.drift`), the remaining inputs are still delivered
    // and the queue is drained, so that the property-level oracles get a complete run to judge.
    macro_rules! drifted {
        ($msg:expr) => {{
            res.drift = Some($msg);
            break;
        }};
    }

    macro_rules! observe {
        ($id:expr) => {{
            let o = w.observe().await;
            res.pend.push(o.pend);
            res.outputs.push(json!({"id": $id, "ready": o.ready.iter().collect::<Vec<_>>(),
                                     "inq": o.inq, "released": res.released}));
            o
        }};
    }

    let steps = b["steps"].as_array().expect("steps");
    let mut done_steps = 0;
    for step in steps {
        done_steps += 1;
        match step["a"].as_str().expect("a") {
            "Input" => {
                let want = step["at"].as_str().unwrap();
                if want != at {
                    done_steps -= 1;
                    drifted!(format!("Input expects `next` parked at {want}, the code is at {at}"));
                }
                drop_next(&mut fut, &ctl);
                at = "idle".into();
                let x = step["x"].as_str().unwrap();
                if let Err(e) = w.process(&orderer, x).await {
                    res.findings.push(("*", "process-error".into(), format!("process({x}) failed: {e}")));
                    return res;
                }
            }
            "ProcDone" => {
                let o = observe!(Value::Null);
                let clo = w.closure();
                if o.ready != clo {
                    let sig = if o.ready.is_subset(&clo) {
                        "ready-set-misses-item-with-all-dependencies-processed"
                    } else {
                        "ready-set-contains-item-with-unprocessed-dependency"
                    };
                    res.findings.push((
                        "C11",
                        sig.into(),
                        format!(
                            "after process({}): ready set {:?}, closure of delivered {:?} is {:?}",
                            step["x"], o.ready, w.delivered, clo
                        ),
                    ));
                }
            }
            "NextCall" => {
                ctl.gating.set(true);
                ctl.skip_after.set(true);
                fut = Some(start_next(&orderer));
                at = "new".into();
            }
            "Step" | "Ret" => {
                let Some(f) = fut.as_mut() else {
                    drifted!("step without a `next` future".to_string());
                };
                let to = if step["a"] == "Ret" { "idle" } else { step["to"].as_str().unwrap() };
                ctl.skip_after.set(to != "ret");
                ctl.go.set(true);
                let p = advance(f, &ctl).await;
                let got = pc_of(&p);
                let mismatch = got != to;
                if mismatch {
                    res.drift = Some(format!(
                        "`next` parked at {got} where the spec has {to} (after {at}; calls so far {:?})",
                        ctl.calls.borrow()
                    ));
                }
                at = got;
                if let Parked::Done(r) = p {
                    fut = None;
                    match r {
                        Ok(op) => {
                            let name = w.name_of(&op);
                            res.released.push(name.clone());
                            observe!(json!(name));
                        }
                        Err(e) => {
                            res.findings.push(("*", "next-error".into(), format!("next failed: {e}")));
                            return res;
                        }
                    }
                }
                if mismatch {
                    break;
                }
            }
            "Cancel" => {
                let want = step["at"].as_str().unwrap();
                if want != at {
                    drifted!(format!("Cancel expects `next` parked at {want}, the code is at {at}"));
                }
                drop_next(&mut fut, &ctl);
                at = "idle".into();
                observe!(Value::Null);
            }
            other => panic!("unknown step {other}"),
        }
    }
    // The behaviour ends at quiescence: `next` parked on the Notify, nothing left to deliver.
    drop_next(&mut fut, &ctl);
    ctl.gating.set(false);
    if res.drift.is_some() {
        // free run: deliver what the behaviour still wanted to deliver, then drain the queue
        for step in &steps[done_steps..] {
            if step["a"] == "Input" {
                let x = step["x"].as_str().unwrap();
                if let Err(e) = w.process(&orderer, x).await {
                    res.findings.push(("*", "process-error".into(), format!("process({x}) failed: {e}")));
                    return res;
                }
            }
        }
        loop {
            let mut f = start_next(&orderer);
            match advance(&mut f, &ctl).await {
                Parked::Done(Ok(op)) => res.released.push(w.name_of(&op)),
                Parked::Done(Err(e)) => {
                    res.findings.push(("*", "next-error".into(), format!("next failed: {e}")));
                    return res;
                }
                _ => break,
            }
            if res.released.len() > 4 * (w.ops.len() + steps.len()) {
                res.findings.push(("*", "next-never-runs-dry".into(), format!("`next` keeps returning items: {:?}", res.released)));
                return res;
            }
        }
    }
    let o = w.observe().await;
    res.calls = ctl.calls.borrow().clone();
    property_oracles(&w, &res.released, &o, true, &mut res.findings);
    res
}

/// C11 / C12 judged on the implementation's own output.
fn property_oracles(
    w: &World,
    released: &[String],
    o: &Obs,
    quiescent: bool,
    findings: &mut Vec<(&'static str, String, String)>,
) {
    // C11: dependencies first
    for (i, x) in released.iter().enumerate() {
        if let Some(ds) = w.depsets.get(x) {
            for d in ds {
                if !released[..i].contains(d) {
                    findings.push((
                        "C11",
                        "released-before-dependency".into(),
                        format!("{x} released at position {i} before its dependency {d}: {released:?}"),
                    ));
                }
            }
        }
    }
    if quiescent {
        let clo = w.closure();
        let rel: BTreeSet<String> = released.iter().cloned().collect();
        // C12: every item that left the queue (ready, not in_queue) was returned by `next`
        let gone: Vec<&String> = o.ready.iter().filter(|x| !rel.contains(*x)).collect();
        if o.inq == 0 && !gone.is_empty() {
            findings.push((
                "C12",
                "item-left-queue-but-never-returned".into(),
                format!("queue empty, ready {:?}, but `next` returned only {released:?}: lost {gone:?}", o.ready),
            ));
        }
        // C11: everything whose dependencies were all processed has been released
        let stuck: Vec<&String> = clo.iter().filter(|x| !o.ready.contains(*x)).collect();
        if !stuck.is_empty() {
            findings.push((
                "C11",
                "item-with-all-dependencies-processed-never-released".into(),
                format!("delivered {:?}: {stuck:?} never became ready (released {released:?})", w.delivered),
            ));
        }
        if o.inq != 0 {
            findings.push((
                "C11",
                "queue-not-drained-at-quiescence".into(),
                format!("`next` parked with {} item(s) still queued", o.inq),
            ));
        }
    }
}

fn replay(args: &Args) {
    let behaviours = read_ndjson(args.input.as_ref().expect("--in"));
    let prop = args.extra.get("prop").cloned().unwrap_or_else(|| "*".into());
    let mut out = Outcome::new(
        args,
        "every TLC behaviour (graph x delivery schedule x await point of each drop of `next`) executed on the real \
         Orderer over SqliteStore, grouped by input (the order in which `process_pending` visits siblings is not \
         controllable: the implementation's outputs must equal the outputs of one behaviour of the group); \
         non-trivial = graph with at least one dependency; distinct by graph + action sequence",
    );
    // group by input
    let mut groups: BTreeMap<String, Vec<&Value>> = BTreeMap::new();
    for b in &behaviours {
        groups.entry(input_key(b)).or_default().push(b);
    }
    let rt = runtime();
    let mut rng = Rng::new(args.seed);
    let mut drift: Option<String> = None;
    let mut db: Option<SqliteStore> = None;
    for (key, group) in &groups {
        let b = group[0];
        out.eval();
        let mut case_rng = Rng::new(rng.next_u64());
        if db.is_none() {
            db = Some(rt.block_on(SqliteStore::temporary()));
        }
        let store = db.clone().unwrap();
        let res = match vh_common::catch(|| {
            let local = tokio::task::LocalSet::new();
            rt.block_on(local.run_until(run_behaviour(&store, b, &mut case_rng)))
        }) {
            Ok(r) => r,
            Err(p) => {
                db = None; // do not reuse a database a panicking run may have left mid-transaction
                out.violation(&prop, "orderer-panics", p, b.clone());
                continue;
            }
        };
        if res.drift.is_some() || !res.findings.is_empty() {
            db = None;
        }
        if graph_from(b).values().any(|d| !d.is_empty()) {
            out.mark_distinct(key.clone());
        }
        for c in &res.calls {
            out.count(&format!("store-call:{c}"));
        }
        for step in b["steps"].as_array().unwrap() {
            match step["a"].as_str().unwrap() {
                "Cancel" | "Input" => out.count(&format!("drop-at:{}", step["at"].as_str().unwrap())),
                _ => {}
            }
        }
        for (p, sig, detail) in &res.findings {
            let p = if *p == "*" { prop.as_str() } else { p };
            out.violation(p, sig, detail.clone(), b.clone());
        }
        if let Some(d) = &res.drift {
            // The code did not take the steps of the behaviour (its outputs were judged above on
            // a free run). Without a property-level finding this is a conformance failure.
            out.count("left-the-behaviour");
            if res.findings.is_empty() {
                drift.get_or_insert(d.clone());
                out.violation(&prop, "next-steps-differ-from-spec", d.clone(), b.clone());
            }
            continue;
        }
        let matches = group.iter().any(|cand| expected_outputs(cand) == res.outputs);
        if !matches {
            out.count("outputs-differ-from-spec");
            if res.findings.is_empty() {
                out.violation(
                    &prop,
                    "outputs-differ-from-spec",
                    format!(
                        "implementation outputs {} match none of the {} spec behaviour(s) for this input, e.g. {}",
                        Value::Array(res.outputs.clone()),
                        group.len(),
                        Value::Array(expected_outputs(group[0]))
                    ),
                    b.clone(),
                );
            }
        } else {
            out.sample(b.clone());
        }
    }
    out.count_by("behaviours", behaviours.len() as u64);
    out.count_by("input-groups", groups.len() as u64);
    if let Some(d) = drift {
        eprintln!("the code left the specification's steps: {d}");
    }
    out.write(args);
}

// ------------------------------------------------------------------------------------------
// Record (impl -> spec)

fn record(args: &Args) {
    let mut out = Outcome::new(
        args,
        "seeded random DAGs (<= 12 items, repeated and missing dependency entries), random redelivery, `next` \
         futures dropped after a random number of real suspensions; one event per process / completed, parked or \
         dropped `next`; non-trivial = run with at least one drop of a `next` future that had started",
    );
    let mut tw = TraceWriter::create(args.out.as_ref().expect("--out"));
    let rt = runtime();
    let mut rng = Rng::new(args.seed ^ 0x0c11);
    let runs = if args.n == 0 { 20 } else { args.n };
    let mut db: Option<SqliteStore> = None;
    let mut db_files: Vec<std::path::PathBuf> = Vec::new();
    // Sweeps first: one fixed small scenario, the first `next` call dropped after k = 0, 1, 2, ..
    // steps - k gates of the store wrapper (every store call, before and after, whatever calls
    // the code makes) and k real suspensions. Independent of the spec's idea of the await points.
    let sweep: Vec<(u32, bool)> = (0..=10u32).flat_map(|k| [(k, true), (k, false)]).collect();
    for run in 0..(sweep.len() + runs) {
        out.eval();
        let mut case_rng = Rng::new(rng.next_u64());
        let thorough = args.thorough();
        if db.is_none() {
            db = Some(rt.block_on(file_db(&mut db_files)));
        }
        let store = db.clone().unwrap();
        let plan = sweep.get(run).copied();
        let r = vh_common::catch(|| {
            let local = tokio::task::LocalSet::new();
            rt.block_on(local.run_until(record_run(&store, &mut case_rng, thorough, plan)))
        });
        if r.as_ref().map(|rr| !rr.findings.is_empty()).unwrap_or(true) {
            db = None;
        }
        match r {
            Ok(rr) => {
                for e in rr.events {
                    tw.event(e);
                }
                if rr.started_drops > 0 {
                    out.mark_distinct(format!("run{run}"));
                }
                out.count_by("drops", rr.drops);
                out.count_by("drops-after-start", rr.started_drops);
                out.count_by("returns", rr.returns);
                for (p, sig, detail) in rr.findings {
                    out.violation(p, &sig, detail, rr.case.clone());
                }
                out.sample(rr.case);
            }
            Err(p) => out.violation("C11", "orderer-panics", p, json!({"run": run, "seed": args.seed})),
        }
    }
    let (events, runs) = tw.finish();
    out.set_trace(events, runs);
    drop(db);
    for f in db_files {
        for ext in ["", "-wal", "-shm", "-journal"] {
            let _ = std::fs::remove_file(format!("{}{ext}", f.display()));
        }
    }
    out.write(args);
}

/// A database file in the working directory with the builder's default (production) pool. The
/// recommended in-memory configuration has a single connection, and sqlx replaces a connection
/// whose `begin`/query future was dropped half-way - which silently swaps an in-memory database
/// for an empty one. That is an artefact of `:memory:`, not of the orderer, so the recorder (which
/// drops futures at real sqlx suspensions) uses a file.
async fn file_db(files: &mut Vec<std::path::PathBuf>) -> SqliteStore {
    let path = std::env::current_dir()
        .expect("cwd")
        .join(format!("orderer-record-{}-{}.db", std::process::id(), files.len()));
    let _ = std::fs::remove_file(&path);
    files.push(path.clone());
    p2panda_store::SqliteStoreBuilder::new()
        .database_url(&format!("sqlite://{}", path.display()))
        .build()
        .await
        .expect("database file")
}

struct RecordRun {
    events: Vec<Value>,
    findings: Vec<(&'static str, String, String)>,
    case: Value,
    drops: u64,
    started_drops: u64,
    returns: u64,
}

fn sweep_graph() -> (Vec<String>, BTreeMap<String, Vec<String>>) {
    let names: Vec<String> = ["s0", "s1", "s2"].iter().map(|s| s.to_string()).collect();
    let mut g = BTreeMap::new();
    g.insert("s0".to_string(), vec![]);
    g.insert("s1".to_string(), vec!["s0".to_string()]);
    g.insert("s2".to_string(), vec!["s0".to_string(), "s1".to_string()]);
    (names, g)
}

fn random_graph(rng: &mut Rng, thorough: bool) -> (Vec<String>, BTreeMap<String, Vec<String>>) {
    let n = rng.range(2, if thorough { 12 } else { 8 }) as usize;
    let names: Vec<String> = (0..n).map(|i| format!("i{i:02}")).collect();
    let mut g = BTreeMap::new();
    for (i, name) in names.iter().enumerate() {
        let mut deps = Vec::new();
        let k = if i == 0 { 0 } else { rng.below(4) as usize };
        for _ in 0..k {
            if rng.chance(1, 12) {
                deps.push(format!("m{}", rng.below(2)));
            } else {
                deps.push(names[rng.below(i as u64) as usize].clone());
            }
        }
        // repeated entries
        if !deps.is_empty() && rng.chance(1, 4) {
            let d = rng.pick(&deps).clone();
            deps.push(d);
        }
        deps.sort();
        g.insert(name.clone(), deps);
    }
    (names, g)
}

async fn record_run(db: &SqliteStore, rng: &mut Rng, thorough: bool, sweep: Option<(u32, bool)>) -> RecordRun {
    let (names, graph) = if sweep.is_some() { sweep_graph() } else { random_graph(rng, thorough) };
    let mut w = World::new(db, &graph, rng).await;
    let orderer = w.orderer();
    let ctl = w.ctl.clone();
    ctl.gating.set(false);
    ctl.skip_after.set(false);
    // delivery schedule: a random subset in random order, with some redeliveries
    let mut sched: Vec<String> = names.iter().filter(|_| sweep.is_some() || !rng.chance(1, 10)).cloned().collect();
    if sweep.is_none() {
        for _ in 0..rng.below(3) {
            if !sched.is_empty() {
                let d = rng.pick(&sched).clone();
                sched.push(d);
            }
        }
        rng.shuffle(&mut sched);
    }
    let mut rr = RecordRun {
        events: vec![json!({"ev": "Reset", "deps": graph})],
        findings: vec![],
        case: json!({"deps": graph, "schedule": sched}),
        drops: 0,
        started_drops: 0,
        returns: 0,
    };
    let mut released: Vec<String> = Vec::new();
    let mut todo: std::collections::VecDeque<String> = sched.into_iter().collect();
    // the in-flight `next` future, the number of polls it has seen, whether it is parked on the Notify
    let mut fut: Option<NextFut<'_>> = None;
    let mut polls: i64 = 0;
    let mut parked = false;
    let mut sweep_dropped = false;

    enum Act {
        Deliver,
        DropOnly,
        Poll,
        Finish,
    }
    loop {
        // Buffer-like driver: the input branch wins (drops the pending `next` future, then
        // `process(input).await`), or some other caller drops the future, or it is polled on.
        let act = if let Some((k, gated)) = sweep {
            // deliver s0, s1; poll the first `next` k times and drop it; deliver s2; drain
            ctl.gating.set(gated && !sweep_dropped && todo.len() == 1);
            if parked {
                if todo.is_empty() { Act::Finish } else { Act::Deliver }
            } else if todo.len() > 1 {
                Act::Deliver
            } else if todo.len() == 1 && !sweep_dropped {
                if polls >= k as i64 {
                    sweep_dropped = true;
                    if fut.is_some() { Act::DropOnly } else { Act::Deliver }
                } else {
                    Act::Poll
                }
            } else if todo.len() == 1 {
                Act::Deliver
            } else {
                Act::Poll
            }
        } else if parked {
            if todo.is_empty() { Act::Finish } else { Act::Deliver }
        } else if !todo.is_empty() && rng.chance(1, 3) {
            Act::Deliver
        } else if fut.is_some() && rng.chance(1, 8) {
            Act::DropOnly
        } else {
            Act::Poll
        };
        if matches!(act, Act::Deliver | Act::DropOnly | Act::Finish) && fut.is_some() {
            drop_next(&mut fut, &ctl);
            rr.drops += 1;
            if polls > 0 {
                rr.started_drops += 1;
            }
            if std::env::var_os("VH_DEBUG").is_some() {
                eprintln!("drop after {polls} polls, parked={parked}, last_call={}, in_call={}", ctl.last_call.get(), ctl.in_call.get());
            }
            let o = w.observe().await;
            rr.events.push(json!({"ev": "Cancel", "polls": if parked { -1 } else { polls },
                "ready": o.ready.iter().collect::<Vec<_>>(), "inq": o.inq, "pend": o.pend,
                "nrel": released.len()}));
            polls = 0;
            parked = false;
            if matches!(act, Act::Finish) {
                property_oracles(&w, &released, &o, true, &mut rr.findings);
                break;
            }
        }
        match act {
            Act::Finish => unreachable!("a parked future exists"),
            Act::DropOnly => {}
            Act::Deliver => {
                let x = todo.pop_front().unwrap();
                if let Err(e) = w.process(&orderer, &x).await {
                    rr.findings.push(("C11", "process-error".into(), e));
                    break;
                }
                let o = w.observe().await;
                rr.events.push(json!({"ev": "Proc", "x": x,
                    "ready": o.ready.iter().collect::<Vec<_>>(), "inq": o.inq, "pend": o.pend}));
                let clo = w.closure();
                if o.ready != clo {
                    rr.findings.push((
                        "C11",
                        if o.ready.is_subset(&clo) {
                            "ready-set-misses-item-with-all-dependencies-processed".into()
                        } else {
                            "ready-set-contains-item-with-unprocessed-dependency".into()
                        },
                        format!("after process({x}): ready {:?}, closure {:?}", o.ready, clo),
                    ));
                }
            }
            Act::Poll => {
                if fut.is_none() {
                    fut = Some(start_next(&orderer));
                    polls = 0;
                }
                let f = fut.as_mut().unwrap();
                let polled = if ctl.gating.get() {
                    // one gate of the store wrapper further
                    ctl.go.set(true);
                    match advance(f, &ctl).await {
                        Parked::Gate(_) => None,
                        other => Some(other),
                    }
                } else {
                    poll_once(f, &ctl).await
                };
                match polled {
                    None => polls += 1, // resumed after one real suspension / parked at the next gate
                    Some(Parked::Done(r)) => {
                        fut = None;
                        polls = 0;
                        match r {
                            Ok(op) => {
                                let name = w.name_of(&op);
                                released.push(name.clone());
                                rr.returns += 1;
                                let o = w.observe().await;
                                rr.events.push(json!({"ev": "Ret", "id": name,
                                    "ready": o.ready.iter().collect::<Vec<_>>(), "inq": o.inq, "pend": o.pend}));
                            }
                            Err(e) => {
                                rr.findings.push(("C12", "next-error".into(), e));
                                break;
                            }
                        }
                    }
                    Some(Parked::Notified) => {
                        // make sure it really stays parked (a spawned rollback may wake it)
                        tokio::task::yield_now().await;
                        if let Some(Parked::Notified) = poll_once(f, &ctl).await {
                            rr.events.push(json!({"ev": "Park"}));
                            parked = true;
                        }
                    }
                    Some(Parked::Gate(_)) => unreachable!("gate parks are counted as polls"),
                }
            }
        }
    }
    rr.case["released"] = json!(released);
    rr
}

/// Diagnostic (not a check step): drop a `next` future after k real polls and report what the
/// store looks like afterwards.
fn probe(args: &Args) {
    let rt = runtime();
    let mut rng = Rng::new(args.seed);
    let file = args.extra.get("db").cloned();
    for k in 0..14u32 {
        let r = vh_common::catch(|| {
            let local = tokio::task::LocalSet::new();
            rt.block_on(local.run_until(async {
                let db = match &file {
                    Some(path) => {
                        let _ = std::fs::remove_file(path);
                        p2panda_store::SqliteStoreBuilder::new()
                            .database_url(&format!("sqlite://{path}"))
                            .max_connections(1)
                            .min_connections(1)
                            .build()
                            .await
                            .expect("file db")
                    }
                    None => SqliteStore::temporary().await,
                };
                let mut graph = BTreeMap::new();
                graph.insert("a".to_string(), vec![]);
                let mut w = World::new(&db, &graph, &mut rng).await;
                let orderer = w.orderer();
                w.process(&orderer, "a").await.unwrap();
                let mut fut = Some(start_next(&orderer));
                let mut state = "pending".to_string();
                for _ in 0..k {
                    match poll_once(fut.as_mut().unwrap(), &w.ctl).await {
                        None => {}
                        Some(p) => {
                            state = format!("{p:?}").chars().take(40).collect();
                            break;
                        }
                    }
                }
                let call = w.ctl.last_call.get();
                drop_next(&mut fut, &w.ctl);
                let o = w.observe().await;
                format!("k={k} last_call={call} state={state} -> ready={:?} inq={}", o.ready, o.inq)
            }))
        });
        println!("{r:?}");
    }
}
