//! Shared plumbing for the conformance harness binaries.
//!
//! Every harness binary is invoked by `/verif/bin/check` as
//!
//! ```text
//! <bin> <module> replay --in <behaviours.ndjson> --out <result.json> [--seed N] [--tier quick|thorough]
//! <bin> <module> record --out <trace.ndjson> --result <result.json> [--seed N] [--n N] [--tier ..]
//! ```
//!
//! `replay` executes behaviours exported by TLC against the real code and reports every case in
//! which the implementation's observable differs from the state the specification computed.
//! `record` drives the real code with seeded random inputs and writes one NDJSON event per spec
//! action; TLC then validates that trace against `Trace_<Spec>.tla`.
//!
//! A panic of the code under test is data (caught and reported as a violation), never a harness
//! failure.
use std::collections::{BTreeMap, BTreeSet};
use std::fs::File;
use std::io::{BufRead, BufReader, BufWriter, Write};
use std::panic::{AssertUnwindSafe, catch_unwind};
use std::path::PathBuf;

use serde::Serialize;
pub use serde_json::{Value, json};

#[derive(Debug, Clone)]
pub struct Args {
    pub module: String,
    pub mode: String,
    pub input: Option<PathBuf>,
    pub out: Option<PathBuf>,
    pub result: Option<PathBuf>,
    pub seed: u64,
    pub n: usize,
    pub tier: String,
    pub extra: BTreeMap<String, String>,
}

impl Args {
    pub fn parse() -> Args {
        let argv: Vec<String> = std::env::args().collect();
        if argv.len() < 3 {
            eprintln!(
                "usage: {} <module> <replay|record> [--in F] [--out F] [--result F] [--seed N] [--n N] [--tier T] [--key value ..]",
                argv[0]
            );
            std::process::exit(2);
        }
        let mut args = Args {
            module: argv[1].clone(),
            mode: argv[2].clone(),
            input: None,
            out: None,
            result: None,
            seed: 0,
            n: 0,
            tier: "quick".into(),
            extra: BTreeMap::new(),
        };
        let mut i = 3;
        while i < argv.len() {
            let key = argv[i].trim_start_matches("--").to_string();
            let val = argv.get(i + 1).cloned().unwrap_or_default();
            match key.as_str() {
                "in" => args.input = Some(val.into()),
                "out" => args.out = Some(val.into()),
                "result" => args.result = Some(val.into()),
                "seed" => args.seed = val.parse().unwrap_or(0),
                "n" => args.n = val.parse().unwrap_or(0),
                "tier" => args.tier = val,
                _ => {
                    args.extra.insert(key, val);
                }
            }
            i += 2;
        }
        args
    }

    pub fn thorough(&self) -> bool {
        self.tier == "thorough"
    }

    /// Path the result JSON goes to (`--result`, or `--out` in replay mode).
    pub fn result_path(&self) -> PathBuf {
        self.result
            .clone()
            .or_else(|| {
                if self.mode == "replay" {
                    self.out.clone()
                } else {
                    None
                }
            })
            .unwrap_or_else(|| PathBuf::from("result.json"))
    }

    pub fn extra_usize(&self, key: &str, default: usize) -> usize {
        self.extra
            .get(key)
            .and_then(|v| v.parse().ok())
            .unwrap_or(default)
    }
}

/// Reads NDJSON behaviours (one JSON value per line; empty lines skipped).
pub fn read_ndjson(path: &PathBuf) -> Vec<Value> {
    let file = File::open(path).unwrap_or_else(|e| {
        eprintln!("cannot open {}: {e}", path.display());
        std::process::exit(2);
    });
    let mut out = Vec::new();
    for line in BufReader::new(file).lines() {
        let line = line.expect("read line");
        let line = line.trim();
        if line.is_empty() {
            continue;
        }
        match serde_json::from_str::<Value>(line) {
            Ok(v) => out.push(v),
            Err(e) => {
                eprintln!("bad JSON line in {}: {e}: {line}", path.display());
                std::process::exit(2);
            }
        }
    }
    out
}

/// NDJSON trace writer (impl -> spec direction).
pub struct TraceWriter {
    w: BufWriter<File>,
    pub events: usize,
    pub runs: usize,
}

impl TraceWriter {
    pub fn create(path: &PathBuf) -> TraceWriter {
        let file = File::create(path).unwrap_or_else(|e| {
            eprintln!("cannot create {}: {e}", path.display());
            std::process::exit(2);
        });
        TraceWriter {
            w: BufWriter::new(file),
            events: 0,
            runs: 0,
        }
    }

    pub fn event(&mut self, v: Value) {
        if v.get("ev").and_then(|e| e.as_str()) == Some("Reset") {
            self.runs += 1;
        }
        serde_json::to_writer(&mut self.w, &v).expect("write event");
        self.w.write_all(b"\n").expect("write newline");
        self.events += 1;
    }

    pub fn finish(mut self) -> (usize, usize) {
        self.w.flush().expect("flush trace");
        (self.events, self.runs)
    }
}

#[derive(Debug, Clone, Serialize)]
pub struct Violation {
    /// Property id this violation belongs to ("C06", ...).
    pub property: String,
    /// Short stable signature of the failure class (used to match known findings).
    pub signature: String,
    /// Human readable description: expected vs. got.
    pub detail: String,
    /// The failing case (behaviour / input), enough to replay it standalone.
    pub case: Value,
}

/// Result of a replay or record run; serialised for `/verif/bin/check`.
#[derive(Debug, Default, Serialize)]
pub struct Outcome {
    pub module: String,
    pub mode: String,
    /// Cases executed against the real code.
    pub evaluations: u64,
    /// Distinct non-trivial cases (by `mark_distinct` keys).
    pub distinct_nontrivial: u64,
    pub rule: String,
    pub violations: Vec<Violation>,
    pub samples: Vec<Value>,
    /// Free-form counters (per-branch coverage etc.).
    pub counters: BTreeMap<String, u64>,
    pub trace_events: u64,
    pub trace_runs: u64,
    #[serde(skip)]
    distinct: BTreeSet<String>,
    #[serde(skip)]
    max_samples: usize,
    #[serde(skip)]
    max_violations: usize,
    pub violations_total: u64,
}

impl Outcome {
    pub fn new(args: &Args, rule: &str) -> Outcome {
        Outcome {
            module: args.module.clone(),
            mode: args.mode.clone(),
            rule: rule.to_string(),
            max_samples: 3,
            max_violations: 20,
            ..Default::default()
        }
    }

    pub fn eval(&mut self) {
        self.evaluations += 1;
    }

    /// Registers a case as non-trivial under `key`; distinct keys are counted.
    pub fn mark_distinct(&mut self, key: impl Into<String>) {
        self.distinct.insert(key.into());
    }

    pub fn count(&mut self, counter: &str) {
        *self.counters.entry(counter.to_string()).or_insert(0) += 1;
    }

    pub fn count_by(&mut self, counter: &str, n: u64) {
        *self.counters.entry(counter.to_string()).or_insert(0) += n;
    }

    pub fn sample(&mut self, v: Value) {
        if self.samples.len() < self.max_samples {
            self.samples.push(v);
        }
    }

    pub fn violation(&mut self, property: &str, signature: &str, detail: String, case: Value) {
        self.violations_total += 1;
        if self.violations.len() < self.max_violations {
            self.violations.push(Violation {
                property: property.to_string(),
                signature: signature.to_string(),
                detail,
                case,
            });
        }
    }

    pub fn set_trace(&mut self, events: usize, runs: usize) {
        self.trace_events = events as u64;
        self.trace_runs = runs as u64;
    }

    pub fn write(mut self, args: &Args) {
        self.distinct_nontrivial = self.distinct.len() as u64;
        let path = args.result_path();
        let file = File::create(&path).unwrap_or_else(|e| {
            eprintln!("cannot create {}: {e}", path.display());
            std::process::exit(2);
        });
        serde_json::to_writer_pretty(BufWriter::new(file), &self).expect("write result");
        eprintln!(
            "[{} {}] evaluations={} distinct={} violations={}",
            self.module, self.mode, self.evaluations, self.distinct_nontrivial, self.violations_total
        );
    }
}

/// Runs `f`, turning a panic into `Err(message)`.
pub fn catch<T>(f: impl FnOnce() -> T) -> Result<T, String> {
    catch_unwind(AssertUnwindSafe(f)).map_err(|e| {
        if let Some(s) = e.downcast_ref::<&str>() {
            s.to_string()
        } else if let Some(s) = e.downcast_ref::<String>() {
            s.clone()
        } else {
            "panic (non-string payload)".to_string()
        }
    })
}

/// Silences the default panic hook's stderr noise (panics are data here).
pub fn quiet_panics() {
    std::panic::set_hook(Box::new(|_| {}));
}

/// Small deterministic RNG (splitmix64 / xorshift), independent of any `rand` version.
#[derive(Clone, Debug)]
pub struct Rng(u64);

impl Rng {
    pub fn new(seed: u64) -> Rng {
        Rng(seed.wrapping_mul(0x9E37_79B9_7F4A_7C15).wrapping_add(0x1234_5678_9ABC_DEF1))
    }

    pub fn next_u64(&mut self) -> u64 {
        self.0 = self.0.wrapping_add(0x9E37_79B9_7F4A_7C15);
        let mut z = self.0;
        z = (z ^ (z >> 30)).wrapping_mul(0xBF58_476D_1CE4_E5B9);
        z = (z ^ (z >> 27)).wrapping_mul(0x94D0_49BB_1331_11EB);
        z ^ (z >> 31)
    }

    /// Uniform in `0..n` (n > 0).
    pub fn below(&mut self, n: u64) -> u64 {
        self.next_u64() % n
    }

    pub fn range(&mut self, lo: u64, hi_inclusive: u64) -> u64 {
        lo + self.below(hi_inclusive - lo + 1)
    }

    pub fn chance(&mut self, num: u64, den: u64) -> bool {
        self.below(den) < num
    }

    pub fn pick<'a, T>(&mut self, xs: &'a [T]) -> &'a T {
        &xs[self.below(xs.len() as u64) as usize]
    }

    pub fn shuffle<T>(&mut self, xs: &mut [T]) {
        for i in (1..xs.len()).rev() {
            let j = self.below(i as u64 + 1) as usize;
            xs.swap(i, j);
        }
    }

    pub fn bytes(&mut self, n: usize) -> Vec<u8> {
        (0..n).map(|_| self.next_u64() as u8).collect()
    }
}

/// Dispatch helper: unknown module / mode -> exit 2 (tool error).
pub fn unknown(args: &Args) -> ! {
    eprintln!("unknown module/mode: {} {}", args.module, args.mode);
    std::process::exit(2);
}
