//! Conformance harness binary `vh-auth`: one module per TLA+ specification (see /verif/spec).
mod groupmerge;
mod groupcrdt;

fn main() {
    let args = vh_common::Args::parse();
    vh_common::quiet_panics();
    match args.module.as_str() {
        "groupmerge" => groupmerge::run(&args),
        "groupcrdt" => groupcrdt::run(&args),
        _ => vh_common::unknown(&args),
    }
}
