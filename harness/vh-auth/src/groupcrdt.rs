//! GroupAuth (C31, C33): the real `GroupCrdt<.., StrongRemove>` against spec/GroupAuth/GroupAuth.tla.
//!
//! * `replay`: every history TLC exported (operation DAG + the members the specification computes
//!   for every down-closed view + the attempts validation accepts) is delivered to real replicas in
//!   EVERY causal order. Oracle 1: replicas that processed the same set of operations agree and
//!   repeated queries agree. Oracle 2: members / access equal the specification's view. C33: every
//!   attempt (author, action) of the alphabet is processed at every view; the verdict must equal the
//!   specification's and an accepted attempt must be authorized in the replica's own state at the
//!   attempt's dependencies.
//! * `record`: seeded random histories on the real code (several actors with their own replicas,
//!   authorized and unauthorized attempts, optional conditions), every replica delivering in its own
//!   random causal order, one event per spec action for `Trace_GroupAuth.tla`; plus larger histories
//!   with nested groups and conditions checked by oracle 1 only (outside the specified fragment).
use std::collections::{BTreeMap, BTreeSet, HashMap};

use p2panda_auth::group::resolver::StrongRemove;
use p2panda_auth::group::{GroupAction, GroupCrdt, GroupCrdtState, GroupMember};
use p2panda_auth::traits::Operation;
use serde::{Deserialize, Serialize};
use vh_common::{Args, Outcome, Rng, TraceWriter, Value, catch, json, read_ndjson, unknown};

use crate::groupmerge::{Cond, access, access_proj};

#[derive(Clone, Debug, Serialize, Deserialize)]
pub struct VOp {
    pub id: u32,
    pub author: char,
    pub deps: Vec<u32>,
    pub group: char,
    pub action: GroupAction<char, Cond>,
}

impl Operation<char, u32, Cond> for VOp {
    fn id(&self) -> u32 {
        self.id
    }
    fn author(&self) -> char {
        self.author
    }
    fn dependencies(&self) -> Vec<u32> {
        self.deps.clone()
    }
    fn group_id(&self) -> char {
        self.group
    }
    fn action(&self) -> GroupAction<char, Cond> {
        self.action.clone()
    }
}

type Resolver = StrongRemove<char, u32, VOp, Cond>;
type Crdt = GroupCrdt<char, u32, VOp, Cond, Resolver>;
type State = GroupCrdtState<char, u32, VOp, Cond>;

const G: char = 'G';

/// member -> (condition or -1, level)
type MView = BTreeMap<char, (i64, u8)>;

pub fn run(args: &Args) {
    match args.mode.as_str() {
        "replay" => replay(args),
        "record" => record(args),
        _ => unknown(args),
    }
}

fn ch(v: &Value) -> char {
    v.as_str().expect("string").chars().next().expect("non-empty")
}

fn process(y: &State, op: &VOp) -> Result<Result<State, String>, String> {
    catch(|| Crdt::process(y.clone(), op).map_err(|e| e.to_string()))
}

fn members_view(y: &State, group: char) -> MView {
    y.members(group).into_iter().map(|(m, a)| (m, access_proj(&a))).collect()
}

fn root_view(y: &State, group: char) -> BTreeMap<(bool, char), (i64, u8)> {
    y.root_members(group).into_iter().map(|(m, a)| ((m.is_group(), m.id()), access_proj(&a))).collect()
}

/// Repeated queries on one replica must agree (C31, second half). Returns the view or the two
/// differing answers.
fn stable_view(y: &State, group: char) -> Result<MView, (MView, MView)> {
    stable_view_n(y, group, 4)
}

fn stable_view_n(y: &State, group: char, repeats: usize) -> Result<MView, (MView, MView)> {
    let first = members_view(y, group);
    for _ in 0..repeats {
        let again = members_view(y, group);
        if again != first {
            return Err((first, again));
        }
    }
    let r1 = root_view(y, group);
    for _ in 0..2 {
        if root_view(y, group) != r1 {
            return Err((first.clone(), first));
        }
    }
    Ok(first)
}

fn view_json(v: &MView) -> Value {
    Value::Array(v.iter().map(|(m, (c, l))| json!({"m": m.to_string(), "c": c, "l": l})).collect())
}

fn view_from_json(v: &Value) -> MView {
    v.as_array()
        .map(|a| a.iter().map(|e| (ch(&e["m"]), (e["c"].as_i64().unwrap(), e["l"].as_u64().unwrap() as u8))).collect())
        .unwrap_or_default()
}

fn action_of(kind: &str, member: char, c: i64, l: u64) -> GroupAction<char, Cond> {
    let member = GroupMember::Individual(member);
    match kind {
        "add" => GroupAction::Add { member, access: access(c, l) },
        "remove" => GroupAction::Remove { member },
        "promote" => GroupAction::Promote { member, access: access(c, l) },
        "demote" => GroupAction::Demote { member, access: access(c, l) },
        k => panic!("unknown kind {k}"),
    }
}

/// The authorization the property demands, evaluated on the replica's own view at the dependencies.
fn authorized(view: &MView, author: char, kind: &str, member: char) -> bool {
    let manager = view.get(&author).is_some_and(|a| a.1 == 3);
    let target_active = view.contains_key(&member);
    match kind {
        "add" => manager && !target_active,
        "remove" => target_active && (manager || (author == member && view.contains_key(&author))),
        _ => manager && target_active,
    }
}

/// Reports a violation and keeps a per-signature tally (the violation list itself is capped).
fn viol(out: &mut Outcome, property: &str, signature: &str, detail: String, case: Value) {
    let key = format!("violation:{signature}");
    out.count(&key);
    // at most 3 full reports per class, so that every class gets into the (capped) list; all are counted
    if out.counters[&key] <= 3 {
        out.violation(property, signature, detail, case);
    }
}

struct History {
    ops: Vec<(VOp, bool)>,                 // (operation, spec verdict); index = id - 1
    views: HashMap<Vec<u32>, MView>,        // sorted ids of a down-closed view -> spec members
    accepts: BTreeSet<(char, String, char, i64, u64)>,
    actors: Vec<char>,
    kinds: Vec<String>,
    accs: Vec<(i64, u64)>,
}

fn parse_history(b: &Value) -> History {
    let initial: Vec<(GroupMember<char>, _)> = b["initial"]
        .as_array()
        .expect("initial")
        .iter()
        .map(|e| (GroupMember::Individual(ch(&e["m"])), access(e["c"].as_i64().unwrap(), e["l"].as_u64().unwrap())))
        .collect();
    let mut ops = Vec::new();
    for o in b["ops"].as_array().expect("ops") {
        let kind = o["kind"].as_str().unwrap();
        let action = if kind == "create" {
            GroupAction::Create { initial_members: initial.clone() }
        } else {
            action_of(kind, ch(&o["member"]), o["c"].as_i64().unwrap(), o["l"].as_u64().unwrap())
        };
        ops.push((
            VOp {
                id: o["id"].as_u64().unwrap() as u32,
                author: ch(&o["author"]),
                deps: o["deps"].as_array().map(|d| d.iter().map(|x| x.as_u64().unwrap() as u32).collect()).unwrap_or_default(),
                group: G,
                action,
            },
            o["ok"].as_bool().unwrap(),
        ));
    }
    let mut views = HashMap::new();
    for v in b["views"].as_array().expect("views") {
        let d: Vec<u32> = v["d"].as_array().unwrap().iter().map(|x| x.as_u64().unwrap() as u32).collect();
        views.insert(d, view_from_json(&v["members"]));
    }
    let accepts = b["accepts"]
        .as_array()
        .map(|a| {
            a.iter()
                .map(|e| (ch(&e["a"]), e["k"].as_str().unwrap().to_string(), ch(&e["m"]), e["c"].as_i64().unwrap(), e["l"].as_u64().unwrap()))
                .collect()
        })
        .unwrap_or_default();
    History {
        ops,
        views,
        accepts,
        actors: b["actors"].as_array().unwrap().iter().map(ch).collect(),
        kinds: b["kinds"].as_array().unwrap().iter().map(|k| k.as_str().unwrap().to_string()).collect(),
        accs: b["accs"].as_array().unwrap().iter().map(|a| (a["c"].as_i64().unwrap(), a["l"].as_u64().unwrap())).collect(),
    }
}

/// Canonical key of the sub-history `d` (sorted ids): operations renumbered 1..|d| in id order.
fn history_key(ops: &[(VOp, bool)], d: &[u32]) -> String {
    let renum: HashMap<u32, usize> = d.iter().enumerate().map(|(i, id)| (*id, i + 1)).collect();
    let mut parts = Vec::new();
    for id in d {
        let op = &ops[*id as usize - 1].0;
        let mut deps: Vec<usize> = op.deps.iter().map(|x| renum[x]).collect();
        deps.sort();
        parts.push(format!("{}:{:?}:{}", op.author, deps, serde_json::to_string(&op.action).unwrap()));
    }
    parts.join(";")
}

fn heads_of(ops: &[(VOp, bool)], d: &[u32]) -> Vec<u32> {
    d.iter().copied().filter(|id| !d.iter().any(|p| ops[*p as usize - 1].0.deps.contains(id))).collect()
}

struct Explorer<'a> {
    h: &'a History,
    case: &'a Value,
    accepted: Vec<u32>,
    /// real view of the first replica that reached a given set of operations
    seen: HashMap<Vec<u32>, MView>,
    leaves: Vec<State>,
    process_calls: u64,
    extensions: u64,
    failed: bool,
    stop_on_view_mismatch: bool,
    queries: usize,
}

impl Explorer<'_> {
    /// Depth-first over all causal delivery orders of the accepted operations.
    fn explore(&mut self, y: &State, done: &mut Vec<u32>, out: &mut Outcome) {
        if self.failed {
            return;
        }
        let mut key = done.clone();
        key.sort();
        // --- observables of the replica that has processed exactly `key`
        if !key.is_empty() {
            let repeats = self.queries;
            let real = match catch(|| stable_view_n(y, G, repeats)) {
                Err(p) => {
                    viol(out, "C31", "query-panics", p, self.case.clone());
                    self.failed = true;
                    return;
                }
                Ok(Err((v1, v2))) => {
                    viol(out, 
                        "C31",
                        "query-unstable",
                        format!("repeated members() on one replica after {done:?}: {v1:?} then {v2:?}"),
                        self.case.clone(),
                    );
                    self.failed = true;
                    return;
                }
                Ok(Ok(v)) => v,
            };
            match self.seen.get(&key) {
                Some(other) if other != &real => {
                    viol(out, 
                        "C31",
                        "replicas-diverge",
                        format!("two replicas processed {key:?} in different causal orders (one of them {done:?}): {other:?} vs {real:?}"),
                        self.case.clone(),
                    );
                    self.failed = true;
                    return;
                }
                Some(_) => {}
                None => {
                    // oracle 2, once per set
                    match self.h.views.get(&key) {
                        Some(spec) if spec != &real => {
                            viol(out, 
                                "C31",
                                "view-differs-from-spec",
                                format!("after {done:?}: replica reports {real:?}, specification says {spec:?}"),
                                self.case.clone(),
                            );
                            // a wrong state is C31's business; the exploration goes on so that the
                            // attempts of C33 are still judged at every view of this history
                            if self.stop_on_view_mismatch {
                                self.failed = true;
                                return;
                            }
                        }
                        Some(_) => {}
                        None => {
                            eprintln!("history line lacks the view {key:?}: {}", self.case);
                            std::process::exit(2);
                        }
                    }
                    self.seen.insert(key.clone(), real);
                }
            }
        }
        if done.len() == self.accepted.len() {
            self.extensions += 1;
            if self.leaves.len() < 2 {
                self.leaves.push(y.clone());
            } else {
                self.leaves[1] = y.clone();
            }
            return;
        }
        for id in self.accepted.clone() {
            if done.contains(&id) {
                continue;
            }
            let op = &self.h.ops[id as usize - 1].0;
            if !op.deps.iter().all(|d| done.contains(d)) {
                continue;
            }
            self.process_calls += 1;
            match process(y, op) {
                Err(p) => {
                    viol(out, "C33", "process-panics", format!("processing op {id} after {done:?}: {p}"), self.case.clone());
                    self.failed = true;
                    return;
                }
                Ok(Err(e)) => {
                    viol(out, 
                        "C33",
                        "valid-operation-rejected",
                        format!("op {id} (valid at its dependencies per the specification) refused after {done:?}: {e}"),
                        self.case.clone(),
                    );
                    self.failed = true;
                    return;
                }
                Ok(Ok(next)) => {
                    done.push(id);
                    self.explore(&next, done, out);
                    done.pop();
                }
            }
        }
    }
}

/// (is_group, id) -> level, for `members()` (individuals) and `groups()` (transitive sub-groups)
type TView = BTreeMap<(bool, char), u8>;

fn trans_view(y: &State, g: char) -> TView {
    let mut v: TView = y.members(g).into_iter().map(|(m, a)| ((false, m), access_proj(&a).1)).collect();
    v.extend(y.groups(g).into_iter().map(|(m, a)| ((true, m), access_proj(&a).1)));
    v
}

const ADMIN: char = 'm';

/// One nesting exported by MC_GroupNest: the groups are created by an administrator `m` (manager
/// of every group, not part of the model: it is a direct Manage member everywhere and therefore
/// Manage in every answer), every edge is one Add operation. The history is built (a) as a chain
/// in a random edge order and (b) with all adds concurrent; each variant is delivered to
/// `replicas` fresh replicas in random causal orders; every group is queried 5 times per replica.
fn replay_nesting(b: &Value, rng: &mut Rng, replicas: usize, out: &mut Outcome) {
    out.eval();
    let groups: Vec<char> = b["groups"].as_array().expect("groups").iter().map(ch).collect();
    let edges: Vec<(char, char, u64, bool)> = b["edges"]
        .as_array()
        .map(|a| a.iter().map(|e| (ch(&e["g"]), ch(&e["x"]), e["l"].as_u64().unwrap(), e["grp"].as_bool().unwrap())).collect())
        .unwrap_or_default();
    let mut expected: HashMap<char, TView> = HashMap::new();
    for g in &groups {
        let mut v: TView = b["trans"][g.to_string().as_str()]
            .as_array()
            .map(|a| a.iter().map(|e| ((e["grp"].as_bool().unwrap(), ch(&e["m"])), e["l"].as_u64().unwrap() as u8)).collect())
            .unwrap_or_default();
        v.insert((false, ADMIN), 3);
        expected.insert(*g, v);
    }
    if b["diamond"] == json!(true) {
        out.mark_distinct(b["edges"].to_string());
        out.count("nestings_with_unequal_diamond");
    }
    for variant in ["chain", "concurrent"] {
        // --- the history
        let mut ops: Vec<VOp> = Vec::new();
        for g in &groups {
            let deps = ops.last().map(|o: &VOp| vec![o.id]).unwrap_or_default();
            ops.push(VOp { id: ops.len() as u32 + 1, author: ADMIN, deps, group: *g,
                           action: GroupAction::Create { initial_members: vec![(GroupMember::Individual(ADMIN), access(-1, 3))] } });
        }
        let root = ops.last().unwrap().id;
        let mut order: Vec<usize> = (0..edges.len()).collect();
        rng.shuffle(&mut order);
        for ei in order {
            let (g, x, l, grp) = edges[ei];
            let member = if grp { GroupMember::Group(x) } else { GroupMember::Individual(x) };
            let deps = if variant == "chain" { vec![ops.last().unwrap().id] } else { vec![root] };
            ops.push(VOp { id: ops.len() as u32 + 1, author: ADMIN, deps, group: g, action: GroupAction::Add { member, access: access(-1, l) } });
        }
        // --- fresh replicas, random causal orders
        let mut first: Option<HashMap<char, TView>> = None;
        for rep in 0..replicas {
            let mut y = Crdt::init();
            let mut done: BTreeSet<u32> = BTreeSet::new();
            let mut delivered = Vec::new();
            while done.len() < ops.len() {
                let ready: Vec<usize> = (0..ops.len()).filter(|j| !done.contains(&ops[*j].id) && ops[*j].deps.iter().all(|d| done.contains(d))).collect();
                let op = &ops[*rng.pick(&ready)];
                match process(&y, op) {
                    Ok(Ok(next)) => y = next,
                    Ok(Err(e)) => { viol(out, "C31", "nesting-operation-refused", format!("{variant}: op {op:?} refused after {delivered:?}: {e}"), b.clone()); return; }
                    Err(p) => { viol(out, "C33", "process-panics", format!("{variant}: op {op:?}: {p}"), b.clone()); return; }
                }
                done.insert(op.id);
                delivered.push(op.id);
            }
            out.count("nesting_replicas");
            let mut answers: HashMap<char, TView> = HashMap::new();
            for g in &groups {
                for q in 0..5 {
                    let got = match catch(|| trans_view(&y, *g)) {
                        Ok(v) => v,
                        Err(p) => { viol(out, "C31", "query-panics", p, b.clone()); return; }
                    };
                    if let Some(prev) = answers.get(g) {
                        if prev != &got {
                            viol(out, "C31", "nested-query-unstable", format!("{variant}, replica {rep} (order {delivered:?}): members/groups of {g} answered {prev:?}, then (query {q}) {got:?}"), b.clone());
                            return;
                        }
                    } else {
                        answers.insert(*g, got);
                    }
                }
                let got = &answers[g];
                if got != &expected[g] {
                    viol(out, "C31", "nested-members-differ-from-spec",
                         format!("{variant}, replica {rep} (order {delivered:?}): members/groups of {g} = {got:?}, specification (max over paths of min along the path) says {:?}", expected[g]), b.clone());
                    return;
                }
            }
            match &first {
                None => first = Some(answers),
                Some(f) if f != &answers => {
                    viol(out, "C31", "nested-replicas-diverge", format!("{variant}: replica 0 answers {f:?}, replica {rep} answers {answers:?}"), b.clone());
                    return;
                }
                _ => {}
            }
        }
    }
    out.sample(b.clone());
}

fn replay(args: &Args) {
    let cases = read_ndjson(args.input.as_ref().expect("--in"));
    let mut out = Outcome::new(
        args,
        "every TLC-exported history delivered to the real GroupCrdt in every causal order (members/access after every \
         prefix vs. other replicas, vs. repeated queries and vs. the specification's view), every attempt of the alphabet \
         processed at every down-closed view (verdict vs. specification, authorization vs. the replica's own state); \
         non-trivial = history with concurrent operations; distinct by history",
    );
    let attempts_every = args.extra_usize("attempts-every", 1);
    // `--focus c31`: delivery orders, views and query stability only (the attempts belong to C33)
    let focus_c31 = args.extra.get("focus").is_some_and(|f| f == "c31");
    // accepted-attempt tables by canonical history key (for views smaller than the whole history)
    let mut tables: HashMap<String, BTreeSet<(char, String, char, i64, u64)>> = HashMap::new();
    let mut recreate_reported = false;
    let fresh = args.extra_usize("fresh", 0);
    let queries = args.extra_usize("queries", 4);
    let mut fresh_rng = Rng::new(args.seed ^ 0x5eed);
    // nesting cases (spec/GroupAuth/GroupNest.tla) are a different kind of behaviour
    let (nestings, cases): (Vec<Value>, Vec<Value>) = cases.into_iter().partition(|b| b["kind"] == "nesting");
    let mut nest_rng = Rng::new(args.seed);
    for b in &nestings {
        replay_nesting(b, &mut nest_rng, args.extra_usize("replicas", 8), &mut out);
    }
    let parsed: Vec<History> = cases.iter().map(parse_history).collect();
    for h in &parsed {
        if h.ops.iter().all(|(_, ok)| *ok) {
            let d: Vec<u32> = h.ops.iter().map(|(o, _)| o.id).collect();
            tables.insert(history_key(&h.ops, &d), h.accepts.clone());
        }
    }
    for (n, (b, h)) in cases.iter().zip(parsed.iter()).enumerate() {
        out.eval();
        let accepted: Vec<u32> = h.ops.iter().filter(|(_, ok)| *ok).map(|(o, _)| o.id).collect();
        let mut ex = Explorer { h, case: b, accepted: accepted.clone(), seen: HashMap::new(), leaves: Vec::new(), process_calls: 0, extensions: 0, failed: false, stop_on_view_mismatch: focus_c31, queries: args.extra_usize("queries", 4) };
        let init = Crdt::init();
        ex.explore(&init, &mut Vec::new(), &mut out);
        out.count_by("process_calls", ex.process_calls);
        out.count_by("causal_orders", ex.extensions);
        if ex.extensions > 1 {
            out.mark_distinct(b["ops"].to_string());
        }
        if ex.failed {
            continue;
        }
        // --- `--fresh N`: N more replicas built from scratch, each in its own random causal order (the walk
        // above shares prefixes between orders; a fresh replica rebuilds everything with its own hash seeds)
        let full_key = { let mut a = accepted.clone(); a.sort(); a };
        for _ in 0..fresh {
            let mut y = Crdt::init();
            let mut done: Vec<u32> = Vec::new();
            let mut bad = false;
            while done.len() < accepted.len() && !bad {
                let ready: Vec<u32> = accepted.iter().copied().filter(|id| !done.contains(id) && h.ops[*id as usize - 1].0.deps.iter().all(|d| done.contains(d))).collect();
                let id = *fresh_rng.pick(&ready);
                match process(&y, &h.ops[id as usize - 1].0) {
                    Ok(Ok(next)) => { y = next; done.push(id); }
                    Ok(Err(e)) => { viol(&mut out, "C33", "valid-operation-rejected", format!("op {id} refused after {done:?}: {e}"), b.clone()); bad = true; }
                    Err(p) => { viol(&mut out, "C33", "process-panics", p, b.clone()); bad = true; }
                }
            }
            if bad { break; }
            out.count("fresh_replicas");
            match catch(|| stable_view_n(&y, G, queries)) {
                Err(p) => viol(&mut out, "C31", "query-panics", p, b.clone()),
                Ok(Err((v1, v2))) => viol(&mut out, "C31", "query-unstable", format!("fresh replica (order {done:?}): repeated members() gave {v1:?} then {v2:?}"), b.clone()),
                Ok(Ok(v)) => {
                    if let Some(spec) = h.views.get(&full_key) {
                        if spec != &v {
                            viol(&mut out, "C31", "view-differs-from-spec", format!("fresh replica (order {done:?}) reports {v:?}, specification says {spec:?}"), b.clone());
                        }
                    }
                    if let Some(other) = ex.seen.get(&full_key) {
                        if other != &v {
                            viol(&mut out, "C31", "replicas-diverge", format!("fresh replica (order {done:?}) reports {v:?}, another replica with the same operations {other:?}"), b.clone());
                        }
                    }
                }
            }
        }
        // --- operations the specification refuses: every replica that has the dependencies refuses them too
        for (op, ok) in &h.ops {
            if *ok {
                continue;
            }
            for leaf in &ex.leaves {
                match process(leaf, op) {
                    Err(p) => viol(&mut out, "C33", "process-panics", p, b.clone()),
                    Ok(Ok(_)) => viol(&mut out, "C33", "invalid-operation-accepted", format!("op {} accepted, specification refuses it", op.id), b.clone()),
                    Ok(Err(_)) => out.count("refused_ops"),
                }
            }
        }
        // --- C33: the whole alphabet of attempts at every view
        if n % attempts_every != 0 || focus_c31 {
            continue;
        }
        let mut views: Vec<Vec<u32>> = h.views.keys().cloned().collect();
        views.sort();
        let full = { let mut a = accepted.clone(); a.sort(); a };
        for (li, leaf) in ex.leaves.iter().enumerate() {
            for d in &views {
                if li > 0 && d != &full {
                    continue; // smaller views (validation by rebuild) on one replica only
                }
                let table = if d == &full { Some(&h.accepts) } else { tables.get(&history_key(&h.ops, d)) };
                let Some(table) = table else {
                    out.count("attempt_views_without_table");
                    continue;
                };
                let deps = heads_of(&h.ops, d);
                let view_at_d = &ex.seen[d];
                let mut next_id = 9000;
                for author in &h.actors {
                    for kind in &h.kinds {
                        for member in &h.actors {
                            let accs: Vec<(i64, u64)> = if kind == "remove" { vec![(-1, 0)] } else { h.accs.clone() };
                            for (c, l) in accs {
                                next_id += 1;
                                let op = VOp { id: next_id, author: *author, deps: deps.clone(), group: G, action: action_of(kind, *member, c, l) };
                                let expect = table.contains(&(*author, kind.clone(), *member, c, l));
                                let attempt = json!({"at": d, "author": author.to_string(), "kind": kind, "member": member.to_string(), "c": c, "l": l});
                                let got = match process(leaf, &op) {
                                    Err(p) => {
                                        viol(&mut out, "C33", "process-panics", format!("attempt {attempt}: {p}"), b.clone());
                                        continue;
                                    }
                                    Ok(r) => r.is_ok(),
                                };
                                out.count(if got { "attempts_accepted" } else { "attempts_refused" });
                                if got && !authorized(view_at_d, *author, kind, *member) {
                                    let noop = kind == "promote" || kind == "demote";
                                    viol(&mut out, 
                                        "C33",
                                        if noop { "unauthorized-accepted:noop-promote-demote" } else { "unauthorized-accepted" },
                                        format!("attempt {attempt} accepted although in the replica's state at its dependencies ({view_at_d:?}) the author is not an active manager / the action is not valid"),
                                        b.clone(),
                                    );
                                }
                                // ... and in the state the SPECIFICATION computes at the dependencies (the
                                // replica's own state may itself be wrong, e.g. a wrong merge of branches)
                                if got && !authorized(&h.views[d], *author, kind, *member) {
                                    viol(
                                        &mut out,
                                        "C33",
                                        "unauthorized-accepted:per-spec-state",
                                        format!("attempt {attempt} accepted; in the state at its dependencies per the specification ({:?}) the author is not an active manager / the action is not valid (the replica itself reports {view_at_d:?} there)", h.views[d]),
                                        b.clone(),
                                    );
                                }
                                if got != expect {
                                    viol(&mut out, 
                                        "C33",
                                        "verdict-differs-from-spec",
                                        format!("attempt {attempt}: replica {} it, specification {} it", if got { "accepts" } else { "refuses" }, if expect { "accepts" } else { "refuses" }),
                                        b.clone(),
                                    );
                                }
                            }
                        }
                    }
                }
            }
        }
        // --- adversarial attempts at the view of all operations: another group's id, a second create
        let deps = heads_of(&h.ops, &full);
        for leaf in &ex.leaves {
            let mut next_id = 20000;
            for author in &h.actors {
                // (a) an action in a group that does not exist at the dependencies
                let mut kinds: Vec<String> = h.kinds.clone();
                kinds.push("create".to_string());
                for kind in &kinds {
                    let Some(expect) = b["foreign"][kind.as_str()].as_bool() else { continue };
                    next_id += 1;
                    let action = if kind == "create" {
                        GroupAction::Create { initial_members: vec![(GroupMember::Individual(*author), access(-1, 3))] }
                    } else {
                        action_of(kind, h.actors[0], -1, 1)
                    };
                    let op = VOp { id: next_id, author: *author, deps: deps.clone(), group: 'H', action };
                    let attempt = json!({"group": "H (does not exist)", "author": author.to_string(), "kind": kind});
                    match process(leaf, &op) {
                        Err(p) => viol(&mut out, "C33", "process-panics:unknown-group", format!("attempt {attempt}: {p}"), b.clone()),
                        Ok(r) if r.is_ok() != expect => viol(
                            &mut out,
                            "C33",
                            "unknown-group-verdict-differs-from-spec",
                            format!("attempt {attempt}: replica {} it", if r.is_ok() { "accepts" } else { "refuses" }),
                            b.clone(),
                        ),
                        Ok(_) => out.count("foreign_group_attempts"),
                    }
                }
                // (b) a second create for the existing group
                if let Some(expect) = b["recreate"].as_bool() {
                    next_id += 1;
                    let op = VOp {
                        id: next_id,
                        author: *author,
                        deps: deps.clone(),
                        group: G,
                        action: GroupAction::Create { initial_members: vec![(GroupMember::Individual(*author), access(-1, 3))] },
                    };
                    match process(leaf, &op) {
                        Err(p) => viol(&mut out, "C33", "process-panics", format!("second create by {author}: {p}"), b.clone()),
                        Ok(Ok(_)) if !expect && recreate_reported => out.count("violation:unauthorized-accepted:create-existing-group"),
                        Ok(Ok(after)) if !expect => {
                            recreate_reported = true; // one report per run, the rest is counted
                            let before = members_view(leaf, G);
                            let now = members_view(&after, G);
                            viol(
                                &mut out,
                                "C33",
                                "unauthorized-accepted:create-existing-group",
                                format!("a second create for the existing group by {author} (view before {before:?}) was accepted; members afterwards {now:?}"),
                                b.clone(),
                            );
                        }
                        Ok(Err(_)) if expect => viol(&mut out, "C33", "verdict-differs-from-spec", format!("second create by {author} refused, specification accepts it"), b.clone()),
                        Ok(_) => out.count("recreate_attempts"),
                    }
                }
            }
        }
        out.sample(json!({"ops": b["ops"], "causal_orders": ex.extensions}));
    }
    out.write(args);
}

// ------------------------------------------------------------------------------------------ record

fn random_access(rng: &mut Rng, conds: bool) -> (i64, u64) {
    let c = if conds && rng.chance(1, 2) { rng.below(3) as i64 } else { -1 };
    (c, rng.below(4))
}

/// One replica of the traced runs.
struct Rep {
    name: &'static str,
    y: State,
    seen: BTreeSet<u32>,     // processed (accepted or refused)
    have: BTreeSet<u32>,     // accepted
}

/// Processes `op` at `rep`, emits the Deliver event, returns the verdict (None on panic).
fn deliver(rep: &mut Rep, op: &VOp, trace: &mut TraceWriter, out: &mut Outcome, ctx: &Value) -> Option<bool> {
    out.eval();
    let verdict = match process(&rep.y, op) {
        Err(p) => {
            viol(out, "C33", "process-panics", format!("replica {} processing op {}: {p}", rep.name, op.id), ctx.clone());
            return None;
        }
        Ok(Ok(next)) => {
            rep.y = next;
            rep.have.insert(op.id);
            true
        }
        Ok(Err(_)) => false,
    };
    rep.seen.insert(op.id);
    let view = match catch(|| stable_view(&rep.y, G)) {
        Ok(Ok(v)) => v,
        Ok(Err((v1, v2))) => {
            viol(out, "C31", "query-unstable", format!("replica {}: repeated members() {v1:?} then {v2:?}", rep.name), ctx.clone());
            v1
        }
        Err(p) => {
            viol(out, "C31", "query-panics", p, ctx.clone());
            return None;
        }
    };
    trace.event(json!({"ev": "Deliver", "r": rep.name, "o": op.id, "ok": verdict, "members": view_json(&view)}));
    Some(verdict)
}

/// A traced run inside the specified fragment: one group, individual members.
fn traced_run(run: usize, rng: &mut Rng, trace: &mut TraceWriter, out: &mut Outcome) {
    let conds = run % 3 == 2;
    let pool: Vec<char> = "abcdef".chars().take(rng.range(4, 6) as usize).collect();
    let k = rng.range(2, 4) as usize;
    let mut initial = Vec::new();
    let mut init_json = serde_json::Map::new();
    for (j, m) in pool.iter().take(k).enumerate() {
        let (c, l) = if j == 0 || rng.chance(1, 3) { (-1, 3) } else { random_access(rng, conds) };
        initial.push((GroupMember::Individual(*m), access(c, l)));
        init_json.insert(m.to_string(), json!({"c": c, "l": l}));
    }
    trace.event(json!({"ev": "Reset", "run": run, "creator": "a", "initial": Value::Object(init_json)}));
    let mut ops: Vec<(VOp, bool)> = vec![(VOp { id: 1, author: 'a', deps: vec![], group: G, action: GroupAction::Create { initial_members: initial } }, true)];
    let mut reps: Vec<Rep> = ["r1", "r2", "r3"].iter().map(|n| Rep { name: n, y: Crdt::init(), seen: BTreeSet::new(), have: BTreeSet::new() }).collect();
    let ctx = json!({"run": run, "seed_note": "re-run `record` with the same --seed"});
    let n_ops = rng.range(3, 9);
    let mut published = 0;
    let mut guard = 0;
    while published < n_ops && guard < 200 {
        guard += 1;
        let ri = rng.below(3) as usize;
        // a replica publishes only after it has the create
        if !reps[ri].seen.contains(&1) {
            let op = ops[0].0.clone();
            if deliver(&mut reps[ri], &op, trace, out, &ctx).is_none() { return; }
            continue;
        }
        if rng.chance(2, 5) {
            // deliver some operation this replica is missing and whose dependencies it has
            let ready: Vec<usize> = (0..ops.len())
                .filter(|j| !reps[ri].seen.contains(&ops[*j].0.id) && ops[*j].0.deps.iter().all(|d| reps[ri].have.contains(d)))
                .collect();
            if !ready.is_empty() {
                let j = *rng.pick(&ready);
                let (op, ok) = ops[j].clone();
                match deliver(&mut reps[ri], &op, trace, out, &ctx) {
                    None => return,
                    Some(v) if v != ok => viol(out, "C31", "verdicts-differ", format!("op {} was {} by its publisher and {} by replica {}", op.id, if ok { "accepted" } else { "refused" }, if v { "accepted" } else { "refused" }, reps[ri].name), ctx.clone()),
                    _ => {}
                }
            }
            continue;
        }
        // publish from this replica's view
        let view = members_view(&reps[ri].y, G);
        let managers: Vec<char> = view.iter().filter(|(_, a)| a.1 == 3).map(|(m, _)| *m).collect();
        let author = if !managers.is_empty() && rng.chance(3, 4) { *rng.pick(&managers) } else { *rng.pick(&pool) };
        let kind = *rng.pick(&["add", "remove", "remove", "promote", "demote"]);
        let inside: Vec<char> = view.keys().copied().collect();
        let outside: Vec<char> = pool.iter().copied().filter(|m| !view.contains_key(m)).collect();
        let plausible = if kind == "add" { &outside } else { &inside };
        let member = if !plausible.is_empty() && rng.chance(4, 5) { *rng.pick(plausible) } else { *rng.pick(&pool) };
        let (c, l) = if kind == "remove" { (-1, 0) } else { random_access(rng, conds) };
        let id = ops.len() as u32 + 1;
        let mut deps = reps[ri].y.heads();
        deps.sort();
        let op = VOp { id, author, deps: deps.clone(), group: G, action: action_of(kind, member, c, l) };
        out.eval();
        let ok = match process(&reps[ri].y, &op) {
            Err(p) => { viol(out, "C33", "process-panics", format!("publishing {op:?}: {p}"), ctx.clone()); return; }
            Ok(r) => r.is_ok(),
        };
        out.count(if ok { "published_accepted" } else { "published_refused" });
        if ok && !authorized(&view, author, kind, member) {
            viol(out, "C33", if kind == "promote" || kind == "demote" { "unauthorized-accepted:noop-promote-demote" } else { "unauthorized-accepted" },
                 format!("{op:?} accepted in view {view:?}"), ctx.clone());
        }
        trace.event(json!({"ev": "Publish", "id": id, "author": author.to_string(), "deps": deps, "kind": kind, "member": member.to_string(), "c": c, "l": l, "ok": ok}));
        ops.push((op.clone(), ok));
        published += 1;
        if deliver(&mut reps[ri], &op, trace, out, &ctx).is_none() { return; }
    }
    // everybody gets everything, each replica in its own causal order
    loop {
        let mut progressed = false;
        for ri in 0..3 {
            let ready: Vec<usize> = (0..ops.len())
                .filter(|j| !reps[ri].seen.contains(&ops[*j].0.id) && ops[*j].0.deps.iter().all(|d| reps[ri].have.contains(d)))
                .collect();
            if ready.is_empty() { continue; }
            progressed = true;
            let j = *rng.pick(&ready);
            let (op, ok) = ops[j].clone();
            match deliver(&mut reps[ri], &op, trace, out, &ctx) {
                None => return,
                Some(v) if v != ok => viol(out, "C31", "verdicts-differ", format!("op {} verdict differs at replica {}", op.id, reps[ri].name), ctx.clone()),
                _ => {}
            }
        }
        if !progressed { break; }
    }
    let v0 = members_view(&reps[0].y, G);
    for r in &reps[1..] {
        let v = members_view(&r.y, G);
        if r.have == reps[0].have && v != v0 {
            viol(out, "C31", "replicas-diverge", format!("same operations {:?}: r1 reports {v0:?}, {} reports {v:?}", r.have, r.name), json!({"run": run, "ops": ops.iter().map(|(o, ok)| json!({"op": o, "ok": ok})).collect::<Vec<_>>()}));
        }
    }
    if ops.iter().any(|(o, _)| o.deps.len() > 1) || ops.len() > 3 {
        out.mark_distinct(format!("traced-{run}"));
    }
}

/// Everything a replica reports, for the comparison between replicas.
fn full_report(y: &State, groups: &[char]) -> Vec<(char, MView, BTreeMap<(bool, char), (i64, u8)>, BTreeMap<char, (i64, u8)>)> {
    groups
        .iter()
        .map(|g| (*g, members_view(y, *g), root_view(y, *g), y.groups(*g).into_iter().map(|(m, a)| (m, access_proj(&a))).collect()))
        .collect()
}

/// A larger history outside the specified fragment (nested groups, conditions), generated by
/// actors with diverging replicas and then delivered to `orders` fresh replicas, each in its own
/// random causal order. Oracle 1 only.
fn wild_run(run: usize, rng: &mut Rng, orders: usize, out: &mut Outcome) {
    let conds = run % 2 == 1;
    let nested = run % 4 >= 2;
    let individuals: Vec<char> = "abcdefgh".chars().take(rng.range(4, 8) as usize).collect();
    let groups: Vec<char> = if nested { vec![G, 'P', 'Q'] } else { vec![G] };
    let mut ops: Vec<VOp> = Vec::new();
    let mut gens: Vec<(State, BTreeSet<u32>)> = (0..3).map(|_| (Crdt::init(), BTreeSet::new())).collect();
    let case = |ops: &Vec<VOp>| json!({"kind": "wild", "run": run, "ops": ops});
    // creates: root by 'a', sub-groups by 'b' and 'c' (each its own manager)
    for (gi, g) in groups.iter().enumerate() {
        let creator = individuals[gi.min(individuals.len() - 1)];
        let mut initial = vec![(GroupMember::Individual(creator), access(-1, 3))];
        if gi == 0 {
            for m in individuals.iter().skip(1).take(rng.range(1, 3) as usize) {
                let (c, l) = if rng.chance(1, 2) { (-1, 3) } else { random_access(rng, conds) };
                initial.push((GroupMember::Individual(*m), access(c, l)));
            }
        }
        let mut deps = gens[0].0.heads();
        deps.sort();
        let op = VOp { id: ops.len() as u32 + 1, author: creator, deps, group: *g, action: GroupAction::Create { initial_members: initial } };
        match process(&gens[0].0, &op) {
            Ok(Ok(y)) => { gens[0].0 = y; gens[0].1.insert(op.id); ops.push(op); }
            Ok(Err(e)) => { viol(out, "C33", "valid-operation-rejected", format!("create refused: {e}"), case(&ops)); return; }
            Err(p) => { viol(out, "C33", "process-panics", p, case(&ops)); return; }
        }
    }
    // nested runs start (3 times out of 4) from a diamond whose two paths carry different
    // effective access: G --e1--> Q directly and G --e2--> P --e3--> Q with e1 != min(e2, e3),
    // plus an individual that is a member of Q only; published on one replica or concurrently
    if nested && individuals.len() >= 4 && rng.chance(3, 4) {
        let (e1, e2, e3) = loop {
            let t = (rng.below(3), rng.below(3), rng.below(3));
            if t.0 != t.1.min(t.2) { break t; }
        };
        let (c1, _) = random_access(rng, conds);
        let leaf = individuals[3];
        let seeds: Vec<(char, char, GroupAction<char, Cond>)> = vec![
            (individuals[0], G, GroupAction::Add { member: GroupMember::Group('Q'), access: access(c1, e1) }),
            (individuals[0], G, GroupAction::Add { member: GroupMember::Group('P'), access: access(-1, e2) }),
            (individuals[1], 'P', GroupAction::Add { member: GroupMember::Group('Q'), access: access(-1, e3) }),
            (individuals[2], 'Q', GroupAction::Add { member: GroupMember::Individual(leaf), access: access(-1, rng.range(1, 3)) }),
        ];
        let concurrent = rng.chance(1, 2);
        let base = gens[0].0.clone();
        let mut base_deps = base.heads();
        base_deps.sort();
        for (author, group, action) in seeds {
            let deps = if concurrent { base_deps.clone() } else { let mut d = gens[0].0.heads(); d.sort(); d };
            let op = VOp { id: ops.len() as u32 + 1, author, deps, group, action };
            match process(&gens[0].0, &op) {
                Ok(Ok(y)) => { gens[0].0 = y; gens[0].1.insert(op.id); ops.push(op); }
                Ok(Err(_)) => { out.count("wild_attempt_refused"); }
                Err(p) => { viol(out, "C33", "process-panics", format!("{op:?}: {p}"), case(&ops)); return; }
            }
        }
        out.count("wild_diamond_seeds");
    }
    let target = ops.len() + rng.range(4, 16) as usize;
    let mut guard = 0;
    while ops.len() < target && guard < 400 {
        guard += 1;
        let gi = rng.below(3) as usize;
        // sync: bring this generator replica up to date with a random subset of what exists
        if rng.chance(1, 3) || gens[gi].1.is_empty() {
            loop {
                let ready: Vec<usize> = (0..ops.len()).filter(|j| !gens[gi].1.contains(&ops[*j].id) && ops[*j].deps.iter().all(|d| gens[gi].1.contains(d))).collect();
                if ready.is_empty() || (rng.chance(1, 4) && gens[gi].1.len() >= groups.len()) { break; }
                let op = ops[*rng.pick(&ready)].clone();
                match process(&gens[gi].0, &op) {
                    Ok(Ok(y)) => { gens[gi].0 = y; gens[gi].1.insert(op.id); }
                    Ok(Err(e)) => { viol(out, "C31", "verdicts-differ", format!("op {} accepted by its publisher, refused by another replica: {e}", op.id), case(&ops)); return; }
                    Err(p) => { viol(out, "C33", "process-panics", p, case(&ops)); return; }
                }
            }
            continue;
        }
        let known: Vec<char> = groups.iter().copied().filter(|g| gens[gi].0.has_group(*g)).collect();
        if known.is_empty() { continue; }
        let group = *rng.pick(&known);
        let roots = gens[gi].0.root_members(group);
        let managers: Vec<char> = roots.iter().filter(|(m, a)| m.is_individual() && a.is_manage()).map(|(m, _)| m.id()).collect();
        if managers.is_empty() { continue; }
        let author = *rng.pick(&managers);
        let kind = *rng.pick(&["add", "add", "remove", "promote", "demote"]);
        let mut candidates: Vec<GroupMember<char>> = individuals.iter().map(|m| GroupMember::Individual(*m)).collect();
        for g in &groups { if *g != group && *g != G { candidates.push(GroupMember::Group(*g)); } }
        let inside: Vec<GroupMember<char>> = roots.iter().map(|(m, _)| *m).collect();
        let member = if kind == "add" {
            let outside: Vec<GroupMember<char>> = candidates.iter().copied().filter(|m| !inside.contains(m)).collect();
            if outside.is_empty() { continue; }
            *rng.pick(&outside)
        } else {
            *rng.pick(&inside)
        };
        let (c, mut l) = random_access(rng, conds);
        if member.is_group() && l == 3 { l = 2; }
        let action = match kind {
            "add" => GroupAction::Add { member, access: access(c, l) },
            "remove" => GroupAction::Remove { member },
            "promote" => GroupAction::Promote { member, access: access(c, l) },
            _ => GroupAction::Demote { member, access: access(c, l) },
        };
        let mut deps = gens[gi].0.heads();
        deps.sort();
        let op = VOp { id: ops.len() as u32 + 1, author, deps, group, action };
        match process(&gens[gi].0, &op) {
            Ok(Ok(y)) => { gens[gi].0 = y; gens[gi].1.insert(op.id); ops.push(op); }
            Ok(Err(_)) => { out.count("wild_attempt_refused"); } // e.g. a nesting cycle
            Err(p) => { viol(out, "C33", "process-panics", format!("{op:?}: {p}"), case(&ops)); return; }
        }
    }
    out.count_by("wild_ops", ops.len() as u64);
    // deliver to fresh replicas, each in its own random causal order
    let mut reference: Option<(Vec<u32>, _)> = None;
    for _ in 0..orders {
        out.eval();
        let mut y = Crdt::init();
        let mut done: BTreeSet<u32> = BTreeSet::new();
        let mut order = Vec::new();
        while done.len() < ops.len() {
            let ready: Vec<usize> = (0..ops.len()).filter(|j| !done.contains(&ops[*j].id) && ops[*j].deps.iter().all(|d| done.contains(d))).collect();
            let op = &ops[*rng.pick(&ready)];
            match process(&y, op) {
                Ok(Ok(next)) => y = next,
                Ok(Err(e)) => { viol(out, "C31", "verdicts-differ", format!("op {} accepted by its publisher, refused after {order:?}: {e}", op.id), case(&ops)); return; }
                Err(p) => { viol(out, "C33", "process-panics", format!("op {} after {order:?}: {p}", op.id), case(&ops)); return; }
            }
            done.insert(op.id);
            order.push(op.id);
        }
        let report = match catch(|| { let r1 = full_report(&y, &groups); let r2 = full_report(&y, &groups); let r3 = full_report(&y, &groups); (r1, r2, r3) }) {
            Ok(r) => r,
            Err(p) => { viol(out, "C31", "query-panics", p, case(&ops)); return; }
        };
        if report.0 != report.1 || report.0 != report.2 {
            viol(out, "C31", if conds { "query-unstable:with-conditions" } else { "query-unstable" },
                 format!("repeated queries on one replica (order {order:?}) differ: {:?} / {:?} / {:?}", report.0, report.1, report.2), case(&ops));
            return;
        }
        match &reference {
            None => reference = Some((order, report.0)),
            Some((o0, r0)) if r0 != &report.0 => {
                viol(out, "C31", if conds { "replicas-diverge:with-conditions" } else { "replicas-diverge" },
                     format!("same operations, order {o0:?} gives {r0:?}, order {order:?} gives {:?}", report.0), case(&ops));
                return;
            }
            _ => {}
        }
    }
    out.mark_distinct(format!("wild-{run}"));
    if run < 2 { out.sample(json!({"wild_ops": ops.len(), "orders": orders, "nested": nested, "conditions": conds})); }
}

fn record(args: &Args) {
    let mut rng = Rng::new(args.seed);
    let n = if args.n > 0 { args.n } else { 60 };
    let mut trace = TraceWriter::create(args.out.as_ref().expect("--out"));
    let mut out = Outcome::new(
        args,
        "seeded random histories on the real GroupCrdt: (a) traced runs in the specified fragment (3 replicas, 4-6 actors, \
         authorized and unauthorized attempts, every replica delivering in its own causal order; one event per process call), \
         (b) larger histories with nested groups and conditions (8-22 operations) delivered to 20 fresh replicas in random \
         causal orders and compared replica-vs-replica and query-vs-query; non-trivial = run with merges/concurrency",
    );
    let orders = args.extra_usize("orders", 20);
    for run in 0..n {
        traced_run(run, &mut rng, &mut trace, &mut out);
    }
    let wild = args.extra_usize("wild", n);
    for run in 0..wild {
        wild_run(run, &mut rng, orders, &mut out);
    }
    let (events, runs) = trace.finish();
    out.set_trace(events, runs);
    out.write(args);
}
