//! GroupMerge (C32): `p2panda_auth::group::crdt::state::{merge, create, add, remove, promote,
//! demote}` (reached through the cfg-guarded `verif_api` hook) against spec/GroupAuth/GroupMerge.tla.
//!
//! * `replay`: every (s1, s2[, s3]) case TLC enumerated is executed on the real `merge`; the
//!   results are compared with the transcription's and the three laws are checked directly on the
//!   results of the real function.
//! * `record`: seeded random runs on the real functions (a common base state, two branches that
//!   diverge through add/remove/promote/demote, merges in both orders; plus random triples over a
//!   larger domain), one event per call, validated by `Trace_GroupMerge.tla`.
use std::collections::BTreeMap;

use p2panda_auth::group::verif_api as state;
use p2panda_auth::group::{GroupMembersState, GroupMembershipError};
use p2panda_auth::traits::Conditions;
use p2panda_auth::{Access, AccessLevel};
use serde::{Deserialize, Serialize};
use vh_common::{Args, Outcome, Rng, TraceWriter, Value, catch, json, read_ndjson, unknown};

/// A totally ordered conditions type (derived order on the integer).
#[derive(Clone, Debug, PartialEq, Eq, PartialOrd, Ord, Hash, Serialize, Deserialize)]
pub struct Cond(pub u8);
impl Conditions for Cond {}

type St = GroupMembersState<String, Cond>;

/// Canonical projection of a member state: (member_counter, access_counter, condition or -1, level 0..3).
type Proj = BTreeMap<String, (u64, u64, i64, u8)>;

pub fn run(args: &Args) {
    match args.mode.as_str() {
        "replay" => replay(args),
        "record" => record(args),
        _ => unknown(args),
    }
}

pub fn level_name(l: u64) -> &'static str {
    match l {
        0 => "Pull",
        1 => "Read",
        2 => "Write",
        3 => "Manage",
        _ => panic!("bad level {l}"),
    }
}

pub fn level_num(l: &AccessLevel) -> u8 {
    match l {
        AccessLevel::Pull => 0,
        AccessLevel::Read => 1,
        AccessLevel::Write => 2,
        AccessLevel::Manage => 3,
    }
}

pub fn access(c: i64, l: u64) -> Access<Cond> {
    let a = match l {
        0 => Access::pull(),
        1 => Access::read(),
        2 => Access::write(),
        3 => Access::manage(),
        _ => panic!("bad level {l}"),
    };
    if c >= 0 { a.with_conditions(Cond(c as u8)) } else { a }
}

pub fn access_proj(a: &Access<Cond>) -> (i64, u8) {
    (a.conditions.as_ref().map(|c| c.0 as i64).unwrap_or(-1), level_num(&a.level))
}

/// `{"id": {"mc":..,"ac":..,"c":..,"l":..}}` (or `[]` / `{}` for the empty state) -> real state,
/// built through the serde representation (fields are crate-private).
fn state_from_json(v: &Value) -> St {
    let mut members = serde_json::Map::new();
    if let Some(obj) = v.as_object() {
        for (id, m) in obj {
            let c = m["c"].as_i64().expect("c");
            members.insert(
                id.clone(),
                json!({
                    "member_counter": m["mc"].as_u64().expect("mc"),
                    "access": {
                        "conditions": if c >= 0 { json!(c) } else { Value::Null },
                        "level": level_name(m["l"].as_u64().expect("l")),
                    },
                    "access_counter": m["ac"].as_u64().expect("ac"),
                }),
            );
        }
    }
    serde_json::from_value(json!({ "members": members })).expect("GroupMembersState from serde form")
}

fn proj(s: &St) -> Proj {
    let v = serde_json::to_value(s).expect("serialise state");
    let mut out = Proj::new();
    for (id, m) in v["members"].as_object().expect("members") {
        let c = m["access"]["conditions"].as_i64().unwrap_or(-1);
        let l = match m["access"]["level"].as_str().expect("level") {
            "Pull" => 0,
            "Read" => 1,
            "Write" => 2,
            "Manage" => 3,
            x => panic!("level {x}"),
        };
        out.insert(
            id.clone(),
            (m["member_counter"].as_u64().unwrap(), m["access_counter"].as_u64().unwrap(), c, l),
        );
    }
    out
}

fn proj_from_json(v: &Value) -> Proj {
    proj(&state_from_json(v))
}

fn proj_json(p: &Proj) -> Value {
    let mut o = serde_json::Map::new();
    for (id, (mc, ac, c, l)) in p {
        o.insert(id.clone(), json!({"mc": mc, "ac": ac, "c": c, "l": l}));
    }
    Value::Object(o)
}

fn has_conditions(ps: &[&Proj]) -> bool {
    ps.iter().any(|p| p.values().any(|m| m.2 >= 0))
}

fn merge(a: &St, b: &St) -> St {
    state::merge(a.clone(), b.clone())
}

struct Merged {
    m12: Proj,
    m21: Proj,
    m12_3: Proj,
    m1_23: Proj,
    m11: Proj,
}

fn all_merges(s1: &St, s2: &St, s3: &St) -> Merged {
    let m12 = merge(s1, s2);
    let m23 = merge(s2, s3);
    Merged {
        m21: proj(&merge(s2, s1)),
        m12_3: proj(&merge(&m12, s3)),
        m1_23: proj(&merge(s1, &m23)),
        m11: proj(&merge(s1, s1)),
        m12: proj(&m12),
    }
}

/// The three laws on the results of the real function. Returns the violated law's signature.
fn laws(m: &Merged, s1: &Proj, cond: bool) -> Vec<(&'static str, String)> {
    let mut out = Vec::new();
    if m.m12 != m.m21 {
        out.push((
            if cond { "merge-not-commutative:with-conditions" } else { "merge-not-commutative" },
            format!("merge(s1,s2) = {:?} but merge(s2,s1) = {:?}", m.m12, m.m21),
        ));
    }
    if m.m12_3 != m.m1_23 {
        out.push((
            if cond { "merge-not-associative:with-conditions" } else { "merge-not-associative" },
            format!("merge(merge(s1,s2),s3) = {:?} but merge(s1,merge(s2,s3)) = {:?}", m.m12_3, m.m1_23),
        ));
    }
    if &m.m11 != s1 {
        out.push(("merge-not-idempotent", format!("merge(s1,s1) = {:?}, s1 = {:?}", m.m11, s1)));
    }
    out
}

fn replay(args: &Args) {
    let cases = read_ndjson(args.input.as_ref().expect("--in"));
    let mut out = Outcome::new(
        args,
        "every TLC-enumerated pair/triple of membership states executed on the real state::merge (both argument \
         orders, both bracketings, self-merge); non-trivial = some member known to both s1 and s2 with differing \
         member states; distinct by input",
    );
    for b in &cases {
        out.eval();
        let s1 = state_from_json(&b["s1"]["m"]);
        let s2 = state_from_json(&b["s2"]["m"]);
        let s3 = state_from_json(&b["s3"]["m"]);
        let (p1, p2, p3) = (proj(&s1), proj(&s2), proj(&s3));
        let cond = has_conditions(&[&p1, &p2, &p3]);
        if p1.iter().any(|(id, m)| p2.get(id).is_some_and(|n| n != m)) {
            out.mark_distinct(format!("{}|{}|{}", b["s1"]["m"], b["s2"]["m"], b["s3"]["m"]));
        }
        out.count(if cond { "cases_with_conditions" } else { "cases_without_conditions" });
        let m = match catch(|| all_merges(&s1, &s2, &s3)) {
            Ok(m) => m,
            Err(p) => {
                out.violation("C32", "merge-panics", p, b.clone());
                continue;
            }
        };
        let mut bad = false;
        for (key, got) in [("m12", &m.m12), ("m21", &m.m21), ("m12_3", &m.m12_3), ("m1_23", &m.m1_23), ("m11", &m.m11)] {
            if b.get(key).is_none() {
                continue; // pair cases carry m12/m21/m11, triple cases the two bracketings
            }
            let expected = proj_from_json(&b[key]["m"]);
            if got != &expected {
                bad = true;
                out.count("merge-differs-from-spec");
                out.violation(
                    "C32",
                    if cond { "merge-differs-from-spec:with-conditions" } else { "merge-differs-from-spec" },
                    format!("{key}: real merge gives {got:?}, specification says {expected:?}"),
                    b.clone(),
                );
                break;
            }
        }
        for (sig, detail) in laws(&m, &p1, cond) {
            bad = true;
            out.count(sig);
            out.violation("C32", sig, detail, b.clone());
        }
        if !bad {
            out.sample(b.clone());
        }
    }
    out.write(args);
}

// ------------------------------------------------------------------------------------------ record

fn random_access(rng: &mut Rng, conds: bool) -> (i64, u64) {
    let c = if conds && rng.chance(2, 3) { rng.below(4) as i64 } else { -1 };
    (c, rng.below(4))
}

fn random_state(rng: &mut Rng, ids: &[String], conds: bool) -> Value {
    let mut o = serde_json::Map::new();
    for id in ids {
        if rng.chance(1, 4) {
            continue;
        }
        let (c, l) = random_access(rng, conds);
        // few distinct counter values so that ties (the interesting branch) are frequent
        o.insert(id.clone(), json!({"mc": rng.range(1, 4), "ac": rng.below(3), "c": c, "l": l}));
    }
    Value::Object(o)
}

fn is_err<T>(r: &Result<T, GroupMembershipError<String>>) -> bool {
    r.is_err()
}

/// One random membership action on `st`; returns the event and the new state (unchanged on error).
fn random_op(rng: &mut Rng, branch: &str, st: &St, ids: &[String], conds: bool) -> (Value, St) {
    let actor = rng.pick(ids).clone();
    let member = rng.pick(ids).clone();
    let (c, l) = random_access(rng, conds);
    let acc = access(c, l);
    let kind = *rng.pick(&["add", "add", "remove", "promote", "demote"]);
    let res = match kind {
        "add" => state::add(st.clone(), actor.clone(), member.clone(), acc),
        "remove" => state::remove(st.clone(), actor.clone(), member.clone()),
        "promote" => state::promote(st.clone(), actor.clone(), member.clone(), acc),
        _ => state::demote(st.clone(), actor.clone(), member.clone(), acc),
    };
    let ok = !is_err(&res);
    let after = res.unwrap_or_else(|_| st.clone());
    (
        json!({"ev": "Op", "b": branch, "kind": kind, "actor": actor, "member": member, "c": c, "l": l,
               "ok": ok, "after": proj_json(&proj(&after))}),
        after,
    )
}

fn record(args: &Args) {
    let mut rng = Rng::new(args.seed);
    let n = if args.n > 0 { args.n } else { 100 };
    let mut trace = TraceWriter::create(args.out.as_ref().expect("--out"));
    let mut out = Outcome::new(
        args,
        "seeded random runs on the real state functions: create, two branches diverging by add/remove/promote/demote \
         (authorized and unauthorized actors), merged in both orders; and random state triples (<= 6 members, counters \
         1..4 / 0..2, conditions 0..3) through merge; one event per call, laws checked on the real results",
    );
    let ids: Vec<String> = ["a", "b", "c", "d", "e", "f"].iter().map(|s| s.to_string()).collect();
    for run in 0..n {
        trace.event(json!({"ev": "Reset", "run": run}));
        let conds = run % 2 == 1;
        // --- reachable states: common base, two branches, merge both ways
        let k = rng.range(2, 4) as usize;
        let mut initial = Vec::new();
        let mut init_json = serde_json::Map::new();
        for (j, id) in ids.iter().take(k).enumerate() {
            let (c, l) = if j == 0 { (-1, 3) } else { random_access(&mut rng, conds) };
            initial.push((id.clone(), access(c, l)));
            init_json.insert(id.clone(), json!({"c": c, "l": l}));
        }
        let base: St = state::create(&initial);
        trace.event(json!({"ev": "Create", "initial": Value::Object(init_json), "after": proj_json(&proj(&base))}));
        let (mut b1, mut b2) = (base.clone(), base.clone());
        for _round in 0..rng.range(1, 3) {
            for _ in 0..rng.range(1, 5) {
                out.eval();
                let (ev, st) = random_op(&mut rng, "b1", &b1, &ids, conds);
                out.count(if ev["ok"] == json!(true) { "op_ok" } else { "op_err" });
                trace.event(ev);
                b1 = st;
            }
            for _ in 0..rng.range(1, 5) {
                out.eval();
                let (ev, st) = random_op(&mut rng, "b2", &b2, &ids, conds);
                out.count(if ev["ok"] == json!(true) { "op_ok" } else { "op_err" });
                trace.event(ev);
                b2 = st;
            }
            out.eval();
            let empty = St::default();
            match catch(|| all_merges(&b1, &b2, &empty)) {
                Ok(m) => {
                    let (p1, p2) = (proj(&b1), proj(&b2));
                    let cond = has_conditions(&[&p1, &p2]);
                    for (sig, detail) in laws(&m, &p1, cond) {
                        out.violation("C32", sig, detail, json!({"kind": "pair", "s1": {"m": proj_json(&p1)}, "s2": {"m": proj_json(&p2)}, "s3": {"m": {}},
                            "m12": {"m": proj_json(&m.m12)}, "m21": {"m": proj_json(&m.m21)}, "m12_3": {"m": proj_json(&m.m12_3)}, "m1_23": {"m": proj_json(&m.m1_23)}, "m11": {"m": proj_json(&m.m11)}}));
                    }
                    if p1 != p2 {
                        out.mark_distinct(format!("{p1:?}|{p2:?}"));
                    }
                    trace.event(json!({"ev": "MergeBranches", "m12": proj_json(&m.m12), "m21": proj_json(&m.m21)}));
                    // both branches continue from merge(b1, b2), as a replica would
                    b1 = merge(&b1, &b2);
                    b2 = b1.clone();
                }
                Err(p) => {
                    out.violation("C32", "merge-panics", p, json!({"s1": proj_json(&proj(&b1)), "s2": proj_json(&proj(&b2))}));
                    break;
                }
            }
        }
        // --- arbitrary states over a larger domain
        for _ in 0..4 {
            out.eval();
            let (j1, j2, j3) = (random_state(&mut rng, &ids, conds), random_state(&mut rng, &ids, conds), random_state(&mut rng, &ids, conds));
            let (s1, s2, s3) = (state_from_json(&j1), state_from_json(&j2), state_from_json(&j3));
            match catch(|| all_merges(&s1, &s2, &s3)) {
                Ok(m) => {
                    let p1 = proj(&s1);
                    for (sig, detail) in laws(&m, &p1, conds) {
                        out.violation("C32", sig, detail, json!({"kind": "triple", "s1": {"m": j1}, "s2": {"m": j2}, "s3": {"m": j3},
                            "m12": {"m": proj_json(&m.m12)}, "m21": {"m": proj_json(&m.m21)}, "m12_3": {"m": proj_json(&m.m12_3)}, "m1_23": {"m": proj_json(&m.m1_23)}, "m11": {"m": proj_json(&m.m11)}}));
                    }
                    out.mark_distinct(format!("{j1}|{j2}|{j3}"));
                    let ev = json!({"ev": "Merge3", "s1": j1, "s2": j2, "s3": j3, "m12": proj_json(&m.m12), "m21": proj_json(&m.m21),
                                    "m12_3": proj_json(&m.m12_3), "m1_23": proj_json(&m.m1_23), "m11": proj_json(&m.m11)});
                    out.sample(ev.clone());
                    trace.event(ev);
                }
                Err(p) => out.violation("C32", "merge-panics", p, json!({"s1": j1, "s2": j2, "s3": j3})),
            }
        }
    }
    let (events, runs) = trace.finish();
    out.set_trace(events, runs);
    out.write(args);
}
