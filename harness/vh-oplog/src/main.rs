//! Conformance harness binary `vh-oplog`: one module per TLA+ specification (see /verif/spec).
mod oplog;

fn main() {
    let args = vh_common::Args::parse();
    vh_common::quiet_panics();
    match args.module.as_str() {
        "oplog" => oplog::run(&args),
        _ => vh_common::unknown(&args),
    }
}
