//! OpLog (C01, C03, C05 and the stream-level half of C04): `ingest_operation` and the `LogPrune`
//! processor of p2panda-stream on a real `SqliteStore`, against spec/OpLog.
//!
//! * `replay`: every behaviour TLC exported from MC_OpLog (Submit / Ingest / Prune steps with the
//!   expected result and the expected store after each step) is executed with real Ed25519 keys,
//!   real headers and real SQLite.  Forgery classes of the spec are concretised by actual
//!   mutation (see `World::concretise`).  Independently of the spec's expectation the properties
//!   are evaluated on the implementation's own observables (`Judge`).
//!   At a configurable subset of ingest steps the harness additionally *expands* the abstract
//!   "tampered copy" of the spec into every single-field mutation and many single-bit flips of
//!   the encoded header, signature and body (C01's byte-level quantifier): each must be rejected
//!   and leave the store unchanged.
//! * `record`: seeded random multi-author histories on the real code, one NDJSON event per spec
//!   action, validated by Trace_OpLog.tla.
use std::cell::RefCell;
use std::collections::{BTreeMap, BTreeSet, VecDeque};
use std::future::Future;
use std::pin::Pin;
use std::task::{Context, Poll};

use p2panda_core::cbor::decode_cbor;
use p2panda_core::{Body, Hash, Header, Operation, Signature, SigningKey, VerifyingKey};
use p2panda_store::logs::LogStore;
use p2panda_store::{SqliteStore, SqliteStoreBuilder, Transaction};
use p2panda_store::operations::OperationStore;
use p2panda_stream::Processor;
use p2panda_stream::ingest::{IngestError, ingest_operation};
use p2panda_stream::log_prune::{LogPrune, LogPruneArgs, LogPruneResult};
use serde::{Deserialize, Serialize};
use vh_common::{Args, Outcome, Rng, TraceWriter, Value, catch, json, read_ndjson, unknown};

/// Header extensions of the harness world: the log the author wrote the operation for and the
/// prune flag (signed together with the rest of the header, like the node's `Extensions`).
#[derive(Clone, Debug, PartialEq, Eq, Serialize, Deserialize)]
pub struct Ext {
    pub log: String,
    pub prune: bool,
}

pub type Op = Operation<Ext>;
type Prune = LogPrune<SqliteStore, LogPruneArgs<VerifyingKey, String, u32>, String, Ext>;


/// Records a violation; further violations of the same (property, signature) are only counted
/// (one replayable case per failure class, and rare classes are not crowded out of the result).
fn viol(out: &mut Outcome, property: &str, signature: &str, detail: String, case: Value) {
    if out.violations.iter().any(|v| v.property == property && v.signature == signature) {
        out.violations_total += 1;
    } else {
        out.violation(property, signature, detail, case);
    }
}

/// Vacuity guard: `--require a,b` makes a run without a single occurrence of counter a or b a tool error.
fn require_counters(out: &Outcome, args: &Args) {
    if let Some(req) = args.extra.get("require") {
        for c in req.split(',').filter(|c| !c.is_empty()) {
            if out.counters.get(c).copied().unwrap_or(0) == 0 {
                eprintln!("vacuous run: counter `{c}` is zero");
                std::process::exit(2);
            }
        }
    }
}

pub fn run(args: &Args) {
    match args.mode.as_str() {
        "replay" => replay(args),
        "record" => record(args),
        _ => unknown(args),
    }
}

// ------------------------------------------------------------------------------------------
// The concrete world

/// `[a, l, seq, v]` id record of the spec -> flat key.
fn idkey(v: &Value) -> String {
    format!(
        "{}|{}|{}|{}",
        v["a"].as_str().unwrap_or("?"),
        v["l"].as_str().unwrap_or("?"),
        v["seq"].as_i64().unwrap_or(-9),
        v["v"].as_str().unwrap_or("?")
    )
}

fn mkid(a: &str, l: &str, seq: u32, v: &str) -> Value {
    json!({"a": a, "l": l, "seq": seq, "v": v})
}

/// What the harness knows about a concrete operation it built (the *intended* abstract fields).
#[derive(Clone, Debug)]
pub struct Info {
    pub key: String,
    pub a: String,
    /// the log the operation is delivered under (log id argument / arrival topic)
    pub l: String,
    /// the log its signed header names
    pub ol: String,
    pub seq: u32,
    pub prune: bool,
    pub bl: Option<String>,
    pub wf: bool,
}

pub struct World {
    salt: String,
    /// honest prune positions
    pub prune: BTreeSet<(String, String, u32)>,
    keys: BTreeMap<String, SigningKey>,
    names: BTreeMap<VerifyingKey, String>,
    honest: BTreeMap<(String, String, u32), Op>,
    /// operation hash -> info of the operation with that hash
    pub by_hash: BTreeMap<Hash, Info>,
    /// `Some(m)`: boundary relabelling - the spec's highest sequence number `m` stands for
    /// `u32::MAX` in chains whose top operation carries the prune flag (order and all verdicts of
    /// the spec are preserved: a prune-flagged operation needs no predecessor).
    pub top_max: Option<u32>,
    /// `Some(f)`: the GapLinked parameter `f` (the spec's MaxSeq + 2, "far jump") is realised as
    /// seq_num u32::MAX
    pub gap_far: Option<u32>,
}

impl World {
    pub fn new(salt: String) -> World {
        World {
            salt,
            prune: BTreeSet::new(),
            keys: BTreeMap::new(),
            names: BTreeMap::new(),
            honest: BTreeMap::new(),
            by_hash: BTreeMap::new(),
            top_max: None,
            gap_far: None,
        }
    }

    /// spec sequence number -> concrete sequence number of the honest chain (a, l)
    pub fn cseq(&self, a: &str, l: &str, s: u32) -> u32 {
        match self.top_max {
            Some(m) if s == m && self.prune.contains(&(a.to_string(), l.to_string(), m)) => u32::MAX,
            _ => s,
        }
    }

    /// concrete sequence number -> spec sequence number
    pub fn aseq(&self, c: u32) -> u32 {
        match (self.top_max, self.gap_far) {
            (Some(m), _) if c == u32::MAX => m,
            (None, Some(f)) if c == u32::MAX => f,
            _ => c,
        }
    }

    pub fn key(&mut self, name: &str) -> SigningKey {
        if let Some(k) = self.keys.get(name) {
            return k.clone();
        }
        let seed = Hash::digest(format!("vh-oplog/{}/{}", self.salt, name).as_bytes());
        let k = SigningKey::from_bytes(seed.as_bytes());
        self.keys.insert(name.to_string(), k.clone());
        self.names.insert(k.verifying_key(), name.to_string());
        k
    }

    pub fn vk(&mut self, name: &str) -> VerifyingKey {
        self.key(name).verifying_key()
    }

    pub fn author_names(&self) -> Vec<String> {
        self.keys.keys().cloned().collect()
    }

    pub fn name_of(&self, vk: &VerifyingKey) -> String {
        self.names.get(vk).cloned().unwrap_or_else(|| format!("key:{}", vk.to_hex()))
    }

    fn body_for(a: &str, l: &str, s: u32) -> (Option<Body>, bool) {
        // (payload the header commits to, is the body attached?)
        match s % 3 {
            0 => (Some(Body::new(format!("payload of {a}/{l}/{s}").as_bytes())), true),
            1 => (None, false),
            _ => (Some(Body::new(format!("withheld payload of {a}/{l}/{s}").as_bytes())), false),
        }
    }

    /// The one honest operation of author `a` in log `l` at `s` (non-equivocating world).
    pub fn honest(&mut self, a: &str, l: &str, s: u32) -> Op {
        let k = (a.to_string(), l.to_string(), s);
        if let Some(op) = self.honest.get(&k) {
            return op.clone();
        }
        let backlink = if s == 0 { None } else { Some(self.honest(a, l, s - 1).hash) };
        let sk = self.key(a);
        let (payload, attached) = Self::body_for(a, l, s);
        let prune = self.prune.contains(&k);
        let mut header = Header {
            version: 1,
            verifying_key: sk.verifying_key(),
            signature: None,
            payload_size: payload.as_ref().map(|b| b.size()).unwrap_or(0),
            payload_hash: payload.as_ref().map(|b| b.hash()),
            seq_num: self.cseq(a, l, s),
            backlink,
            extensions: Ext { log: l.to_string(), prune },
        };
        header.sign(&sk);
        let op = Operation {
            hash: header.hash(),
            header,
            body: if attached { payload } else { None },
        };
        self.honest.insert(k, op.clone());
        self.by_hash.insert(
            op.hash,
            Info {
                key: format!("{a}|{l}|{s}|Honest"),
                a: a.to_string(),
                l: l.to_string(),
                ol: l.to_string(),
                seq: s,
                prune,
                bl: if s == 0 { None } else { Some(format!("{a}|{l}|{}|Honest", s - 1)) },
                wf: true,
            },
        );
        op
    }

    /// Realises a forgery class of the spec by actual mutation of the honest operation `base`.
    /// `param` is the class parameter (author name / sequence number), `tweak` varies the concrete
    /// bytes (which signature bit, ...) without leaving the class.
    pub fn concretise(&mut self, cls: &str, param: &str, base: &Op, tweak: u64) -> Op {
        let mut h = base.header.clone();
        let mut body = base.body.clone();
        let author = self.name_of(&h.verifying_key);
        match cls {
            "Honest" | "CrossLog" => {}
            "BadSig" => {
                let mut sig = h.signature.expect("signed").to_bytes();
                let bit = (tweak % 512) as usize;
                sig[bit / 8] ^= 1 << (bit % 8);
                h.signature = Some(Signature::from_bytes(&sig));
            }
            // signed by the claimed author, but malformed
            "BadVersion" => {
                h.version = if tweak % 2 == 0 { 2 } else { 0 };
                h.sign(&self.key(&author));
            }
            "PayloadInfoInconsistent" => {
                if h.payload_hash.is_some() {
                    h.payload_size = 0;
                } else {
                    h.payload_size = 5;
                }
                h.sign(&self.key(&author));
            }
            "BacklinkSeqInconsistent" => {
                if h.seq_num > 0 {
                    h.backlink = None;
                } else {
                    h.backlink = Some(Hash::digest(b"a backlink at seq 0"));
                }
                h.sign(&self.key(&author));
            }
            "BodyMismatch" => {
                body = Some(Body::new(b"this is not the body the header commits to"));
            }
            // header field changed, signature left as it was
            "ClaimOtherAuthor" => h.verifying_key = self.vk(param),
            "PruneFlipped" => h.extensions.prune = !h.extensions.prune,
            "SeqChanged" => h.seq_num = self.cseq(&author, &h.extensions.log.clone(), param.parse().expect("seq param")),
            "BacklinkChanged" => h.backlink = Some(Hash::digest(b"elsewhere")),
            "ForgedPrune" => {
                h.verifying_key = self.vk(param);
                h.extensions.prune = true;
                let mut rng = Rng::new(tweak ^ 0xF0F0);
                let mut sig = [0u8; 64];
                sig.copy_from_slice(&rng.bytes(64));
                h.signature = Some(Signature::from_bytes(&sig));
            }
            // verifying key replaced AND re-signed by the attacker: a valid operation of the attacker
            "Resigned" => {
                let sk = self.key(param);
                h.verifying_key = sk.verifying_key();
                h.sign(&sk);
            }
            // signed by the log's own author: skips at least one sequence number after `base`, which it
            // backlinks to; no prune flag
            "GapLinked" => {
                let x: u32 = param.parse().expect("gap seq param");
                h.seq_num = if Some(x) == self.gap_far { u32::MAX } else { x };
                h.backlink = Some(base.hash);
                h.extensions.prune = false;
                h.sign(&self.key(&author));
            }
            // the attacker's well-linked mirror of the victim's chain
            "ResignedLinked" => {
                let sk = self.key(param);
                h.verifying_key = sk.verifying_key();
                if h.seq_num > 0 {
                    let (l, s) = (h.extensions.log.clone(), self.aseq(h.seq_num));
                    let prev_base = self.honest(&author, &l, s - 1);
                    let prev = self.concretise("ResignedLinked", param, &prev_base, 0);
                    h.backlink = Some(prev.hash);
                }
                h.sign(&sk);
            }
            other => {
                eprintln!("unknown forgery class {other}");
                std::process::exit(2);
            }
        }
        Operation { hash: h.hash(), header: h, body }
    }

    pub fn register(&mut self, op: &Op, info: Info) {
        // a copy with a foreign BODY has the header (and hash) of the honest operation: rows with
        // that hash are rows of the honest operation
        self.by_hash.entry(op.hash).or_insert(info);
    }
}

// ------------------------------------------------------------------------------------------
// The implementation side: store, ingest, prune, projection

#[derive(Clone, Debug, PartialEq, Eq, PartialOrd, Ord)]
pub struct Row {
    pub key: String,
    pub a: String,
    pub l: String,
    pub seq: u32,
    pub prune: bool,
    pub hash: Hash,
    pub backlink: Option<Hash>,
}

pub struct Impl {
    pub store: SqliteStore,
    prune: Prune,
}

thread_local! {
    /// database files to remove at exit
    static FILES: RefCell<Vec<String>> = const { RefCell::new(Vec::new()) };
}

fn remove_files() {
    FILES.with(|f| {
        for path in f.borrow_mut().drain(..) {
            for suffix in ["", "-wal", "-shm", "-journal"] {
                let _ = std::fs::remove_file(format!("{path}{suffix}"));
            }
        }
    });
}

#[derive(Clone, Copy, Debug, PartialEq, Eq)]
pub enum Res {
    Inserted,
    AlreadyExists,
    Rejected,
}

impl Res {
    pub fn name(&self) -> &'static str {
        match self {
            Res::Inserted => "Inserted",
            Res::AlreadyExists => "AlreadyExists",
            Res::Rejected => "Rejected",
        }
    }
}

impl Impl {
    pub async fn new() -> Impl {
        let store = SqliteStore::temporary().await;
        Impl { prune: LogPrune::new(store.clone()), store }
    }

    /// A FILE-backed store with the default connection pool (the in-memory store has a single
    /// connection, which serialises plain pool reads behind an open transaction and would hide a
    /// read that was moved out of the transaction). The file lives in tmpfs and is removed at once
    /// (SQLite keeps working on the open handles), so nothing outlives the process.
    pub async fn new_file() -> Impl {
        let dir = if std::path::Path::new("/dev/shm").is_dir() { "/dev/shm".to_string() } else { ".".to_string() };
        let path = format!("{dir}/vh-oplog-{}-{}.sqlite", std::process::id(), Rng::new(std::process::id() as u64 ^ 0xF11E).next_u64());
        let _ = std::fs::remove_file(&path);
        let store = SqliteStoreBuilder::new().database_url(&format!("sqlite://{path}")).build().await.expect("file store");
        FILES.with(|f| f.borrow_mut().push(path));
        Impl { prune: LogPrune::new(store.clone()), store }
    }

    /// REAL concurrent `ingest_operation` calls on the one store. The harness plays "another writer":
    /// it holds the store's transaction permit while the calls are started one after the other (each
    /// is polled until it is parked), so they queue up at `store.begin()` in the given order; then
    /// the permit is released and all calls are driven to completion.
    ///
    /// Returns each call's verdict and the order in which the calls completed. A call returns in the
    /// same poll in which it dropped the permit, so on this single-threaded runtime the completion
    /// order of the calls that took a transaction IS the serial order of their transactions.
    pub async fn ingest_concurrently(&self, calls: &[(Op, String)]) -> Result<(Vec<Res>, Vec<usize>), String> {
        let permit = self.store.begin().await.map_err(|e| e.to_string())?;
        let order: RefCell<Vec<usize>> = RefCell::new(Vec::new());
        let mut futs: Vec<Option<Pin<Box<dyn Future<Output = Result<Res, String>> + '_>>>> = Vec::new();
        let mut results: Vec<Option<Result<Res, String>>> = vec![None; calls.len()];
        // a waker that only notes that something moved (completion of an I/O the call waits for)
        struct Flag(std::sync::atomic::AtomicBool);
        impl futures_util::task::ArcWake for Flag {
            fn wake_by_ref(arc_self: &std::sync::Arc<Self>) {
                arc_self.0.store(true, std::sync::atomic::Ordering::SeqCst);
            }
        }
        let flag = std::sync::Arc::new(Flag(std::sync::atomic::AtomicBool::new(false)));
        let waker = futures_util::task::waker(flag.clone());
        let mut cx = Context::from_waker(&waker);
        for (i, (op, log)) in calls.iter().enumerate() {
            let order = &order;
            futs.push(Some(Box::pin(async move {
                let r = self.ingest(op, log).await;
                order.borrow_mut().push(i);
                r
            })));
            // park it: whatever the call does before begin() (validation; in a broken version also
            // reads) gets wall time to finish, then it must sit in the permit queue
            // (a call waiting for the permit is never woken while the harness holds it: quiet for
            //  three rounds = parked; at most 60 rounds)
            let mut quiet = 0;
            for _ in 0..60 {
                flag.0.store(false, std::sync::atomic::Ordering::SeqCst);
                for (j, slot) in futs.iter_mut().enumerate() {
                    if let Some(f) = slot {
                        if let Poll::Ready(r) = f.as_mut().poll(&mut cx) {
                            results[j] = Some(r);
                            *slot = None;
                        }
                    }
                }
                if futs[i].is_none() {
                    break;
                }
                std::thread::sleep(std::time::Duration::from_micros(250));
                if flag.0.load(std::sync::atomic::Ordering::SeqCst) {
                    quiet = 0;
                } else {
                    quiet += 1;
                    if quiet >= 3 {
                        break;
                    }
                }
            }
        }
        self.store.rollback(permit).await.map_err(|e| e.to_string())?;
        // all remaining calls are driven TOGETHER (whichever got the permit must be polled), with
        // the task's real waker (tokio / sqlx re-register it on the next poll)
        let rest = futures_util::future::join_all(futs.iter_mut().map(|slot| async move {
            match slot.take() {
                Some(f) => Some(f.await),
                None => None,
            }
        }))
        .await;
        for (j, r) in rest.into_iter().enumerate() {
            if let Some(r) = r {
                results[j] = Some(r);
            }
        }
        drop(futs);
        let mut out = Vec::new();
        for r in results {
            out.push(r.expect("every call returned")?);
        }
        Ok((out, order.into_inner()))
    }

    /// Empties the tables ingest writes to (one in-memory store is reused for many behaviours:
    /// creating a store runs all migrations, which dominates the cost of a short behaviour).
    pub async fn wipe(&self) -> Result<(), String> {
        self.store
            .execute(async |pool| {
                sqlx::query("DELETE FROM operations_v1").execute(pool).await?;
                sqlx::query("DELETE FROM topics_v1").execute(pool).await?;
                Ok(())
            })
            .await
            .map_err(|e| e.to_string())
    }

    /// `ingest_operation` as the node calls it: log id and prune flag are taken from the header's
    /// extensions (streams/stream.rs:343-349).
    pub async fn ingest(&self, op: &Op, log: &str) -> Result<Res, String> {
        let log = log.to_string();
        match ingest_operation(&self.store, op, &log, &String::from("topic"), op.header.extensions.prune).await {
            Ok(true) => Ok(Res::Inserted),
            Ok(false) => Ok(Res::AlreadyExists),
            Err(IngestError::InvalidOperation(_)) => Ok(Res::Rejected),
            Err(IngestError::StoreError(e)) => Err(e),
        }
    }

    /// One event through the real `LogPrune` processor. `None` = `LogPruneArgs::Ignore`.
    pub async fn log_prune(&self, args: Option<(VerifyingKey, String, u32)>) -> Result<Option<u64>, String> {
        let input = match args {
            Some((author, log_id, seq_num)) => LogPruneArgs::PruneEntriesUntil { author, log_id, seq_num },
            None => LogPruneArgs::Ignore,
        };
        if let Err((_, e)) = self.prune.process(input).await {
            return Err(e.to_string());
        }
        match self.prune.next().await {
            Ok((_, LogPruneResult::Pruned { num_entries })) => Ok(Some(num_entries)),
            Ok((_, LogPruneResult::Noop)) => Ok(None),
            Err((_, e)) => Err(e.to_string()),
        }
    }

    /// All stored entries of the given (author, log) pairs through `LogStore::get_log_entries`.
    pub async fn project(&self, world: &World, authors: &[(String, VerifyingKey)], logs: &[String]) -> Result<BTreeSet<Row>, String> {
        let mut rows = BTreeSet::new();
        for (name, vk) in authors {
            for l in logs {
                let entries = <SqliteStore as LogStore<Op, VerifyingKey, String, u32, Hash>>::get_log_entries(
                    &self.store, vk, l, None, None,
                )
                .await
                .map_err(|e| e.to_string())?;
                for (op, _) in entries.unwrap_or_default() {
                    let key = world
                        .by_hash
                        .get(&op.hash)
                        .map(|i| i.key.clone())
                        .unwrap_or_else(|| format!("unknown|{}", op.hash.to_hex()));
                    rows.insert(Row {
                        key,
                        a: name.clone(),
                        l: l.clone(),
                        seq: world.aseq(op.header.seq_num),
                        prune: op.header.extensions.prune,
                        hash: op.hash,
                        backlink: op.header.backlink,
                    });
                }
            }
        }
        Ok(rows)
    }

    pub async fn total_rows(&self) -> Result<i64, String> {
        self.store
            .execute(async |pool| {
                let n: (i64,) = sqlx::query_as("SELECT COUNT(*) FROM operations_v1").fetch_one(pool).await?;
                Ok(n.0)
            })
            .await
            .map_err(|e| e.to_string())
    }

    pub async fn has(&self, hash: &Hash) -> Result<bool, String> {
        <SqliteStore as OperationStore<Op, Hash>>::has_operation(&self.store, hash).await.map_err(|e| e.to_string())
    }
}

fn keys_of(rows: &BTreeSet<Row>) -> BTreeSet<String> {
    rows.iter().map(|r| r.key.clone()).collect()
}

fn height(rows: &BTreeSet<Row>, a: &str, l: &str) -> i64 {
    rows.iter().filter(|r| r.a == a && r.l == l).map(|r| r.seq as i64).max().unwrap_or(-1)
}

fn logs_of(rows: &BTreeSet<Row>) -> BTreeSet<(String, String)> {
    rows.iter().map(|r| (r.a.clone(), r.l.clone())).collect()
}

// ------------------------------------------------------------------------------------------
// The properties, evaluated on the implementation's own observables

/// A finding: (property, signature, detail).
pub type Finding = (&'static str, String, String);

#[derive(Default)]
pub struct Judge {
    /// prune points (author, log, seq) the implementation itself INSERTED (C05)
    ingested_prunes: BTreeSet<(String, String, u32)>,
    /// prune points whose LogPrune ran as the effect of an accepted valid operation (C05)
    applied: BTreeSet<(String, String, u32)>,
}

impl Judge {
    /// After `ingest_operation` returned `res` for the operation described by `info`.
    pub fn after_ingest(&mut self, info: &Info, cls: &str, op: &Op, res: Res, before: &BTreeSet<Row>, after: &BTreeSet<Row>, has_after: bool) -> Vec<Finding> {
        let mut f: Vec<Finding> = Vec::new();
        // C01
        if !info.wf && res != Res::Rejected {
            f.push(("C01", format!("invalid-operation-accepted:{cls}"), format!("{} ({cls}) must fail validation but ingest returned {}", info.key, res.name())));
        }
        if res == Res::Rejected && before != after {
            f.push(("C01", "rejected-operation-changed-store".into(), format!("{} was rejected but the store changed: {:?} -> {:?}", info.key, keys_of(before), keys_of(after))));
        }
        if res == Res::Rejected && has_after && !before.iter().any(|r| r.hash == op.hash) {
            f.push(("C01", "rejected-operation-is-stored".into(), format!("{} was rejected but has_operation is true", info.key)));
        }
        if res != Res::Rejected && !has_after {
            f.push(("C01", "accepted-operation-not-stored".into(), format!("{} was reported {} but has_operation is false", info.key, res.name())));
        }
        // C04: ingest never deletes
        if before.difference(after).next().is_some() {
            f.push(("C04", "ingest-deleted-entries".into(), format!("ingest of {} removed {:?}", info.key, before.difference(after).map(|r| r.key.clone()).collect::<Vec<_>>())));
        }
        // C03
        for (a, l) in logs_of(before) {
            if height(after, &a, &l) < height(before, &a, &l) {
                f.push(("C03", "height-decreased".into(), format!("height of {a}/{l} went from {} to {}", height(before, &a, &l), height(after, &a, &l))));
            }
        }
        if res == Res::Inserted {
            let log: Vec<&Row> = before.iter().filter(|r| r.a == info.a && r.l == info.l).collect();
            let h = log.iter().map(|r| r.seq as i64).max().unwrap_or(-1);
            let s = info.seq as i64;
            let flagged = info.prune;
            let non_extending = if log.is_empty() {
                s > 0 && !flagged
            } else if !flagged {
                s != h + 1 || !log.iter().any(|r| r.seq as i64 == h && Some(r.hash) == op.header.backlink)
            } else {
                s <= h
            };
            if non_extending {
                f.push(("C03", "non-extending-operation-accepted".into(), format!("{} (seq {s}, prune flag {flagged}) was inserted into a log of height {h}", info.key)));
            }
            if after.iter().filter(|r| r.a == info.a && r.l == info.l && r.seq == info.seq).count() > 1 {
                f.push(("C03", "duplicate-seq".into(), format!("{}/{} holds two entries with seq {}", info.a, info.l, s)));
            }
            // C05
            if let Some(p) = self.ingested_prunes.iter().find(|p| p.0 == info.a && p.1 == info.l && info.seq < p.2) {
                f.push(("C05", "stored-below-prune-point".into(), format!("{} (seq {}) was stored although a prune-flagged operation at seq {} of the same log had been ingested before", info.key, s, p.2)));
            }
            if flagged {
                self.ingested_prunes.insert((info.a.clone(), info.l.clone(), info.seq));
            }
        }
        f.extend(self.chain_check(after));
        f
    }

    /// Every stored entry with seq > 0 and no prune flag backlinks to the stored entry before it.
    fn chain_check(&self, rows: &BTreeSet<Row>) -> Vec<Finding> {
        let mut f = Vec::new();
        for r in rows {
            if r.seq > 0 && !r.prune {
                let ok = rows.iter().any(|p| p.a == r.a && p.l == r.l && p.seq + 1 == r.seq && Some(p.hash) == r.backlink);
                if !ok {
                    f.push(("C03", "broken-chain".into(), format!("stored entry {} (seq {}, no prune flag) has no stored predecessor it backlinks to", r.key, r.seq)));
                }
            }
        }
        for p in &self.applied {
            if let Some(r) = rows.iter().find(|r| r.a == p.0 && r.l == p.1 && r.seq < p.2) {
                f.push(("C05", "entry-below-applied-prune-point".into(), format!("{} (seq {}) is stored below the applied prune point {}", r.key, r.seq, p.2)));
            }
        }
        f
    }

    /// After the LogPrune stage ran for the event of `info` whose ingest result was `res`.
    /// `ran` = the args were PruneEntriesUntil (harness-level knowledge; None if unknown).
    pub fn after_prune(&mut self, info: &Info, res: Res, before: &BTreeSet<Row>, after: &BTreeSet<Row>) -> Vec<Finding> {
        let mut f: Vec<Finding> = Vec::new();
        let deleted: Vec<&Row> = before.difference(after).collect();
        let justified = info.wf && info.prune && res != Res::Rejected;
        if !deleted.is_empty() {
            if !justified {
                let sig = if res == Res::Rejected { "prune-after-failed-ingest" } else { "prune-without-valid-prune-operation" };
                f.push(("C04", sig.into(), format!("{} (valid: {}, prune flag: {}, ingest: {}) deleted {:?}", info.key, info.wf, info.prune, res.name(), deleted.iter().map(|r| r.key.clone()).collect::<Vec<_>>())));
            } else if info.l != info.ol {
                f.push(("C04", "cross-log-prune".into(), format!("{} is an operation of log {}/{} that arrived on the topic of log {}: it deleted {:?} of {}/{}", info.key, info.a, info.ol, info.l, deleted.iter().map(|r| r.key.clone()).collect::<Vec<_>>(), info.a, info.l)));
            } else if deleted.iter().any(|r| r.a != info.a || r.l != info.l || r.seq >= info.seq) {
                f.push(("C04", "prune-outside-own-log-prefix".into(), format!("{} (prune point {}/{}/{}) deleted {:?}", info.key, info.a, info.l, info.seq, deleted.iter().map(|r| r.key.clone()).collect::<Vec<_>>())));
            }
        }
        if justified && info.l == info.ol {
            if let Some(r) = after.iter().find(|r| r.a == info.a && r.l == info.l && r.seq < info.seq) {
                f.push(("C04", "prune-incomplete".into(), format!("after the prune point {}/{}/{} was processed {} (seq {}) is still stored", info.a, info.l, info.seq, r.key, r.seq)));
            }
            self.applied.insert((info.a.clone(), info.l.clone(), info.seq));
        }
        if after.difference(before).next().is_some() {
            f.push(("C04", "prune-added-entries".into(), "LogPrune added rows".into()));
        }
        for (a, l) in logs_of(before) {
            if height(after, &a, &l) < height(before, &a, &l) {
                f.push(("C03", "height-decreased".into(), format!("height of {a}/{l} went from {} to {}", height(before, &a, &l), height(after, &a, &l))));
            }
        }
        f.extend(self.chain_check(after));
        f
    }
}

// ------------------------------------------------------------------------------------------
// replay: spec -> impl

struct Pending {
    op: Op,
    info: Info,
    cls: String,
    log: String,
    /// recorder: the Submit event, written right before the call's Ingest event (the order of the
    /// Submit events in the trace is the serial order of the calls)
    submit_ev: Option<Value>,
}

fn expected_store(step: &Value) -> BTreeSet<String> {
    step["store"].as_array().map(|a| a.iter().map(idkey).collect()).unwrap_or_default()
}

struct Expand {
    gap_far: Option<u32>,
    concurrent: bool,
    top_max: Option<u32>,
    every: usize,
    flips: usize,
    all_bits: bool,
    counter: usize,
    rng: Rng,
}

fn replay(args: &Args) {
    let behaviours = read_ndjson(args.input.as_ref().expect("--in"));
    let mut out = Outcome::new(
        args,
        "every TLC-exported behaviour of MC_OpLog executed on ingest_operation + LogPrune over a fresh in-memory SqliteStore \
         (real keys, signatures, CBOR); result of every Ingest/Prune step and the stored set after it compared with the spec, \
         and C01/C03/C04/C05 evaluated on the implementation's own before/after store; distinct = behaviours containing a \
         rejected, deduplicated or pruning step, keyed by world + step list; expansion = byte-level mutations of a valid \
         operation (counter `expansion_mutations`), each must be rejected with the store unchanged",
    );
    let rt = tokio::runtime::Builder::new_current_thread().enable_all().build().expect("runtime");
    let mut expand = Expand {
        gap_far: args.extra.get("gap_far").and_then(|v| v.parse().ok()),
        concurrent: args.extra.get("concurrent").map(|v| v == "1").unwrap_or(false),
        top_max: args.extra.get("top_max").and_then(|v| v.parse().ok()),
        every: args.extra_usize("expand_every", 0),
        flips: args.extra_usize("flips", 200),
        all_bits: args.extra.get("all_bits").map(|v| v == "1").unwrap_or(false),
        counter: 0,
        rng: Rng::new(args.seed ^ 0xE4A1),
    };
    let mut imp: Option<Impl> = None;
    for (bi, b) in behaviours.iter().enumerate() {
        out.eval();
        if imp.is_none() {
            imp = Some(if expand.concurrent { rt.block_on(Impl::new_file()) } else { rt.block_on(Impl::new()) });
        }
        // `bin/check Cxx --replay <case>` of an expansion finding: the case wraps the behaviour;
        // run it with the expansion at every honest ingest step
        let b = if b.get("behaviour").is_some() {
            expand.every = 1;
            &b["behaviour"]
        } else {
            b
        };
        let r = catch(|| rt.block_on(async {
            let imp = imp.as_ref().unwrap();
            imp.wipe().await?;
            replay_one(imp, b, bi, &mut out, &mut expand).await
        }));
        match r {
            Ok(Ok(())) => {}
            Ok(Err(e)) => {
                viol(&mut out, "*", "store-error", format!("store / harness error: {e}"), b.clone());
                imp = None; // a transaction may be left open: start from a fresh store
            }
            Err(p) => {
                viol(&mut out, "*", "panic", format!("the code under test panicked: {p}"), b.clone());
                imp = None;
            }
        }
    }
    drop(imp);
    remove_files();
    require_counters(&out, args);
    out.write(args);
}

fn report(out: &mut Outcome, findings: Vec<Finding>, b: &Value, step: usize) {
    for (prop, sig, detail) in findings {
        viol(out, prop, &sig, format!("step {step}: {detail}"), b.clone());
    }
}

async fn replay_one(imp: &Impl, b: &Value, bi: usize, out: &mut Outcome, expand: &mut Expand) -> Result<(), String> {
    let mut world = World::new(format!("b{bi}"));
    world.top_max = expand.top_max;
    world.gap_far = expand.gap_far;
    for p in b["world"].as_array().cloned().unwrap_or_default() {
        world.prune.insert((
            p[0].as_str().expect("a").to_string(),
            p[1].as_str().expect("l").to_string(),
            p[2].as_u64().expect("s") as u32,
        ));
    }
    let steps = b["steps"].as_array().expect("steps");
    // all author names and logs of this behaviour (so that the projection sees every row)
    let mut logs: BTreeSet<String> = BTreeSet::new();
    for st in steps {
        if st["act"] == "Submit" {
            world.key(st["item"]["a"].as_str().expect("a"));
            world.key(st["base"]["a"].as_str().expect("base a"));
            logs.insert(st["item"]["l"].as_str().expect("l").to_string());
        }
    }
    let logs: Vec<String> = logs.into_iter().collect();
    let authors: Vec<(String, VerifyingKey)> = world.author_names().into_iter().map(|n| { let vk = world.vk(&n); (n, vk) }).collect();

    let mut judge = Judge::default();
    let mut in_q: VecDeque<Pending> = VecDeque::new();
    let mut prune_q: VecDeque<(Pending, Res)> = VecDeque::new();
    let mut cur = imp.project(&world, &authors, &logs).await?;
    let mut nontrivial = false;
    let mut batch_done_until = 0usize;

    for (si, st) in steps.iter().enumerate() {
        match st["act"].as_str() {
            Some("Submit") => {
                let item = &st["item"];
                let cls = st["cls"].as_str().expect("cls").to_string();
                let base = &st["base"];
                let base_op = world.honest(base["a"].as_str().unwrap(), base["l"].as_str().unwrap(), base["seq"].as_u64().unwrap() as u32);
                let tag = item["id"]["v"].as_str().unwrap_or("");
                let param = tag.split_once(':').map(|x| x.1).unwrap_or("");
                let op = world.concretise(&cls, param, &base_op, (bi * 31 + si) as u64);
                let info = Info {
                    key: idkey(&item["id"]),
                    a: item["a"].as_str().unwrap().to_string(),
                    l: item["l"].as_str().unwrap().to_string(),
        ol: item["ol"].as_str().unwrap().to_string(),
                    seq: item["seq"].as_u64().unwrap() as u32,
                    prune: item["prune"].as_bool().unwrap(),
                    bl: if item["bl"]["seq"].as_i64() == Some(-1) { None } else { Some(idkey(&item["bl"])) },
                    wf: item["wf"].as_bool().unwrap(),
                };
                // the concrete operation must carry exactly the header fields the spec item has
                let a_name = world.name_of(&op.header.verifying_key);
                if a_name != info.a || world.aseq(op.header.seq_num) != info.seq || op.header.extensions.prune != info.prune {
                    eprintln!("harness bug: concretisation of {cls} does not match the item: {item}");
                    std::process::exit(2);
                }
                if cls != "Honest" {
                    world.register(&op, info.clone());
                }
                out.count(&format!("class:{cls}"));
                in_q.push_back(Pending { op, log: info.l.clone(), info, cls, submit_ev: None });
            }
            // (the remaining Ingest steps of a batch that was already executed)
            Some("Ingest") if expand.concurrent && si < batch_done_until => {}
            Some("Ingest") if expand.concurrent => {
                // a batch: all queued calls run as REAL concurrent ingest_operation futures
                let k = in_q.len();
                let batch: Vec<Pending> = in_q.drain(..).collect();
                let ing_steps: Vec<&Value> = steps[si..].iter().take(k).collect();
                if k == 0 || ing_steps.len() != k || ing_steps.iter().any(|s| s["act"] != "Ingest") {
                    eprintln!("concurrent replay needs batch-shaped behaviours (Submit^k Ingest^k Prune^k)");
                    std::process::exit(2);
                }
                batch_done_until = si + k;
                let calls: Vec<(Op, String)> = batch.iter().map(|p| (p.op.clone(), p.log.clone())).collect();
                let (results, order) = imp.ingest_concurrently(&calls).await?;
                let after = imp.project(&world, &authors, &logs).await?;
                out.count(if k > 1 { "batch:concurrent" } else { "batch:single" });
                // calls that took a transaction, in the order they were queued vs. the order they ran
                let ran: Vec<usize> = order.iter().copied().filter(|i| batch[*i].info.wf).collect();
                let forced = ran.windows(2).all(|w| w[0] < w[1]);
                if !forced {
                    // the calls did not take the permit in queue order (a call was not parked yet when
                    // the next one was started): the spec's serial outcome is for another order - no verdict
                    out.count("batch:order-not-forced");
                    return Ok(());
                }
                let same_log = batch.iter().enumerate().any(|(i, p)| batch.iter().skip(i + 1).any(|q| q.info.a == p.info.a && q.info.l == p.info.l && q.op.hash != p.op.hash));
                if k > 1 && same_log {
                    out.count("batch:same-log-overlap");
                }
                let mut findings: Vec<Finding> = Vec::new();
                if cur.difference(&after).next().is_some() {
                    findings.push(("C04", "ingest-deleted-entries".into(), format!("a batch of ingests removed {:?}", cur.difference(&after).map(|r| r.key.clone()).collect::<Vec<_>>())));
                }
                // judge call by call in serial order: the store before call i is the store before the
                // batch plus the rows the earlier calls inserted
                let mut before_i = cur.clone();
                for (i, p) in batch.iter().enumerate() {
                    let res = results[i];
                    out.count(&format!("ingest:{}", res.name()));
                    let mut after_i = before_i.clone();
                    if res == Res::Inserted {
                        for row in after.iter().filter(|r| r.hash == p.op.hash) {
                            after_i.insert(row.clone());
                        }
                    }
                    // (has_operation is observed after the whole batch: it must agree with the rows)
                    let has = after_i.iter().any(|r| r.hash == p.op.hash);
                    if imp.has(&p.op.hash).await? != after.iter().any(|r| r.hash == p.op.hash) {
                        findings.push(("C01", "has-operation-disagrees-with-log".into(), format!("has_operation({}) disagrees with the stored logs", p.info.key)));
                    }
                    findings.extend(judge.after_ingest(&p.info, &p.cls, &p.op, res, &before_i, &after_i, has));
                    let want = ing_steps[i]["res"].as_str().expect("res");
                    if want != res.name() {
                        findings.push(("*", "ingest-result-differs-from-spec".into(), format!("concurrent ingest of {} returned {}, the specification (serial, queue order) says {}", p.info.key, res.name(), want)));
                    }
                    if res != Res::Inserted {
                        nontrivial = true;
                    }
                    before_i = after_i;
                }
                let want_store = expected_store(ing_steps[k - 1]);
                if keys_of(&after) != want_store {
                    findings.push(("*", "store-differs-from-spec".into(), format!("after {} concurrent ingests: stored {:?}, the specification says {:?}", k, keys_of(&after), want_store)));
                }
                let bad = !findings.is_empty();
                report(out, findings, b, si);
                cur = after;
                for (p, r) in batch.into_iter().zip(results) {
                    prune_q.push_back((p, r));
                }
                if bad {
                    return Ok(());
                }
            }
            Some("Ingest") => {
                let p = in_q.pop_front().expect("spec ingests only what was submitted");
                if p.cls == "Honest" && expand.every > 0 {
                    expand.counter += 1;
                    if expand.counter % expand.every == 0 {
                        expansion(imp, &mut world, &p, &cur, &authors, &logs, out, expand, b, si).await?;
                    }
                }
                let res = imp.ingest(&p.op, &p.log).await?;
                let after = imp.project(&world, &authors, &logs).await?;
                let has = imp.has(&p.op.hash).await?;
                out.count(&format!("ingest:{}", res.name()));
                let mut findings = judge.after_ingest(&p.info, &p.cls, &p.op, res, &cur, &after, has);
                let want = st["res"].as_str().expect("res");
                if want != res.name() {
                    findings.push(("*", "ingest-result-differs-from-spec".into(), format!("ingest of {} returned {}, the specification says {}", p.info.key, res.name(), want)));
                }
                let want_store = expected_store(st);
                if keys_of(&after) != want_store {
                    findings.push(("*", "store-differs-from-spec".into(), format!("after ingest of {}: stored {:?}, the specification says {:?}", p.info.key, keys_of(&after), want_store)));
                }
                if after.len() as i64 != imp.total_rows().await? {
                    findings.push(("C01", "stray-rows".into(), format!("operations_v1 holds {} rows but only {} are reachable through the logs of the known authors", imp.total_rows().await?, after.len())));
                }
                if res != Res::Inserted {
                    nontrivial = true;
                }
                let bad = !findings.is_empty();
                report(out, findings, b, si);
                cur = after;
                prune_q.push_back((p, res));
                if bad {
                    return Ok(());
                }
            }
            Some("Prune") => {
                let (p, res) = prune_q.pop_front().expect("spec prunes only what was ingested");
                let active = st["active"].as_bool().expect("active");
                let args = if active {
                    // exactly what Event::new reads: the header's verifying key and seq_num
                    if world.name_of(&p.op.header.verifying_key) != st["a"].as_str().unwrap() || world.aseq(p.op.header.seq_num) as u64 != st["until"].as_u64().unwrap() {
                        eprintln!("harness bug: prune args of the spec do not match the event's header: {st}");
                        std::process::exit(2);
                    }
                    Some((p.op.header.verifying_key, st["l"].as_str().unwrap().to_string(), p.op.header.seq_num))
                } else {
                    None
                };
                let got = imp.log_prune(args).await?;
                let after = imp.project(&world, &authors, &logs).await?;
                let mut findings = judge.after_prune(&p.info, res, &cur, &after);
                let want = st["pruned"].as_u64().expect("pruned");
                match (active, got) {
                    (true, Some(n)) if n == want => {}
                    (false, None) => {}
                    (_, got) => findings.push(("*", "prune-result-differs-from-spec".into(), format!("LogPrune for {} returned {:?}, the specification says active={active} pruned={want}", p.info.key, got))),
                }
                let want_store = expected_store(st);
                if keys_of(&after) != want_store {
                    findings.push(("*", "store-differs-from-spec".into(), format!("after LogPrune of {}: stored {:?}, the specification says {:?}", p.info.key, keys_of(&after), want_store)));
                }
                if got.unwrap_or(0) > 0 {
                    nontrivial = true;
                    out.count("prune:deleted");
                }
                let bad = !findings.is_empty();
                report(out, findings, b, si);
                cur = after;
                if bad {
                    return Ok(());
                }
            }
            other => {
                eprintln!("unknown step {other:?}");
                std::process::exit(2);
            }
        }
    }
    if nontrivial {
        out.mark_distinct(format!("{}|{}", b["world"], steps.iter().map(|s| format!("{}{}", s["act"].as_str().unwrap_or(""), s["item"]["id"])).collect::<Vec<_>>().join(",")));
    }
    out.sample(json!({"kind": "oplog", "world": b["world"], "steps": steps.len(), "first": steps.first()}));
    Ok(())
}

// ------------------------------------------------------------------------------------------
// C01: byte-level expansion of the spec's abstract "tampered copy"

/// All single mutations of the valid operation `p.op` tried at the current store state.
pub fn mutations(world: &mut World, op: &Op, flips: usize, all_bits: bool, rng: &mut Rng) -> Vec<(String, Option<Op>)> {
    let mut out: Vec<(String, Option<Op>)> = Vec::new();
    let base = op.header.clone();
    let author = world.name_of(&base.verifying_key);
    let other_hash = Hash::digest(b"some other hash");
    let mut push = |name: String, h: Header<Ext>, body: Option<Body>| {
        out.push((name, Some(Operation { hash: h.hash(), header: h, body })));
    };
    // --- header fields, signature untouched
    for v in [0u16, 2, 255, u16::MAX] {
        let mut h = base.clone();
        h.version = v;
        push(format!("version={v}"), h, op.body.clone());
    }
    for other in ["zz-foreign-1", "zz-foreign-2"] {
        let mut h = base.clone();
        h.verifying_key = world.vk(other);
        push(format!("verifying_key={other}"), h, op.body.clone());
    }
    for bit in [0usize, 7, 100, 255] {
        let mut k = *base.verifying_key.as_bytes();
        k[bit / 8] ^= 1 << (bit % 8);
        if let Ok(vk) = VerifyingKey::from_bytes(&k) {
            let mut h = base.clone();
            h.verifying_key = vk;
            push(format!("verifying_key^bit{bit}"), h, op.body.clone());
        }
    }
    {
        let mut h = base.clone();
        h.payload_size = h.payload_size.wrapping_add(1);
        push("payload_size+1".into(), h, op.body.clone());
        let mut h = base.clone();
        h.payload_size = if h.payload_size > 0 { h.payload_size - 1 } else { 7 };
        push("payload_size-1".into(), h, op.body.clone());
        let mut h = base.clone();
        h.payload_hash = Some(other_hash);
        push("payload_hash=other".into(), h, op.body.clone());
        let mut h = base.clone();
        h.payload_hash = if h.payload_hash.is_some() { None } else { Some(other_hash) };
        push("payload_hash toggled".into(), h, op.body.clone());
    }
    for s in [base.seq_num.wrapping_add(1), base.seq_num.wrapping_sub(1), if base.seq_num == 0 { 5 } else { 0 }, u32::MAX] {
        if s != base.seq_num {
            let mut h = base.clone();
            h.seq_num = s;
            push(format!("seq_num={s}"), h, op.body.clone());
        }
    }
    {
        let mut h = base.clone();
        h.backlink = Some(other_hash);
        push("backlink=other".into(), h, op.body.clone());
        if base.backlink.is_some() {
            let mut h = base.clone();
            h.backlink = None;
            push("backlink removed".into(), h, op.body.clone());
        }
        let mut h = base.clone();
        h.extensions.prune = !h.extensions.prune;
        push("prune flag flipped".into(), h, op.body.clone());
        let mut h = base.clone();
        h.extensions.log = format!("{}x", h.extensions.log);
        push("extension log changed".into(), h, op.body.clone());
    }
    // --- signature
    {
        let mut h = base.clone();
        h.signature = None;
        push("signature removed".into(), h, op.body.clone());
        let sig = base.signature.expect("signed").to_bytes();
        let bits: Vec<usize> = if all_bits { (0..512).collect() } else { (0..64).map(|i| i * 8 + (i % 8)).collect() };
        for bit in bits {
            let mut s = sig;
            s[bit / 8] ^= 1 << (bit % 8);
            let mut h = base.clone();
            h.signature = Some(Signature::from_bytes(&s));
            push(format!("signature^bit{bit}"), h, op.body.clone());
        }
        // signed by a foreign key, still claiming the original author
        let mut h = base.clone();
        h.sign(&world.key("zz-foreign-1"));
        push("re-signed with a foreign key".into(), h, op.body.clone());
        // signature of another valid operation of the same author
        let mut h = base.clone();
        let mut other = base.clone();
        other.seq_num = other.seq_num.wrapping_add(17);
        other.sign(&world.key(&author));
        h.signature = other.signature;
        push("signature of another operation".into(), h, op.body.clone());
    }
    // --- signed by the author but malformed (one validate_header / validate_operation branch each)
    for cls in ["BadVersion", "PayloadInfoInconsistent", "BacklinkSeqInconsistent"] {
        let m = world.concretise(cls, "", op, rng.next_u64());
        out.push((format!("signed malformed: {cls}"), Some(m)));
    }
    let mut push = |name: String, h: Header<Ext>, body: Option<Body>| {
        out.push((name, Some(Operation { hash: h.hash(), header: h, body })));
    };
    // --- body
    match &op.body {
        Some(body) => {
            let bytes = body.to_bytes();
            let positions: Vec<usize> = if all_bits { (0..bytes.len() * 8).collect() } else { (0..bytes.len()).map(|i| i * 8 + (i % 8)).collect() };
            for bit in positions {
                let mut m = bytes.clone();
                m[bit / 8] ^= 1 << (bit % 8);
                push(format!("body^bit{bit}"), base.clone(), Some(Body::new(&m)));
            }
            push("body truncated".into(), base.clone(), Some(Body::new(&bytes[..bytes.len() - 1])));
            let mut m = bytes.clone();
            m.push(0);
            push("body extended".into(), base.clone(), Some(Body::new(&m)));
            push("body emptied".into(), base.clone(), Some(Body::new(b"")));
        }
        None => {
            push("foreign body attached".into(), base.clone(), Some(Body::new(b"not the committed payload")));
            if base.payload_size > 0 {
                let n = base.payload_size as usize;
                push("same-size foreign body attached".into(), base.clone(), Some(Body::new(&vec![0x41; n])));
            }
        }
    }
    // --- single-bit flips of the ENCODED header (what a network peer can do to the bytes)
    let enc = base.to_bytes();
    let nbits = enc.len() * 8;
    let positions: Vec<usize> = if all_bits { (0..nbits).collect() } else { (0..flips).map(|_| rng.below(nbits as u64) as usize).collect() };
    for bit in positions {
        let mut m = enc.clone();
        m[bit / 8] ^= 1 << (bit % 8);
        match decode_cbor::<Header<Ext>, _>(&m[..]) {
            Ok(h) => {
                if h == base {
                    out.push((format!("encoded^bit{bit} decodes to the same header"), None));
                } else {
                    out.push((format!("encoded^bit{bit}"), Some(Operation { hash: h.hash(), header: h, body: op.body.clone() })));
                }
            }
            Err(_) => out.push((format!("encoded^bit{bit} undecodable"), None)),
        }
    }
    out
}

#[allow(clippy::too_many_arguments)]
async fn expansion(imp: &Impl, world: &mut World, p: &Pending, cur: &BTreeSet<Row>, authors: &[(String, VerifyingKey)], logs: &[String], out: &mut Outcome, expand: &mut Expand, b: &Value, si: usize) -> Result<(), String> {
    let rows_before = imp.total_rows().await?;
    let muts = mutations(world, &p.op, expand.flips, expand.all_bits, &mut expand.rng);
    out.count("expansion_points");
    for (name, m) in muts {
        let Some(m) = m else {
            out.count(if name.ends_with("undecodable") { "expansion_rejected_at_decode" } else { "expansion_noop_mutations" });
            continue;
        };
        out.count("expansion_mutations");
        let log = m.header.extensions.log.clone();
        // (a mutant that only differs in the body has the hash of the original, which may be stored)
        let had = imp.has(&m.hash).await?;
        let res = imp.ingest(&m, &log).await?;
        let rows_after = imp.total_rows().await?;
        let has = imp.has(&m.hash).await?;
        if res != Res::Rejected || rows_after != rows_before || has != had {
            viol(out, 
                "C01",
                "tampered-operation-accepted",
                format!("step {si}: mutation `{name}` of the valid operation {} : ingest returned {}, rows {} -> {}, has_operation(mutant) {} -> {}", p.info.key, res.name(), rows_before, rows_after, had, has),
                json!({"behaviour": b, "step": si, "mutation": name}),
            );
            return Ok(());
        }
    }
    // nothing moved: the full projection is what it was
    let after = imp.project(world, authors, logs).await?;
    if &after != cur {
        viol(out, "C01", "rejected-operation-changed-store".into(), format!("step {si}: the store changed during the rejected mutations of {}", p.info.key), json!({"behaviour": b, "step": si}));
    }
    Ok(())
}

// ------------------------------------------------------------------------------------------
// record: impl -> spec

fn info_json(i: &Info) -> Value {
    let id: Vec<&str> = i.key.split('|').collect();
    let bl = match &i.bl {
        Some(k) => {
            let p: Vec<&str> = k.split('|').collect();
            json!({"a": p[0], "l": p[1], "seq": p[2].parse::<i64>().unwrap_or(-1), "v": p[3]})
        }
        None => json!({"a": "", "l": "", "seq": -1, "v": ""}),
    };
    json!({
        "id": {"a": id[0], "l": id[1], "seq": id[2].parse::<i64>().unwrap_or(-1), "v": id[3]},
        "a": i.a, "l": i.l, "ol": i.ol, "seq": i.seq, "prune": i.prune, "bl": bl, "wf": i.wf,
    })
}

fn log_scalars(rows: &BTreeSet<Row>, a: &str, l: &str) -> Value {
    let seqs: Vec<u32> = rows.iter().filter(|r| r.a == a && r.l == l).map(|r| r.seq).collect();
    json!({
        "count": seqs.len(),
        "height": seqs.iter().max().map(|s| *s as i64).unwrap_or(-1),
        "low": seqs.iter().min().map(|s| *s as i64).unwrap_or(-1),
        "total": rows.len(),
    })
}

const FORGE_CLASSES: &[&str] = &[
    "BadSig", "BadVersion", "PayloadInfoInconsistent", "BacklinkSeqInconsistent", "BodyMismatch",
    "ClaimOtherAuthor", "PruneFlipped", "SeqChanged", "BacklinkChanged", "ForgedPrune", "Resigned",
    "GapLinked", "GapLinked",
];

/// Seeded random multi-author histories: permutations, drops, duplicates, forged copies, several
/// prune points, late old prune-flagged operations, up to three events in flight.
fn record(args: &Args) {
    let mut rng = Rng::new(args.seed);
    let n = if args.n > 0 { args.n } else { 50 };
    let mut trace = TraceWriter::create(args.out.as_ref().expect("--out"));
    let mut out = Outcome::new(
        args,
        "seeded random histories (2-4 honest authors, 1-2 attacker keys, 1-2 logs, chains up to 14 with several prune points; \
         shuffled delivery with windows, duplicates, drops, forged copies of every class, late old prune-flagged operations, \
         up to 3 events in flight) on ingest_operation + LogPrune over SqliteStore; one event per spec action",
    );
    let rt = tokio::runtime::Builder::new_current_thread().enable_all().build().expect("runtime");
    let mut imp: Option<Impl> = None;
    for run in 0..n {
        out.eval();
        let seed = rng.next_u64();
        if imp.is_none() {
            imp = Some(rt.block_on(Impl::new_file()));
        }
        let r = catch(|| rt.block_on(async {
            let imp = imp.as_ref().unwrap();
            imp.wipe().await?;
            record_one(imp, run, seed, &mut trace, &mut out).await
        }));
        match r {
            Ok(Ok(())) => {}
            Ok(Err(e)) => {
                viol(&mut out, "*", "store-error", format!("store / harness error: {e}"), json!({"run": run, "seed": seed.to_string()}));
                imp = None;
            }
            Err(p) => {
                viol(&mut out, "*", "panic", format!("the code under test panicked: {p}"), json!({"run": run, "seed": seed.to_string()}));
                imp = None;
            }
        }
    }
    let (events, runs) = trace.finish();
    out.set_trace(events, runs);
    drop(imp);
    remove_files();
    require_counters(&out, args);
    out.write(args);
}

async fn record_one(imp: &Impl, run: usize, seed: u64, trace: &mut TraceWriter, out: &mut Outcome) -> Result<(), String> {
    let mut rng = Rng::new(seed);
    let mut world = World::new(format!("r{run}/{seed}"));
    let n_auth = rng.range(2, 4);
    let n_mal = rng.range(1, 2);
    let n_logs = rng.range(1, 2);
    let honest: Vec<String> = (1..=n_auth).map(|i| format!("a{i}")).collect();
    let mallory: Vec<String> = (1..=n_mal).map(|i| format!("mx{i}")).collect();
    let logs: Vec<String> = (1..=n_logs).map(|i| format!("l{i}")).collect();
    // chains and prune points
    let mut chain_len: BTreeMap<(String, String), u32> = BTreeMap::new();
    for a in &honest {
        for l in &logs {
            let len = rng.range(1, 14) as u32;
            chain_len.insert((a.clone(), l.clone()), len);
            for s in 0..len {
                if rng.chance(1, 4) {
                    world.prune.insert((a.clone(), l.clone(), s));
                }
            }
        }
    }
    for n in honest.iter().chain(mallory.iter()) {
        world.key(n);
    }
    let authors: Vec<(String, VerifyingKey)> = world.author_names().into_iter().map(|n| { let vk = world.vk(&n); (n, vk) }).collect();

    // delivery plan: honest operations in a windowed shuffle, with drops, duplicates, late copies
    let mut plan: Vec<(String, String, u32)> = Vec::new();
    for ((a, l), len) in &chain_len {
        for s in 0..*len {
            if rng.chance(1, 10) {
                continue; // dropped
            }
            plan.push((a.clone(), l.clone(), s));
            if rng.chance(1, 8) {
                plan.push((a.clone(), l.clone(), s)); // duplicate
            }
        }
    }
    // windowed shuffle: mostly in order per log, sometimes far out of order
    let mut keyed: Vec<(i64, (String, String, u32))> = plan
        .into_iter()
        .map(|p| {
            let jitter = match rng.below(10) {
                0 => rng.below(40) as i64 - 20,
                1..=3 => rng.below(7) as i64 - 3,
                _ => 0,
            };
            (p.2 as i64 * 2 + jitter, p)
        })
        .collect();
    keyed.sort_by_key(|k| k.0);
    let mut plan: Vec<(String, String, u32)> = keyed.into_iter().map(|k| k.1).collect();
    // late, old prune-flagged operations (the C05 situation) and late old plain operations
    let flagged: Vec<(String, String, u32)> = world.prune.iter().cloned().collect();
    for p in &flagged {
        if rng.chance(1, 2) {
            plan.push(p.clone());
        }
    }
    for _ in 0..rng.below(4) {
        let ((a, l), len) = chain_len.iter().nth(rng.below(chain_len.len() as u64) as usize).unwrap();
        plan.push((a.clone(), l.clone(), rng.below(*len as u64) as u32));
    }

    trace.event(json!({"ev": "Reset", "run": run, "seed": seed.to_string()}));
    let mut judge = Judge::default();
    let mut in_q: VecDeque<Pending> = VecDeque::new();
    let mut prune_q: VecDeque<(Pending, Res)> = VecDeque::new();
    let mut cur = imp.project(&world, &authors, &logs).await?;
    let mut forged_n = 0usize;
    let mut plan: VecDeque<(String, String, u32)> = plan.into_iter().collect();
    let case = json!({"run": run, "seed": seed.to_string()});

    while !plan.is_empty() || !in_q.is_empty() || !prune_q.is_empty() {
        let in_flight = in_q.len() + prune_q.len();
        let choice = rng.below(3);
        if !plan.is_empty() && in_flight < 3 && (choice == 0 || in_flight == 0) {
            // Submit: the honest operation or a forged copy of it
            let (a, l, s) = plan.pop_front().unwrap();
            let base = world.honest(&a, &l, s);
            let base_info = world.by_hash.get(&base.hash).cloned().unwrap();
            let (op, info, cls) = if rng.chance(1, 4) {
                let cls = *rng.pick(FORGE_CLASSES);
                let mut info = base_info.clone();
                let mut param = String::new();
                match cls {
                    "ClaimOtherAuthor" | "ForgedPrune" => {
                        let mut others: Vec<&String> = honest.iter().chain(mallory.iter()).filter(|x| **x != a).collect();
                        others.sort();
                        param = (*rng.pick(&others)).clone();
                        info.a = param.clone();
                        if cls == "ForgedPrune" {
                            info.prune = true;
                        }
                    }
                    "Resigned" => {
                        param = rng.pick(&mallory).clone();
                        info.a = param.clone();
                    }
                    "SeqChanged" => {
                        let len = chain_len[&(a.clone(), l.clone())] + 3;
                        let mut ns = rng.below(len as u64) as u32;
                        if ns == s {
                            ns += 1;
                        }
                        param = ns.to_string();
                        info.seq = ns;
                    }
                    "PruneFlipped" => info.prune = !info.prune,
                    "BacklinkChanged" => info.bl = Some(format!("{a}|{l}|{s}|Elsewhere")),
                    "GapLinked" => {
                        let x = s + 2 + rng.below(4) as u32;
                        param = x.to_string();
                        info.seq = x;
                        info.prune = false;
                        info.bl = Some(base_info.key.clone());
                    }
                    _ => {}
                }
                info.wf = cls == "Resigned" || cls == "GapLinked";
                forged_n += 1;
                // a re-signed copy is deterministic (same key, same fields => same bytes and hash): one id
                info.key = if cls == "Resigned" || cls == "GapLinked" { format!("{a}|{l}|{s}|{cls}:{param}") } else { format!("{a}|{l}|{s}|{cls}:{forged_n}") };
                let op = world.concretise(cls, &param, &base, rng.next_u64());
                world.register(&op, info.clone());
                (op, info, cls.to_string())
            } else {
                (base, base_info, "Honest".to_string())
            };
            out.count(&format!("class:{cls}"));
            let submit_ev = json!({"ev": "Submit", "cls": cls, "item": info_json(&info)});
            in_q.push_back(Pending { op, log: info.l.clone(), info, cls, submit_ev: Some(submit_ev) });
        } else if in_q.len() >= 2 && (choice == 1 || prune_q.is_empty()) && rng.chance(2, 3) {
            // several callers at once: REAL concurrent ingest_operation futures (same log included),
            // queued behind a permit the harness holds; events at the linearisation point = in the
            // order the calls completed (= order of their transactions)
            let batch: Vec<Pending> = in_q.drain(..).collect();
            let calls: Vec<(Op, String)> = batch.iter().map(|p| (p.op.clone(), p.log.clone())).collect();
            let (results, order) = imp.ingest_concurrently(&calls).await?;
            let after = imp.project(&world, &authors, &logs).await?;
            out.count("batch:concurrent");
            if batch.iter().enumerate().any(|(i, p)| batch.iter().skip(i + 1).any(|q| q.info.a == p.info.a && q.info.l == p.info.l && q.op.hash != p.op.hash)) {
                out.count("batch:same-log-overlap");
            }
            if cur.difference(&after).next().is_some() {
                viol(out, "C04", "ingest-deleted-entries", "a batch of ingests removed rows".into(), case.clone());
            }
            let mut before_i = cur.clone();
            for (n, i) in order.iter().enumerate() {
                let (p, res) = (&batch[*i], results[*i]);
                let mut after_i = before_i.clone();
                if res == Res::Inserted {
                    for row in after.iter().filter(|r| r.hash == p.op.hash) {
                        after_i.insert(row.clone());
                    }
                }
                let has = after_i.iter().any(|r| r.hash == p.op.hash);
                if imp.has(&p.op.hash).await? != after.iter().any(|r| r.hash == p.op.hash) {
                    viol(out, "C01", "has-operation-disagrees-with-log", format!("has_operation({}) disagrees with the stored logs", p.info.key), case.clone());
                }
                out.count(&format!("ingest:{}", res.name()));
                if res != Res::Inserted {
                    out.mark_distinct(format!("{run}:{}:{}", p.info.key, res.name()));
                }
                for (prop, sig, detail) in judge.after_ingest(&p.info, &p.cls, &p.op, res, &before_i, &after_i, has) {
                    viol(out, prop, &sig, detail, case.clone());
                }
                trace.event(p.submit_ev.clone().expect("recorder item"));
                let log = if n + 1 == order.len() { log_scalars(&after, &p.info.a, &p.info.l) } else { json!({"count": -1, "height": -1, "low": -1, "total": -1}) };
                trace.event(json!({"ev": "Ingest", "res": res.name(), "a": p.info.a, "l": p.info.l, "log": log}));
                before_i = after_i;
            }
            if after.len() as i64 != imp.total_rows().await? {
                viol(out, "C01", "stray-rows", "operations_v1 holds rows that are not reachable through the known logs".into(), case.clone());
            }
            cur = after;
            let mut slots: Vec<Option<Pending>> = batch.into_iter().map(Some).collect();
            for i in order {
                prune_q.push_back((slots[i].take().unwrap(), results[i]));
            }
        } else if !in_q.is_empty() && (choice == 1 || prune_q.is_empty()) {
            let p = in_q.pop_front().unwrap();
            trace.event(p.submit_ev.clone().expect("recorder item"));
            let res = imp.ingest(&p.op, &p.log).await?;
            let after = imp.project(&world, &authors, &logs).await?;
            let has = imp.has(&p.op.hash).await?;
            out.count(&format!("ingest:{}", res.name()));
            if res != Res::Inserted {
                out.mark_distinct(format!("{run}:{}:{}", p.info.key, res.name()));
            }
            for (prop, sig, detail) in judge.after_ingest(&p.info, &p.cls, &p.op, res, &cur, &after, has) {
                viol(out, prop, &sig, detail, case.clone());
            }
            if after.len() as i64 != imp.total_rows().await? {
                viol(out, "C01", "stray-rows", "operations_v1 holds rows that are not reachable through the known logs".into(), case.clone());
            }
            trace.event(json!({"ev": "Ingest", "res": res.name(), "a": p.info.a, "l": p.info.l, "log": log_scalars(&after, &p.info.a, &p.info.l)}));
            cur = after;
            prune_q.push_back((p, res));
        } else if !prune_q.is_empty() {
            let (p, res) = prune_q.pop_front().unwrap();
            // the decision of the (repaired) pipeline: args only for a prune-flagged event whose ingest did not fail
            let active = p.op.header.extensions.prune && res != Res::Rejected;
            let args = if active { Some((p.op.header.verifying_key, p.log.clone(), p.op.header.seq_num)) } else { None };
            let got = imp.log_prune(args).await?;
            let after = imp.project(&world, &authors, &logs).await?;
            for (prop, sig, detail) in judge.after_prune(&p.info, res, &cur, &after) {
                viol(out, prop, &sig, detail, case.clone());
            }
            if got.unwrap_or(0) > 0 {
                out.count("prune:deleted");
                out.mark_distinct(format!("{run}:{}:pruned", p.info.key));
            }
            trace.event(json!({"ev": "Prune", "active": active, "a": p.info.a, "l": p.info.l, "until": p.info.seq,
                               "pruned": got.unwrap_or(0), "log": log_scalars(&after, &p.info.a, &p.info.l)}));
            cur = after;
        }
    }
    // full snapshot at the end of the run
    let ids: Vec<Value> = cur.iter().map(|r| {
        let p: Vec<&str> = r.key.split('|').collect();
        if p.len() == 4 { mkid(p[0], p[1], p[2].parse().unwrap_or(0), p[3]) } else { json!({"a": "?", "l": "?", "seq": -2, "v": r.key}) }
    }).collect();
    trace.event(json!({"ev": "Snapshot", "store": ids}));
    out.sample(json!({"run": run, "seed": seed.to_string(), "stored": cur.len()}));
    Ok(())
}
