//! HeaderCodec (C02): `Header<E>` CBOR encode / decode / sign / verify / hash against
//! spec/HeaderCodec.
//!
//! The specification speaks about header *shapes* (payload size zero / non-zero, payload hash
//! present, seq_num zero / non-zero, backlink present, kind of extensions) and abstract CBOR
//! items. This module concretises every shape with many real headers (seeded field values with
//! the CBOR integer-width boundaries, real Ed25519 keys and signatures, real BLAKE3 hashes) and
//! compares, on real bytes, the observables the specification prescribes:
//!
//! * replay: one TLC-exported behaviour per shape (sign, encode, k decodes of the same bytes, a
//!   "twin" = equal value built by another route and signed with the same key),
//! * record: random shapes (up to 8 `previous` hashes) on the real code, one event per spec
//!   action, validated by `Trace_HeaderCodec.tla`.
//!
//! Values of the Node API `Extensions` type can only be obtained with arbitrary field values by
//! decoding CBOR (fields are private; the causal variant has no constructor), so every
//! `Extensions` instance is built from a hand-written CBOR tuple
//! `(1, variant, log_id, timestamp, prune_flag | [previous..])`.
use std::fmt::Debug;

use ciborium::Value as Cbor;
use p2panda::operation::Extensions as NodeExtensions;
use p2panda_core::cbor::{decode_cbor, encode_cbor};
use p2panda_core::{Extensions, Hash, Header, SigningKey, validate_header};
use serde::{Deserialize, Serialize};
use vh_common::{Args, Outcome, Rng, TraceWriter, Value, catch, json, read_ndjson, unknown};

/// Disagreements between model and code that are *not* C02 violations (encoding layout, the
/// decoder's verdict on inconsistent or unsigned headers) are reported under this id: the driver
/// lists them as warnings ("specification drifted"), they never fail C02.
const MODEL: &str = "C02-model";

pub fn run(args: &Args) {
    match args.mode.as_str() {
        "replay" => replay(args),
        "record" => record(args),
        _ => unknown(args),
    }
}

// ------------------------------------------------------------------------------------------
// Shapes and their concretisation

#[derive(Clone, Debug, PartialEq, Eq)]
struct Shape {
    size: u64,
    hash: bool,
    seq: u64,
    back: bool,
    kind: String,
    prune: bool,
    n: usize,
}

impl Shape {
    fn from_json(v: &Value) -> Shape {
        Shape {
            size: v["size"].as_u64().expect("size"),
            hash: v["hash"].as_bool().expect("hash"),
            seq: v["seq"].as_u64().expect("seq"),
            back: v["back"].as_bool().expect("back"),
            kind: v["kind"].as_str().expect("kind").to_string(),
            prune: v["prune"].as_bool().expect("prune"),
            n: v["n"].as_u64().expect("n") as usize,
        }
    }

    fn to_json(&self) -> Value {
        json!({"size": self.size, "hash": self.hash, "seq": self.seq, "back": self.back,
               "kind": self.kind, "prune": self.prune, "n": self.n})
    }

    fn consistent(&self) -> bool {
        ((self.size > 0) == self.hash) && ((self.seq > 0) == self.back)
    }
}

/// A derive(Serialize) extension type (encoded as a CBOR map): stands for "any extension type".
#[derive(Clone, Debug, PartialEq, Eq, Serialize, Deserialize)]
struct Custom {
    number: u64,
    link: Option<Hash>,
    label: String,
    flag: bool,
    list: Vec<u32>,
}

fn random_hash(rng: &mut Rng) -> Hash {
    let mut b = [0u8; 32];
    match rng.below(12) {
        0 => {}                     // all zero
        1 => b = [0xff; 32],        // all ones
        2 => b[31] = rng.next_u64() as u8, // leading zeros
        _ => b.copy_from_slice(&rng.bytes(32)),
    }
    Hash::from_bytes(b)
}

/// Non-zero value around the CBOR integer-width boundaries (<= max).
fn nonzero(rng: &mut Rng, max: u64) -> u64 {
    const EDGES: [u64; 12] = [1, 2, 23, 24, 25, 255, 256, 65_535, 65_536, 4_294_967_295, 4_294_967_296, u64::MAX];
    let v = match rng.below(3) {
        0 => *rng.pick(&EDGES),
        1 => rng.next_u64() >> rng.below(64),
        _ => rng.range(1, 1000),
    };
    v.clamp(1, max)
}

fn any_u64(rng: &mut Rng) -> u64 {
    if rng.chance(1, 6) { 0 } else { nonzero(rng, u64::MAX) }
}

fn distinct_hashes(rng: &mut Rng, n: usize) -> Vec<Hash> {
    let mut out: Vec<Hash> = Vec::new();
    while out.len() < n {
        let h = Hash::from_bytes(rng.bytes(32).try_into().unwrap());
        if !out.contains(&h) {
            out.push(h);
        }
    }
    out
}

fn cbor_hash(h: &Hash) -> Cbor {
    Cbor::Bytes(h.as_bytes().to_vec())
}

fn cbor_bytes(v: &Cbor) -> Vec<u8> {
    let mut bytes = Vec::new();
    ciborium::ser::into_writer(v, &mut bytes).expect("encode cbor value");
    bytes
}

/// Field values of one Node API extension (both variants).
#[derive(Clone, Debug)]
struct NodeExtValues {
    causal: bool,
    log_id: Hash,
    timestamp: u64,
    prune: bool,
    previous: Vec<Hash>,
}

impl NodeExtValues {
    /// `(1, variant, log_id, timestamp, prune | [previous in the given order], extra..)`.
    fn cbor(&self, previous: &[Hash], excess_field: bool) -> Vec<u8> {
        let mut items = vec![
            Cbor::Integer(1.into()),
            Cbor::Integer((self.causal as u8).into()),
            cbor_hash(&self.log_id),
            Cbor::Integer(self.timestamp.into()),
            if self.causal {
                Cbor::Array(previous.iter().map(cbor_hash).collect())
            } else {
                Cbor::Bool(self.prune)
            },
        ];
        if excess_field {
            // forward-compatible excess field, ignored by the decoder (operation.rs "Allow excess fields")
            items.push(Cbor::Text("field of a future version".into()));
        }
        cbor_bytes(&Cbor::Array(items))
    }
}

/// One concrete header under test, generic in the extension type.
struct Case<E> {
    key: SigningKey,
    header: Header<E>,
    /// the equal value obtained by another route
    twin_ext: E,
}

fn base_header<E>(shape: &Shape, rng: &mut Rng, ext: E) -> (SigningKey, Header<E>) {
    let key = SigningKey::from_bytes(&rng.bytes(32).try_into().unwrap());
    let header = Header {
        version: 1,
        verifying_key: key.verifying_key(),
        signature: None,
        payload_size: if shape.size == 0 { 0 } else { nonzero(rng, u32::MAX as u64) as u32 },
        payload_hash: if shape.hash { Some(random_hash(rng)) } else { None },
        seq_num: if shape.seq == 0 { 0 } else { nonzero(rng, u32::MAX as u64) as u32 },
        backlink: if shape.back { Some(random_hash(rng)) } else { None },
        extensions: ext,
    };
    (key, header)
}

fn node_case(shape: &Shape, rng: &mut Rng) -> Result<Case<NodeExtensions>, String> {
    let causal = shape.kind == "causal";
    let values = NodeExtValues {
        causal,
        log_id: random_hash(rng),
        timestamp: any_u64(rng),
        prune: shape.prune,
        previous: if causal { distinct_hashes(rng, shape.n) } else { vec![] },
    };
    let ext: NodeExtensions =
        decode_cbor(&values.cbor(&values.previous, false)[..]).map_err(|e| format!("cannot build extensions: {e}"))?;
    // the twin: same value from CBOR that lists `previous` in another order, repeats one of the
    // hashes (a set swallows it) and carries a forward-compatible excess field
    let mut other = values.previous.clone();
    rng.shuffle(&mut other);
    if !other.is_empty() && rng.chance(1, 3) {
        other.push(other[0]);
    }
    let twin_ext: NodeExtensions = decode_cbor(&values.cbor(&other, rng.chance(1, 2))[..])
        .map_err(|e| format!("cannot build twin extensions: {e}"))?;
    let (key, header) = base_header(shape, rng, ext);
    Ok(Case { key, header, twin_ext })
}

fn custom_case(shape: &Shape, rng: &mut Rng) -> Case<Custom> {
    let ext = Custom {
        number: any_u64(rng),
        link: if rng.chance(1, 2) { Some(random_hash(rng)) } else { None },
        label: (0..rng.below(30)).map(|_| *rng.pick(&['a', 'ß', '0', ' ', '\u{1F43C}'])).collect(),
        flag: rng.chance(1, 2),
        list: (0..rng.below(5)).map(|_| nonzero(rng, u32::MAX as u64) as u32).collect(),
    };
    // the twin: the same value after a trip through JSON (another way to obtain it)
    let twin_ext: Custom = serde_json::from_str(&serde_json::to_string(&ext).unwrap()).unwrap();
    let (key, header) = base_header(shape, rng, ext);
    Case { key, header, twin_ext }
}

fn zst_case(shape: &Shape, rng: &mut Rng) -> Case<()> {
    let (key, header) = base_header(shape, rng, ());
    Case { key, header, twin_ext: () }
}

// ------------------------------------------------------------------------------------------
// Reading real bytes back into the specification's vocabulary

/// Type tokens of the top-level CBOR array (`Layout` in MC_HeaderCodec.tla).
fn layout(bytes: &[u8]) -> Vec<String> {
    let Ok(Cbor::Array(items)) = ciborium::de::from_reader::<Cbor, _>(bytes) else {
        return vec!["not-an-array".into()];
    };
    items
        .iter()
        .map(|it| match it {
            Cbor::Integer(i) => {
                if i128::from(*i) == 0 { "u0".to_string() } else { "u+".to_string() }
            }
            Cbor::Bytes(b) if b.len() == 32 => "b32".into(),
            Cbor::Bytes(b) if b.len() == 64 => "b64".into(),
            Cbor::Bytes(b) => format!("bytes{}", b.len()),
            Cbor::Array(_) => "arr".into(),
            Cbor::Map(_) => "map".into(),
            other => format!("other:{other:?}").chars().take(24).collect(),
        })
        .collect()
}

/// Order of the `previous` hashes inside an encoding, each hash named by its position (1-based)
/// in `names` (the order of the run's first encoding). 0 = a hash that is not in `names`.
fn prev_order(bytes: &[u8], names: &[Hash]) -> Vec<u64> {
    let Ok(Cbor::Array(items)) = ciborium::de::from_reader::<Cbor, _>(bytes) else {
        return vec![];
    };
    let Some(Cbor::Array(ext)) = items.last() else {
        return vec![];
    };
    let Some(Cbor::Array(prev)) = ext.get(4) else {
        return vec![];
    };
    prev.iter()
        .map(|p| match p {
            Cbor::Bytes(b) => names.iter().position(|h| h.as_bytes()[..] == b[..]).map(|i| i as u64 + 1).unwrap_or(0),
            _ => 0,
        })
        .collect()
}

/// `previous` hashes in the order of an encoding.
fn prev_hashes(bytes: &[u8]) -> Vec<Hash> {
    let Ok(Cbor::Array(items)) = ciborium::de::from_reader::<Cbor, _>(bytes) else {
        return vec![];
    };
    let Some(Cbor::Array(ext)) = items.last() else {
        return vec![];
    };
    let Some(Cbor::Array(prev)) = ext.get(4) else {
        return vec![];
    };
    prev.iter()
        .filter_map(|p| match p {
            Cbor::Bytes(b) => <[u8; 32]>::try_from(&b[..]).ok().map(Hash::from_bytes),
            _ => None,
        })
        .collect()
}

// ------------------------------------------------------------------------------------------
// FailedEncode: an unrelated value whose encoding fails half-way

/// Serialize impl that writes some items and then returns an error (like a struct holding a
/// `SystemTime` before the UNIX epoch).
struct FailsHalfWay(u8);

impl Serialize for FailsHalfWay {
    fn serialize<S: serde::Serializer>(&self, serializer: S) -> Result<S::Ok, S::Error> {
        use serde::ser::SerializeSeq;
        let mut seq = serializer.serialize_seq(Some(4))?;
        seq.serialize_element(&0xdead_beef_u32)?;
        seq.serialize_element(&vec![self.0; 1 + self.0 as usize % 40])?;
        Err(serde::ser::Error::custom("this value cannot be encoded"))
    }
}

/// The specification's `FailedEncode` step on this thread; it must fail and must not matter.
fn failed_encode(fails: &mut FailPlan, place: &'static str) {
    if fails.mask & 1 == 1 {
        if encode_cbor(&FailsHalfWay(fails.mask as u8)).is_ok() {
            eprintln!("harness bug: the failing value was encoded");
            std::process::exit(2);
        }
        fails.done.push(place);
    }
    fails.mask >>= 1;
}

/// Seeded choice of the places where a failed encoding is interleaved (one bit per place).
#[derive(Debug, Clone, Default)]
struct FailPlan {
    mask: u64,
    done: Vec<&'static str>,
}

// ------------------------------------------------------------------------------------------
// Observations of one concrete header (all through the public API of p2panda-core)

#[derive(Debug, Clone, Default)]
struct DecodeObs {
    ok: bool,
    eq: bool,
    same_bytes: bool,
    verifies: bool,
    validates: bool,
    same_id: bool,
    ord: Vec<u64>,
}

#[derive(Debug, Clone, Default)]
struct Obs {
    sign_layout: Vec<String>,
    sign_verifies: bool,
    unsigned_decodes: bool,
    wire_layout: Vec<String>,
    wire_prev: Vec<u64>,
    wire_hex: String,
    id_hex: String,
    decodes: Vec<DecodeObs>,
    twin_ord: Vec<u64>,
    twin_same_bytes: bool,
    twin_same_id: bool,
    twin_verifies: bool,
    /// places (next event) before which a failed encoding was interleaved
    failed_before: Vec<&'static str>,
}

fn observe<E>(case: Case<E>, decodes: usize, fail_mask: u64) -> Obs
where
    E: Extensions + PartialEq + Debug,
{
    let Case { key, mut header, twin_ext } = case;
    let mut obs = Obs::default();
    let mut fails = FailPlan { mask: fail_mask, done: vec![] };

    // Sign: the bytes that get signed are the encoding of the header without signature
    header.signature = None;
    failed_encode(&mut fails, "Sign");
    let unsigned_bytes = header.to_bytes();
    obs.sign_layout = layout(&unsigned_bytes);
    obs.unsigned_decodes = decode_cbor::<Header<E>, _>(&unsigned_bytes[..]).is_ok();
    // elements of `previous` are named by their position in this very first encoding
    let names = prev_hashes(&unsigned_bytes);
    failed_encode(&mut fails, "Sign");
    header.sign(&key);
    failed_encode(&mut fails, "Sign");
    obs.sign_verifies = header.verify();

    // Encode
    failed_encode(&mut fails, "Encode");
    let wire = header.to_bytes();
    failed_encode(&mut fails, "Encode");
    let id = header.hash();
    obs.wire_layout = layout(&wire);
    obs.wire_prev = prev_order(&wire, &names);
    obs.wire_hex = wire.iter().map(|b| format!("{b:02x}")).collect();
    obs.id_hex = id.to_hex();

    // Decode the same bytes again and again
    for _ in 0..decodes {
        let mut d = DecodeObs::default();
        if let Ok(again) = decode_cbor::<Header<E>, _>(&wire[..]) {
            failed_encode(&mut fails, "Decode");
            let bytes = again.to_bytes();
            d.ok = true;
            d.eq = again == header;
            d.same_bytes = bytes == wire;
            failed_encode(&mut fails, "Decode");
            d.verifies = again.verify();
            failed_encode(&mut fails, "Decode");
            d.validates = validate_header(&again).is_ok();
            failed_encode(&mut fails, "Decode");
            d.same_id = again.hash() == id;
            d.ord = prev_order(&bytes, &names);
        }
        obs.decodes.push(d);
    }

    // Twin: an equal value obtained by another route, signed with the same key
    // (Ed25519 signatures are deterministic: equal bytes <=> equal signature)
    let mut twin = Header { extensions: twin_ext, signature: None, ..header.clone() };
    failed_encode(&mut fails, "Twin");
    twin.sign(&key);
    failed_encode(&mut fails, "Twin");
    let twin_bytes = twin.to_bytes();
    // equality of the *values* (the signature is a function of the bytes, which is what is tested)
    let twin_equal = Header { signature: None, ..twin.clone() } == Header { signature: None, ..header.clone() };
    obs.twin_ord = prev_order(&twin_bytes, &names);
    obs.twin_same_bytes = twin_equal && twin_bytes == wire;
    obs.twin_same_id = twin_equal && twin.hash() == id;
    failed_encode(&mut fails, "Twin");
    obs.twin_verifies = twin.verify();
    obs.failed_before = fails.done;
    if !twin_equal {
        // harness error, not a finding: the twin must be the same value
        eprintln!("harness bug: twin value differs from the original");
        std::process::exit(2);
    }
    obs
}

fn observe_shape(shape: &Shape, rng: &mut Rng, decodes: usize) -> Result<Obs, String> {
    let shape = shape.clone();
    let mut local = rng.clone();
    let r = catch(move || -> Result<Obs, String> {
        // FailedEncode steps: none for one header in three, else each place with probability 1/4
        let fail_mask = if local.chance(1, 3) { 0 } else { local.next_u64() & local.next_u64() };
        match shape.kind.as_str() {
            "zst" => Ok(observe(zst_case(&shape, &mut local), decodes, fail_mask)),
            "custom" => Ok(observe(custom_case(&shape, &mut local), decodes, fail_mask)),
            "basic" | "causal" => Ok(observe(node_case(&shape, &mut local)?, decodes, fail_mask)),
            other => Err(format!("unknown extension kind {other}")),
        }
    });
    // advance the caller's generator independently of how much the case consumed
    rng.next_u64();
    match r {
        Ok(x) => x,
        Err(p) => Err(format!("panic: {p}")),
    }
}

// ------------------------------------------------------------------------------------------
// replay

/// Registers a violation and counts it per (property, signature) so that the result shows every
/// failure class even when only the first few violations are kept.
fn report(out: &mut Outcome, property: &str, signature: &str, detail: String, case: Value) {
    out.count(&format!("violation:{property}:{signature}"));
    out.violation(property, signature, detail, case);
}

fn str_vec(v: &Value) -> Vec<String> {
    v.as_array().map(|a| a.iter().map(|x| x.as_str().unwrap_or("?").to_string()).collect()).unwrap_or_default()
}

fn u64_vec(v: &Value) -> Vec<u64> {
    v.as_array().map(|a| a.iter().map(|x| x.as_u64().unwrap_or(0)).collect()).unwrap_or_default()
}

fn replay(args: &Args) {
    let behaviours = read_ndjson(args.input.as_ref().expect("--in"));
    let per_shape = args.extra_usize("per_shape", if args.thorough() { 500 } else { 20 });
    let mut rng = Rng::new(args.seed);
    let mut out = Outcome::new(
        args,
        "every TLC-exported header shape concretised with `per_shape` seeded real headers (real keys, signatures, hashes; \
         integer fields at the CBOR width boundaries); evaluation = one concrete header taken through sign, encode, \
         k decodes of the same bytes and a twin built by another route; non-trivial = consistent shape (the header \
         validates) and it decoded; distinct by operation id",
    );
    for b in &behaviours {
        if b["kind"].as_str() != Some("codec") {
            eprintln!("unknown behaviour kind: {b}");
            std::process::exit(2);
        }
        let shape = Shape::from_json(&b["shape"]);
        let consistent = b["consistent"].as_bool().expect("consistent");
        let steps = b["steps"].as_array().expect("steps");
        let decodes = steps.iter().filter(|s| s["a"] == "Decode").count();
        // a failing concrete case is replayable standalone: behaviour + seed of the concrete header
        let fixed_seed = b.get("case_seed").and_then(|s| s.as_u64());
        let runs = if fixed_seed.is_some() { 1 } else { per_shape };
        for _ in 0..runs {
            let case_seed = fixed_seed.unwrap_or_else(|| rng.next_u64() >> 12);
            let mut case_rng = Rng::new(case_seed);
            let mut case = b.clone();
            case["case_seed"] = json!(case_seed);
            out.eval();
            out.count(&format!("kind:{}", shape.kind));
            let obs = match observe_shape(&shape, &mut case_rng, decodes) {
                Ok(o) => o,
                Err(p) => {
                    report(&mut out, "C02", "codec-panics-or-cannot-build", p, case);
                    continue;
                }
            };
            out.count_by("failed_encodes", obs.failed_before.len() as u64);
            let prop = if consistent { "C02" } else { MODEL };
            let mut di = 0;
            let mut all_ok = true;
            for step in steps {
                match step["a"].as_str().unwrap_or("") {
                    "Sign" => {
                        if obs.sign_layout != str_vec(&step["layout"]) {
                            report(&mut out, MODEL, "unsigned-layout-differs-from-spec",
                                format!("unsigned encoding is {:?}, spec says {}", obs.sign_layout, step["layout"]), case.clone());
                        }
                        if obs.sign_verifies != step["verifies"].as_bool().unwrap() {
                            all_ok = false;
                            report(&mut out, "C02", "fresh-signature-does-not-verify",
                                format!("verify() right after sign() = {}", obs.sign_verifies), case.clone());
                        }
                        if obs.unsigned_decodes != b["unsigned_decodes"].as_bool().unwrap() {
                            report(&mut out, MODEL, "unsigned-header-decodes",
                                format!("decoding the unsigned encoding succeeded = {}", obs.unsigned_decodes), case.clone());
                        }
                    }
                    "Encode" => {
                        if obs.wire_layout != str_vec(&step["layout"]) {
                            report(&mut out, MODEL, "layout-differs-from-spec",
                                format!("encoding is {:?}, spec says {}", obs.wire_layout, step["layout"]), case.clone());
                        }
                        if obs.wire_prev != u64_vec(&step["prev"]) {
                            report(&mut out, MODEL, "previous-order-differs-from-spec",
                                format!("`previous` written as {:?}, spec says {}", obs.wire_prev, step["prev"]), case.clone());
                        }
                    }
                    "Decode" => {
                        let d = &obs.decodes[di];
                        di += 1;
                        let exp = |k: &str| step[k].as_bool().unwrap();
                        let checks: [(&str, bool, bool, &str); 6] = [
                            ("ok", d.ok, exp("ok"), "decode-verdict-differs"),
                            ("eq", d.eq, exp("eq"), "roundtrip-not-equal"),
                            ("same_bytes", d.same_bytes, exp("same_bytes"), "reencode-differs"),
                            ("verifies", d.verifies, exp("verifies"), "verify-fails-after-decode"),
                            ("validates", d.validates, exp("validates"), "validate-fails-after-decode"),
                            ("same_id", d.same_id, exp("same_id"), "id-changes-after-decode"),
                        ];
                        for (name, got, want, sig) in checks {
                            if got != want {
                                all_ok = false;
                                // what went wrong with `previous`, if anything, is part of the detail
                                report(&mut out, prop, sig,
                                    format!("decode #{di} of {}: {name} = {got}, spec says {want}; `previous` re-encoded in order {:?} (1..n = as signed); kind={} n={}",
                                        &obs.id_hex[..16], d.ord, shape.kind, shape.n),
                                    case.clone());
                                break; // first failing observable names the class
                            }
                        }
                    }
                    "Twin" => {
                        let checks: [(&str, bool, bool, &str); 3] = [
                            ("same_bytes", obs.twin_same_bytes, step["same_bytes"].as_bool().unwrap(), "equal-values-encode-differently"),
                            ("same_id", obs.twin_same_id, step["same_id"].as_bool().unwrap(), "equal-values-have-different-ids"),
                            ("verifies", obs.twin_verifies, step["verifies"].as_bool().unwrap(), "fresh-signature-does-not-verify"),
                        ];
                        for (name, got, want, sig) in checks {
                            if got != want {
                                all_ok = false;
                                report(&mut out, "C02", sig,
                                    format!("twin of {} (equal value built by another route): {name} = {got}, spec says {want}; `previous` encoded in order {:?}; kind={} n={}",
                                        &obs.id_hex[..16], obs.twin_ord, shape.kind, shape.n),
                                    case.clone());
                                break;
                            }
                        }
                    }
                    other => {
                        eprintln!("unknown step {other}");
                        std::process::exit(2);
                    }
                }
            }
            if consistent && obs.decodes.iter().all(|d| d.ok) {
                out.mark_distinct(obs.id_hex.clone());
            }
            if !consistent {
                out.count("inconsistent_shape_cases");
            }
            if all_ok {
                out.sample(json!({"shape": shape.to_json(), "case_seed": case_seed, "id": obs.id_hex, "bytes": obs.wire_hex}));
            }
        }
    }
    out.write(args);
}

// ------------------------------------------------------------------------------------------
// record

fn record(args: &Args) {
    let mut rng = Rng::new(args.seed);
    let n = if args.n > 0 { args.n } else { 200 };
    let mut trace = TraceWriter::create(args.out.as_ref().expect("--out"));
    let mut out = Outcome::new(
        args,
        "seeded random header shapes (all extension kinds, up to 8 `previous` hashes, consistent and inconsistent) on the \
         real code; one trace event per spec action with the observables read off the real bytes; distinct by operation id",
    );
    for run in 0..n {
        let kind = *rng.pick(&["zst", "custom", "basic", "causal", "causal", "causal"]);
        // mostly consistent headers; one in six has an inconsistent field pair
        let size = rng.below(2);
        let seq = rng.below(2);
        let broken = rng.chance(1, 6);
        let shape = Shape {
            size,
            hash: if broken && rng.chance(1, 2) { size == 0 } else { size > 0 },
            seq,
            back: if broken && rng.chance(1, 2) { seq == 0 } else { seq > 0 },
            kind: kind.to_string(),
            prune: kind == "basic" && rng.chance(1, 2),
            n: if kind == "causal" { rng.below(9) as usize } else { 0 },
        };
        let decodes = rng.range(1, 4) as usize;
        out.eval();
        out.count(&format!("kind:{}", shape.kind));
        let obs = match observe_shape(&shape, &mut rng, decodes) {
            Ok(o) => o,
            Err(p) => {
                report(&mut out, "C02", "codec-panics-or-cannot-build", p, json!({"shape": shape.to_json(), "run": run}));
                continue;
            }
        };
        trace.event(json!({"ev": "Reset", "run": run, "shape": shape.to_json()}));
        // the failed encodings that were interleaved, each before the event whose calls it preceded
        let failed = |trace: &mut TraceWriter, place: &str| {
            for _ in obs.failed_before.iter().filter(|p| **p == place) {
                trace.event(json!({"ev": "FailedEncode", "before": place}));
            }
        };
        out.count_by("failed_encodes", obs.failed_before.len() as u64);
        failed(&mut trace, "Sign");
        trace.event(json!({"ev": "Sign", "layout": obs.sign_layout, "verifies": obs.sign_verifies}));
        failed(&mut trace, "Encode");
        trace.event(json!({"ev": "Encode", "layout": obs.wire_layout, "prev": obs.wire_prev}));
        failed(&mut trace, "Decode");
        for d in &obs.decodes {
            trace.event(json!({"ev": "Decode", "ok": d.ok, "eq": d.eq, "ord": d.ord, "same_bytes": d.same_bytes,
                               "verifies": d.verifies, "validates": d.validates, "same_id": d.same_id}));
        }
        failed(&mut trace, "Twin");
        trace.event(json!({"ev": "Twin", "ord": obs.twin_ord, "same_bytes": obs.twin_same_bytes,
                           "same_id": obs.twin_same_id, "verifies": obs.twin_verifies}));
        if shape.consistent() && obs.decodes.iter().all(|d| d.ok) {
            out.mark_distinct(obs.id_hex.clone());
        }
        out.sample(json!({"shape": shape.to_json(), "id": obs.id_hex, "bytes": obs.wire_hex}));
    }
    let (events, runs) = trace.finish();
    out.set_trace(events, runs);
    out.write(args);
}
