//! Conformance harness binary `vh-codec`: one module per TLA+ specification (see /verif/spec).
mod headercodec;

fn main() {
    let args = vh_common::Args::parse();
    vh_common::quiet_panics();
    match args.module.as_str() {
        "headercodec" => headercodec::run(&args),
        _ => vh_common::unknown(&args),
    }
}
