//! Conformance harness binary `vh-sqlitetx`: one module per TLA+ specification (see /verif/spec).
mod sqlitetx;

fn main() {
    let args = vh_common::Args::parse();
    vh_common::quiet_panics();
    match args.module.as_str() {
        "sqlitetx" => sqlitetx::run(&args),
        _ => vh_common::unknown(&args),
    }
}
