//! SqliteTx (C10): the transaction permit protocol of `p2panda_store::SqliteStore`
//! (`begin` / `tx` / `commit` / `rollback` / `impl Drop for TransactionPermit`, the `tx!` macro)
//! against spec/SqliteTx.
//!
//! * `record` (impl -> spec, primary): N writer tasks on a multi-thread tokio runtime run
//!   transactions against a real SQLite store (in-memory single connection pool and file-backed
//!   pool) and end them by commit (`tx!` macro and explicit), rollback, dropping the permit, a
//!   failing statement inside `tx!` (`?` leaves the scope), a panic, cancellation of the task while
//!   it holds the permit, or cancellation while it is still inside `begin()`. The cfg-guarded hooks
//!   of `p2panda-store/src/sqlite.rs` log the linearisation points under the held permit
//!   (`sqlite.acquired`, `sqlite.begin`, `sqlite.commit.*`, `sqlite.rollback.*`,
//!   `sqlite.auto_rollback.*`) with the sequence number of `p2panda_core::verif::emit`; the
//!   harness logs its own events through the same counter. The last event is a `SELECT` of all
//!   rows. `Trace_SqliteTx.tla` must accept the log.
//! * `replay` (spec -> impl): schedules exported by TLC are forced on a current-thread runtime.
//!   Every store call is a future polled by hand; the schedule points of the hooks
//!   (`p2panda_core::verif::point`) park `begin` after the permit was acquired, `commit` /
//!   `rollback` before the permit is released and the spawned rollback task before it starts and
//!   before it releases. After every step the implementation must be where the specification
//!   says: who is parked where, a probe `begin()` acquires the permit iff `sem = 1`, blocked
//!   `begin()` futures stay pending exactly while the permit is taken, and the committed rows
//!   read through the pool equal the specification's database.
use std::collections::BTreeMap;
use std::future::Future;
use std::panic::{AssertUnwindSafe, catch_unwind};
use std::path::PathBuf;
use std::pin::Pin;
use std::sync::{Arc, Mutex};
use std::task::Poll;
use std::time::{Duration, Instant};

use futures_channel::oneshot;
use p2panda_core::verif;
use p2panda_store::sqlite::TransactionPermit;
use p2panda_store::{SqliteError, SqliteStore, SqliteStoreBuilder, Transaction, tx};
use vh_common::{Args, Outcome, Rng, TraceWriter, Value, json, read_ndjson, unknown};

/// Watchdog for operations that must complete (no verdict is derived from durations below it;
/// it only turns a genuine hang into a report instead of a stuck check).
const WATCHDOG: Duration = Duration::from_secs(120);

pub fn run(args: &Args) {
    match args.mode.as_str() {
        "replay" => replay(args),
        "record" => record(args),
        _ => unknown(args),
    }
}

// ------------------------------------------------------------------------------------------
// The database under test

const SCHEMA: [&str; 2] = [
    "CREATE TABLE log(id INTEGER PRIMARY KEY AUTOINCREMENT, w TEXT NOT NULL, t INTEGER NOT NULL, j INTEGER NOT NULL, k TEXT NOT NULL)",
    "CREATE TABLE kv(k TEXT PRIMARY KEY, w TEXT NOT NULL, t INTEGER NOT NULL, j INTEGER NOT NULL)",
];

type Row = (String, i64, i64, String); // (writer, transaction, index, key)

struct Db {
    store: SqliteStore,
    file: Option<PathBuf>,
}

impl Db {
    async fn open(kind: &str, id: u64) -> Db {
        let (store, file) = match kind {
            "memory" => (
                SqliteStoreBuilder::memory().run_default_migrations(false).build().await.expect("in-memory store"),
                None,
            ),
            "file" => {
                let dir = std::env::current_dir().expect("cwd").join("sqlitetx-db");
                std::fs::create_dir_all(&dir).expect("db dir");
                let path = dir.join(format!("c10-{}-{id}.sqlite", std::process::id()));
                let _ = std::fs::remove_file(&path);
                let url = format!("sqlite://{}", path.display());
                let store = SqliteStoreBuilder::new()
                    .database_url(&url)
                    .min_connections(1)
                    .max_connections(4)
                    .run_default_migrations(false)
                    .build()
                    .await
                    .expect("file-backed store");
                (store, Some(path))
            }
            other => {
                eprintln!("unknown store kind {other}");
                std::process::exit(2);
            }
        };
        for stmt in SCHEMA {
            store
                .execute(async |pool| {
                    sqlx::query(stmt).execute(pool).await?;
                    Ok(())
                })
                .await
                .expect("schema");
        }
        Db { store, file }
    }

    async fn close(self) {
        // Drop the store first: a transaction left in its slot would keep a connection, and
        // closing the pool waits for all connections. The bounded wait is cleanup only: clones
        // of the store held by stuck tasks of a broken run can keep a transaction alive.
        let pool = self.store.pool().clone();
        drop(self.store);
        let _ = tokio::time::timeout(Duration::from_secs(5), pool.close()).await;
        if let Some(path) = self.file {
            for suffix in ["", "-journal", "-wal", "-shm"] {
                let _ = std::fs::remove_file(format!("{}{suffix}", path.display()));
            }
        }
    }
}

/// One write of a transaction: a row in the append-only `log` table, last-writer-wins in `kv`;
/// returns the number of `log` rows visible inside the transaction afterwards.
async fn do_write(store: &SqliteStore, w: &str, t: i64, j: i64, k: &str) -> Result<i64, SqliteError> {
    let (w, k) = (w.to_string(), k.to_string());
    store
        .tx(async move |tx| {
            sqlx::query("INSERT INTO log (w, t, j, k) VALUES (?, ?, ?, ?)")
                .bind(&w)
                .bind(t)
                .bind(j)
                .bind(&k)
                .execute(&mut **tx)
                .await?;
            sqlx::query("INSERT OR REPLACE INTO kv (k, w, t, j) VALUES (?, ?, ?, ?)")
                .bind(&k)
                .bind(&w)
                .bind(t)
                .bind(j)
                .execute(&mut **tx)
                .await?;
            let seen: i64 = sqlx::query_scalar("SELECT COUNT(*) FROM log").fetch_one(&mut **tx).await?;
            Ok(seen)
        })
        .await
}

/// A write that tells when it is inside `tx(..)` (it holds the slot lock and has executed its
/// first statement) and then waits for `go` before it executes the rest.
async fn gated_write(
    store: &SqliteStore,
    w: &str,
    t: i64,
    j: i64,
    k: &str,
    inside: Arc<std::sync::atomic::AtomicBool>,
    inside_tx: Option<oneshot::Sender<()>>,
    go: Option<oneshot::Receiver<()>>,
) -> Result<i64, SqliteError> {
    let (w, k) = (w.to_string(), k.to_string());
    store
        .tx(async move |tx| {
            inside.store(true, std::sync::atomic::Ordering::SeqCst);
            sqlx::query("INSERT INTO log (w, t, j, k) VALUES (?, ?, ?, ?)")
                .bind(&w)
                .bind(t)
                .bind(j)
                .bind(&k)
                .execute(&mut **tx)
                .await?;
            if let Some(s) = inside_tx {
                let _ = s.send(());
            }
            if let Some(go) = go {
                let _ = go.await;
            }
            sqlx::query("INSERT OR REPLACE INTO kv (k, w, t, j) VALUES (?, ?, ?, ?)")
                .bind(&k)
                .bind(&w)
                .bind(t)
                .bind(j)
                .execute(&mut **tx)
                .await?;
            let seen: i64 = sqlx::query_scalar("SELECT COUNT(*) FROM log").fetch_one(&mut **tx).await?;
            Ok(seen)
        })
        .await
}

/// A statement that fails (the table does not exist) inside the transaction.
async fn failing_statement(store: &SqliteStore) -> Result<(), SqliteError> {
    store
        .tx(async |tx| {
            sqlx::query("INSERT INTO no_such_table (x) VALUES (1)").execute(&mut **tx).await?;
            Ok(())
        })
        .await
}

/// Committed rows, read through the pool (not through the transaction).
async fn read_all(store: &SqliteStore) -> Result<(Vec<Row>, BTreeMap<String, (String, i64, i64)>), SqliteError> {
    store
        .execute(async |pool| {
            let log: Vec<Row> = sqlx::query_as("SELECT w, t, j, k FROM log ORDER BY id").fetch_all(pool).await?;
            let kv: Vec<(String, String, i64, i64)> = sqlx::query_as("SELECT k, w, t, j FROM kv ORDER BY k").fetch_all(pool).await?;
            Ok((log, kv.into_iter().map(|(k, w, t, j)| (k, (w, t, j))).collect()))
        })
        .await
}

/// Waits until no connection of the pool has work in flight: a COMMIT / ROLLBACK whose future was
/// dropped is still executed by the connection's worker thread, and the connection comes back to
/// the pool only after that. Holding all connections at once means every one of them is through.
async fn quiesce(store: &SqliteStore) -> Result<(), SqliteError> {
    let max = store.pool().options().get_max_connections();
    let mut held = Vec::new();
    for _ in 0..max {
        held.push(store.pool().acquire().await?);
    }
    drop(held);
    Ok(())
}

fn rows_json(rows: &[Row]) -> Value {
    Value::Array(rows.iter().map(|(w, t, j, k)| json!({"w": w, "t": t, "j": j, "k": k})).collect())
}

fn kv_json(kv: &BTreeMap<String, (String, i64, i64)>) -> Value {
    let mut o = serde_json::Map::new();
    for (k, (w, t, j)) in kv {
        o.insert(k.clone(), json!({"w": w, "t": t, "j": j}));
    }
    Value::Object(o)
}

/// Last-writer-wins view of a log (what `kv` must hold).
fn lww(rows: &[Row]) -> BTreeMap<String, (String, i64, i64)> {
    let mut m = BTreeMap::new();
    for (w, t, j, k) in rows {
        m.insert(k.clone(), (w.clone(), *t, *j));
    }
    m
}

fn emit(v: Value) {
    verif::emit(v.to_string());
}

// ==========================================================================================
// record: concurrent writers on a multi-thread runtime
// ==========================================================================================

#[derive(Clone, Copy, Debug, PartialEq, Eq)]
enum Ending {
    /// `tx!(store, { writes })`
    CommitMacro,
    /// begin, writes, `commit(permit)`
    Commit,
    /// begin, writes, `rollback(permit)`
    Rollback,
    /// begin, writes, `drop(permit)`
    Drop,
    /// `tx!(store, { writes; failing statement? })`: the `?` leaves the scope with the permit
    ErrorMacro,
    /// begin, writes, panic with the permit on the stack
    Panic,
    /// begin, writes, the task is aborted while it holds the permit
    CancelHolding,
    /// the task is aborted while it is (probably still) inside `begin()`
    CancelInBegin,
    /// begin, writes, the task is aborted while `commit(permit)` is (probably still) in flight
    CancelInCommit,
    /// begin, writes, the task is aborted while `rollback(permit)` is in flight
    CancelInRollback,
    /// begin, writes, the task is aborted while one more write is in flight
    CancelInWrite,
    /// begin, writes, one more write is started and kept pending (it holds the slot lock), the
    /// permit is dropped, then the pending write future is dropped
    DropInFlightThenDrop,
    /// ... then the pending write is driven to completion
    DropInFlightThenFinish,
    /// begin, writes, a second task working in the same transaction is inside `tx(..)` (holds the
    /// slot lock) when the permit is dropped; then that task is aborted
    DropWhileHelperThenAbort,
    /// ... then that task finishes its call
    DropWhileHelperThenFinish,
}

const WRITER_PANIC: &str = "writer panics inside its transaction";

const ENDINGS: [Ending; 22] = [
    Ending::CommitMacro,
    Ending::Commit,
    Ending::Rollback,
    Ending::Drop,
    Ending::ErrorMacro,
    Ending::Panic,
    Ending::CancelHolding,
    // cancellation inside begin() has many places to land: weight it
    Ending::CancelInBegin,
    Ending::CancelInBegin,
    Ending::CancelInBegin,
    Ending::CancelInBegin,
    Ending::CancelInCommit,
    Ending::CancelInCommit,
    Ending::CancelInCommit,
    Ending::CancelInRollback,
    Ending::CancelInWrite,
    Ending::DropInFlightThenDrop,
    Ending::DropInFlightThenDrop,
    Ending::DropInFlightThenFinish,
    Ending::DropWhileHelperThenAbort,
    Ending::DropWhileHelperThenAbort,
    Ending::DropWhileHelperThenFinish,
];

#[derive(Clone, Debug)]
struct Plan {
    keys: Vec<String>,
    ending: Ending,
    /// numbers of `yield_now` before begin / between writes / before the end
    yields: Vec<u8>,
}

/// Emits an event when dropped armed: declared *after* the future it guards, hence dropped
/// *before* it when the task is cancelled, so the event precedes the effects of dropping the
/// cancelled future (release of a bare semaphore permit, drop of the sqlx transaction and of the
/// `TransactionPermit`).
struct GoneGuard {
    event: Value,
    armed: bool,
}

impl GoneGuard {
    fn new(event: Value, armed: bool) -> GoneGuard {
        GoneGuard { event, armed }
    }
}

impl Drop for GoneGuard {
    fn drop(&mut self) {
        if self.armed {
            emit(self.event.clone());
        }
    }
}

async fn yields(n: u8) {
    for _ in 0..n {
        tokio::task::yield_now().await;
    }
}

fn y(plan: &Plan, i: usize) -> u8 {
    plan.yields.get(i).copied().unwrap_or(0)
}

/// Body shared by the two `tx!` endings; the macro's `?` need a function returning `Result`.
async fn macro_transaction(store: &SqliteStore, w: &str, t: i64, plan: &Plan, fail: bool) -> Result<(), SqliteError> {
    tx!(store, {
        emit(json!({"ev": "BeginRet", "w": w, "t": t}));
        for (j, k) in plan.keys.iter().enumerate() {
            yields(y(plan, 1 + j)).await;
            emit(json!({"ev": "WriteCall", "w": w, "t": t, "j": j, "k": k}));
            let seen = match do_write(store, w, t, j as i64, k).await {
                Ok(seen) => seen,
                Err(e) => {
                    // unexpected; say that the permit goes away before `return` drops it
                    emit(json!({"ev": "PermitDrop", "w": w, "t": t, "why": "write-error"}));
                    return Err(e);
                }
            };
            emit(json!({"ev": "Write", "w": w, "t": t, "j": j, "k": k, "seen": seen}));
        }
        yields(y(plan, 9)).await;
        if fail {
            // a failing statement; leaving the scope with the error (what `?` does) drops the permit
            emit(json!({"ev": "WriteCall", "w": w, "t": t, "j": plan.keys.len(), "k": "none"}));
            if let Err(e) = failing_statement(store).await {
                emit(json!({"ev": "PermitDrop", "w": w, "t": t, "why": "error"}));
                return Err(e);
            }
        }
    });
    Ok(())
}

/// One transaction of writer `w`, run as its own tokio task.
async fn transaction_task(
    store: SqliteStore,
    w: String,
    t: i64,
    plan: Plan,
    parked: oneshot::Sender<()>,
) -> Result<(), String> {
    emit(json!({"ev": "Spawn", "w": w, "task": tokio::task::id().to_string()}));
    yields(y(&plan, 0)).await;
    match plan.ending {
        Ending::CommitMacro => {
            return macro_transaction(&store, &w, t, &plan, false).await.map_err(|e| format!("tx! failed: {e}"));
        }
        Ending::ErrorMacro => {
            return match macro_transaction(&store, &w, t, &plan, true).await {
                Err(_) => Ok(()),
                Ok(()) => Err("the failing statement succeeded".into()),
            };
        }
        _ => {}
    }

    // explicit begin; `CancelInBegin` tells the supervisor right before calling it
    let permit = {
        let begin = store.begin();
        let mut begin = std::pin::pin!(begin);
        let mut guard = GoneGuard::new(json!({"ev": "TaskGone", "w": w}), plan.ending == Ending::CancelInBegin);
        let mut parked = Some(parked);
        if plan.ending == Ending::CancelInBegin {
            let _ = parked.take().unwrap().send(());
        }
        let permit = begin.as_mut().await.map_err(|e| format!("begin failed: {e}"))?;
        guard.armed = false;
        emit(json!({"ev": "BeginRet", "w": w, "t": t}));
        (permit, parked)
    };
    let (permit, parked) = permit;

    // `CancelInBegin`: the abort is on its way; it may only land inside begin() or at the park
    // below, so there is no await point in between
    if plan.ending != Ending::CancelInBegin {
        for (j, k) in plan.keys.iter().enumerate() {
            yields(y(&plan, 1 + j)).await;
            emit(json!({"ev": "WriteCall", "w": w, "t": t, "j": j, "k": k}));
            let seen = match do_write(&store, &w, t, j as i64, k).await {
                Ok(seen) => seen,
                Err(e) => {
                    emit(json!({"ev": "PermitDrop", "w": w, "t": t, "why": "write-error"}));
                    return Err(format!("write failed: {e}"));
                }
            };
            emit(json!({"ev": "Write", "w": w, "t": t, "j": j, "k": k, "seen": seen}));
        }
        yields(y(&plan, 9)).await;
    }

    match plan.ending {
        Ending::Commit => store.commit(permit).await.map_err(|e| format!("commit failed: {e}")),
        Ending::Rollback => store.rollback(permit).await.map_err(|e| format!("rollback failed: {e}")),
        Ending::Drop => {
            emit(json!({"ev": "PermitDrop", "w": w, "t": t, "why": "drop"}));
            drop(permit);
            Ok(())
        }
        Ending::Panic => {
            emit(json!({"ev": "PermitDrop", "w": w, "t": t, "why": "panic"}));
            let _permit = permit;
            panic!("{}", WRITER_PANIC);
        }
        Ending::CancelHolding | Ending::CancelInBegin => {
            // hold the permit until the supervisor aborts this task
            emit(json!({"ev": "PermitDrop", "w": w, "t": t, "why": "cancel"}));
            let _permit = permit;
            if let Some(p) = parked {
                let _ = p.send(());
            }
            std::future::pending::<()>().await;
            Ok(())
        }
        Ending::CancelInCommit | Ending::CancelInRollback => {
            // the supervisor aborts this task while the call is (probably) still in flight; what
            // a COMMIT cut in the middle did - went through or not - shows in the database only
            let commit = plan.ending == Ending::CancelInCommit;
            let call = async {
                if commit { store.commit(permit).await } else { store.rollback(permit).await }
            };
            let mut call = std::pin::pin!(call);
            let cut = if commit { "CommitCut" } else { "RollbackCut" };
            let mut guard = GoneGuard::new(json!({"ev": cut, "w": w, "t": t}), true);
            if let Some(p) = parked {
                let _ = p.send(());
            }
            let r = call.as_mut().await;
            guard.armed = false;
            r.map_err(|e| format!("commit / rollback failed: {e}"))?;
            std::future::pending::<()>().await;
            Ok(())
        }
        Ending::CancelInWrite => {
            let j = plan.keys.len() as i64;
            emit(json!({"ev": "WriteCall", "w": w, "t": t, "j": j, "k": "k1"}));
            let write = do_write(&store, &w, t, j, "k1");
            let mut write = std::pin::pin!(write);
            // cut in the middle, the transaction ends like a dropped permit (whether the statement
            // was executed does not matter: it is rolled back)
            let mut guard = GoneGuard::new(json!({"ev": "PermitDrop", "w": w, "t": t, "why": "cancel-in-write"}), true);
            if let Some(p) = parked {
                let _ = p.send(());
            }
            let r = write.as_mut().await;
            guard.armed = false;
            match r {
                Ok(seen) => emit(json!({"ev": "Write", "w": w, "t": t, "j": j, "k": "k1", "seen": seen})),
                Err(e) => {
                    emit(json!({"ev": "PermitDrop", "w": w, "t": t, "why": "write-error"}));
                    return Err(format!("write failed: {e}"));
                }
            }
            emit(json!({"ev": "PermitDrop", "w": w, "t": t, "why": "cancel"}));
            let _permit = permit;
            std::future::pending::<()>().await;
            Ok(())
        }
        Ending::DropInFlightThenDrop | Ending::DropInFlightThenFinish => {
            // the writer keeps a started query future alive and drops the permit meanwhile
            let j = plan.keys.len() as i64;
            emit(json!({"ev": "WriteCall", "w": w, "t": t, "j": j, "k": "k2"}));
            let inside = Arc::new(std::sync::atomic::AtomicBool::new(false));
            let s2 = store.clone();
            let (w2, inside2) = (w.clone(), inside.clone());
            let mut write: Pin<Box<dyn Future<Output = Result<i64, SqliteError>> + Send>> =
                Box::pin(async move { gated_write(&s2, &w2, t, j, "k2", inside2, None, None).await });
            match futures_util::poll!(write.as_mut()) {
                Poll::Pending if inside.load(std::sync::atomic::Ordering::SeqCst) => {
                    // the call is in flight and holds the slot lock
                    emit(json!({"ev": "PermitDrop", "w": w, "t": t, "why": "write-in-flight"}));
                    drop(permit);
                    yields(y(&plan, 8)).await;
                    if plan.ending == Ending::DropInFlightThenFinish {
                        let _ = write.await;
                    } else {
                        drop(write);
                    }
                    Ok(())
                }
                Poll::Pending => {
                    // it did not get as far as the lock in one poll: an ordinary write, then drop
                    let seen = write.await.map_err(|e| format!("write failed: {e}"))?;
                    emit(json!({"ev": "Write", "w": w, "t": t, "j": j, "k": "k2", "seen": seen}));
                    emit(json!({"ev": "PermitDrop", "w": w, "t": t, "why": "drop"}));
                    drop(permit);
                    Ok(())
                }
                Poll::Ready(r) => {
                    let seen = r.map_err(|e| format!("write failed: {e}"))?;
                    emit(json!({"ev": "Write", "w": w, "t": t, "j": j, "k": "k2", "seen": seen}));
                    emit(json!({"ev": "PermitDrop", "w": w, "t": t, "why": "drop"}));
                    drop(permit);
                    Ok(())
                }
            }
        }
        Ending::DropWhileHelperThenAbort | Ending::DropWhileHelperThenFinish => {
            // a second task works inside the same transaction ("Transaction II" in the docs of
            // SqliteStore); the permit holder aborts while that task is inside tx(..)
            let j = plan.keys.len() as i64;
            let (inside_tx, inside_rx) = oneshot::channel();
            let (go_tx, go_rx) = oneshot::channel();
            let (s2, w2) = (store.clone(), w.clone());
            let helper = tokio::spawn(async move {
                emit(json!({"ev": "Spawn", "w": w2, "task": tokio::task::id().to_string()}));
                emit(json!({"ev": "WriteCall", "w": w2, "t": t, "j": j, "k": "k3"}));
                let inside = Arc::new(std::sync::atomic::AtomicBool::new(false));
                gated_write(&s2, &w2, t, j, "k3", inside, Some(inside_tx), Some(go_rx)).await
            });
            if inside_rx.await.is_err() {
                let _ = helper.await;
                emit(json!({"ev": "PermitDrop", "w": w, "t": t, "why": "helper-failed"}));
                return Err("the helper task did not get into tx(..)".into());
            }
            emit(json!({"ev": "PermitDrop", "w": w, "t": t, "why": "helper-in-flight"}));
            drop(permit);
            yields(y(&plan, 8)).await;
            if plan.ending == Ending::DropWhileHelperThenFinish {
                let _ = go_tx.send(());
            } else {
                helper.abort();
            }
            let _ = helper.await;
            Ok(())
        }
        Ending::CommitMacro | Ending::ErrorMacro => unreachable!(),
    }
}

/// Logical writer: runs its transactions one after another, each in a task of its own.
async fn writer(store: SqliteStore, w: String, plans: Vec<Plan>, abort_after: Vec<u8>) -> Vec<String> {
    let mut problems = Vec::new();
    for (t, plan) in plans.into_iter().enumerate() {
        let (parked_tx, parked_rx) = oneshot::channel();
        let ending = plan.ending;
        let handle = tokio::spawn(transaction_task(store.clone(), w.clone(), t as i64, plan, parked_tx));
        if matches!(
            ending,
            Ending::CancelHolding | Ending::CancelInBegin | Ending::CancelInCommit | Ending::CancelInRollback | Ending::CancelInWrite
        ) {
            // wait until the task says it is where it wants to be cancelled (or is gone)
            let _ = parked_rx.await;
            yields(abort_after.get(t).copied().unwrap_or(0)).await;
            handle.abort();
        }
        match handle.await {
            Ok(Ok(())) => {}
            Ok(Err(e)) => problems.push(format!("{w}/{t}: {e}")),
            Err(e) if e.is_cancelled() => {}
            Err(e) if e.is_panic() => {
                // only the writer's own panic is expected; a panic of the store is a finding
                let text = panic_text(e.into_panic());
                if !(ending == Ending::Panic && text == WRITER_PANIC) {
                    problems.push(format!("PANIC {w}/{t}: {text}"));
                }
            }
            Err(e) => problems.push(format!("{w}/{t}: task failed: {e}")),
        }
    }
    problems
}

struct RunResult {
    events: Vec<Value>,
    problems: Vec<String>,
    select_error: Option<String>,
    hung: bool,
    committed: usize,
}

fn random_plan(rng: &mut Rng, keys: &[&str]) -> Plan {
    Plan {
        keys: (0..rng.below(4)).map(|_| rng.pick(keys).to_string()).collect(),
        ending: *rng.pick(&ENDINGS),
        yields: (0..10).map(|_| if rng.chance(1, 2) { 0 } else { rng.below(4) as u8 }).collect(),
    }
}

fn record_run(rng: &mut Rng, run: usize, kind: &'static str) -> RunResult {
    let nwriters = rng.range(2, 5) as usize;
    let keys = ["k1", "k2", "k3"];
    let mut scripts = Vec::new();
    for i in 0..nwriters {
        let ntx = rng.range(1, 4) as usize;
        let plans: Vec<Plan> = (0..ntx).map(|_| random_plan(rng, &keys)).collect();
        let abort_after: Vec<u8> = (0..ntx).map(|_| rng.below(12) as u8).collect();
        scripts.push((format!("w{}", i + 1), plans, abort_after));
    }
    let workers = rng.range(2, 4) as usize;
    let rt = tokio::runtime::Builder::new_multi_thread().worker_threads(workers).enable_all().build().expect("runtime");
    let _ = verif::drain();
    let out = catch_unwind(AssertUnwindSafe(|| rt.block_on(async move {
        let db = Db::open(kind, run as u64).await;
        let _ = verif::drain(); // hook events of nothing so far; be sure the log starts empty
        emit(json!({"ev": "Reset", "run": run, "store": kind, "writers": nwriters}));
        let store = db.store.clone();
        let body = async {
            let handles: Vec<_> = scripts
                .into_iter()
                .map(|(w, plans, abort_after)| tokio::spawn(writer(store.clone(), w, plans, abort_after)))
                .collect();
            let mut problems = Vec::new();
            for h in handles {
                match h.await {
                    Ok(p) => problems.extend(p),
                    Err(e) => problems.push(format!("writer task failed: {e}")),
                }
            }
            // Every aborted transaction must let a later one start: one more transaction by the
            // main task (no tokio task id) once everybody is through. It also waits for the
            // spawned rollback tasks, so the log is complete when it returns.
            emit(json!({"ev": "Spawn", "w": "main", "task": ""}));
            match store.begin().await {
                Ok(permit) => {
                    emit(json!({"ev": "BeginRet", "w": "main", "t": 0}));
                    if let Err(e) = store.rollback(permit).await {
                        problems.push(format!("final rollback failed: {e}"));
                    }
                }
                Err(e) => problems.push(format!("final begin failed: {e}")),
            }
            problems
        };
        let (problems, hung) = match tokio::time::timeout(WATCHDOG, body).await {
            Ok(p) => (p, false),
            Err(_) => (vec![], true),
        };
        let mut committed = 0;
        let mut select_error = None;
        if !hung {
            let read = async {
                quiesce(&db.store).await?;
                read_all(&db.store).await
            };
            match read.await {
                Ok((log, kv)) => {
                    committed = log.len();
                    emit(json!({"ev": "Final", "log": rows_json(&log), "kv": kv_json(&kv)}));
                }
                Err(e) => {
                    // the committed data cannot even be read (e.g. the tables are gone)
                    emit(json!({"ev": "Final", "log": [], "kv": {}, "select_error": e.to_string()}));
                    select_error = Some(e.to_string());
                }
            }
            drop(store);
            db.close().await;
        }
        let problems = (problems, select_error);
        (problems, hung, committed)
    })));
    let out = match out {
        Ok(o) => o,
        // a panic of the store in the main task (the final transaction)
        Err(e) => ((vec![format!("PANIC main: {}", panic_text(e))], None), false, 0),
    };
    if out.1 {
        // tasks may be stuck for good: do not wait for them
        rt.shutdown_background();
    }
    let events = verif::drain()
        .into_iter()
        .map(|(seq, line)| {
            let mut v: Value = serde_json::from_str(&line).unwrap_or_else(|_| json!({"ev": "unparsable", "line": line}));
            v["seq"] = json!(seq);
            v
        })
        .collect();
    RunResult { events, problems: out.0.0, select_error: out.0.1, hung: out.1, committed: out.2 }
}

/// One hook event marks two protocol steps when the second follows without an await point
/// (commit done -> permit released, rollback done -> permit released): the trace gets two lines.
fn expand(ev: &Value) -> Vec<Value> {
    let name = ev["ev"].as_str().unwrap_or("");
    let with = |n: &str| {
        let mut e = ev.clone();
        e["ev"] = json!(n);
        e["hook"] = json!(name);
        e
    };
    match name {
        "sqlite.acquired" => vec![with("Acquired")],
        "sqlite.begin" => vec![with("Begin")],
        "sqlite.tx.locked" => vec![with("TxLocked")],
        "sqlite.tx.unlocked" => vec![with("TxUnlocked")],
        "sqlite.commit.ok" => vec![with("Commit"), with("Release")],
        // a failed COMMIT drops the sqlx transaction, which rolls it back
        "sqlite.commit.err" | "sqlite.rollback.ok" | "sqlite.rollback.err" => vec![with("Rollback"), with("Release")],
        "sqlite.auto_rollback.some" | "sqlite.auto_rollback.none" => vec![with("AutoRollback"), with("AutoRelease")],
        // emitted after the release: carries no ordering information
        "sqlite.auto_rollback.released" => vec![],
        _ => vec![ev.clone()],
    }
}

fn record(args: &Args) {
    let mut rng = Rng::new(args.seed);
    let n = if args.n > 0 { args.n } else { 100 };
    let mut trace = TraceWriter::create(args.out.as_ref().expect("--out"));
    let mut out = Outcome::new(
        args,
        "seeded random runs of 2-5 concurrent writers x 1-4 transactions (0-3 writes, 15 ways to end, random yields) on a \
         multi-thread runtime against a real SQLite store (alternating in-memory / file-backed pool); evaluation = one run; \
         non-trivial = a run with at least one committed and one aborted transaction; distinct by event sequence",
    );
    for run in 0..n {
        let kind = if run % 2 == 0 { "memory" } else { "file" };
        out.eval();
        let r = record_run(&mut rng, run, kind);
        if r.hung {
            out.violation(
                "C10",
                "transactions-do-not-finish",
                format!("writers / the final transaction did not finish within the {}s watchdog", WATCHDOG.as_secs()),
                json!({"run": run, "store": kind, "events": r.events}),
            );
            continue;
        }
        if let Some(e) = &r.select_error {
            out.violation(
                "C10",
                "committed-rows-unreadable",
                format!("[{kind} pool] after all writers finished the committed rows cannot be read: {e}"),
                json!({"run": run, "store": kind, "events": r.events}),
            );
        }
        if let Some(p) = r.problems.iter().find(|p| p.starts_with("PANIC")) {
            out.violation(
                "C10",
                "store-panics",
                format!("[{kind} pool] {p}"),
                json!({"run": run, "store": kind, "events": r.events}),
            );
        }
        for p in &r.problems {
            // an unexpected error of a store call is not a C10 verdict (the trace decides); make it visible
            out.count("unexpected_store_errors");
            eprintln!("run {run}: {p}");
        }
        let mut key = String::new();
        let mut aborted = false;
        for ev in &r.events {
            let name = ev["ev"].as_str().unwrap_or("");
            out.count(&format!("ev:{name}"));
            if name.starts_with("sqlite.auto_rollback.some") || name.starts_with("sqlite.rollback") {
                aborted = true;
            }
            key.push_str(&format!("{}{};", &name[name.len().min(7)..], ev["w"].as_str().unwrap_or("")));
            for line in expand(ev) {
                trace.event(line);
            }
        }
        if r.committed > 0 && aborted {
            out.mark_distinct(key);
        }
        if run < 2 {
            out.sample(json!({"run": run, "store": kind, "events": r.events.len(), "committed_rows": r.committed}));
        }
    }
    let (events, runs) = trace.finish();
    out.set_trace(events, runs);
    out.write(args);
}

// ==========================================================================================
// replay: TLC schedules forced on a current-thread runtime
// ==========================================================================================

type Fut<T> = Pin<Box<dyn Future<Output = T>>>;

#[derive(Default)]
struct Control {
    /// who is being polled by the harness right now
    actor: String,
    /// futures parked at a schedule point: (point, actor, release)
    parked: Vec<(String, String, oneshot::Sender<()>)>,
}

static CONTROL: Mutex<Option<Control>> = Mutex::new(None);

fn control<R>(f: impl FnOnce(&mut Control) -> R) -> R {
    let mut g = CONTROL.lock().unwrap_or_else(|e| e.into_inner());
    f(g.get_or_insert_with(Control::default))
}

fn install_controller() {
    verif::set_async_controller(Some(Arc::new(|name: &'static str| {
        let (tx, rx) = oneshot::channel::<()>();
        control(|c| {
            let actor = if name.starts_with("sqlite.auto_rollback") { "rb".to_string() } else { c.actor.clone() };
            c.parked.push((name.to_string(), actor, tx));
        });
        let parked: verif::Parked = Box::pin(async move {
            let _ = rx.await;
        });
        Some(parked)
    })));
}

fn set_actor(a: &str) {
    control(|c| c.actor = a.to_string());
}

fn is_parked(point: &str, actor: &str) -> bool {
    control(|c| c.parked.iter().any(|(p, a, s)| p == point && a == actor && !s.is_canceled()))
}

fn count_parked(point: &str) -> usize {
    control(|c| c.parked.iter().filter(|(p, _, s)| p == point && !s.is_canceled()).count())
}

/// Lets the future parked at (point, actor) continue.
fn release(point: &str, actor: &str) -> bool {
    control(|c| {
        if let Some(i) = c.parked.iter().position(|(p, a, s)| p == point && a == actor && !s.is_canceled()) {
            let (_, _, s) = c.parked.remove(i);
            s.send(()).is_ok()
        } else {
            false
        }
    })
}

fn forget_cancelled() {
    control(|c| c.parked.retain(|(_, _, s)| !s.is_canceled()));
}

#[derive(Debug)]
enum Stop<T> {
    Ready(T),
    /// the stop condition (parked at a point / event seen) holds
    Cond,
    /// polled `max_polls` times, still pending and the condition does not hold
    Pending,
    Panicked(String),
    Hung,
}

fn panic_text(e: Box<dyn std::any::Any + Send>) -> String {
    if let Some(s) = e.downcast_ref::<&str>() {
        s.to_string()
    } else if let Some(s) = e.downcast_ref::<String>() {
        s.clone()
    } else {
        "panic".into()
    }
}

/// Polls `fut` by hand as `actor`, yielding to the runtime between polls (sqlx returns
/// connections to the pool in spawned tasks), until it is ready, `cond` holds, or - if
/// `max_polls` is given - it was polled that often.
async fn drive<T>(actor: &str, fut: &mut Fut<T>, cond: impl Fn() -> bool, max_polls: Option<usize>) -> Stop<T> {
    let start = Instant::now();
    let mut polls = 0usize;
    loop {
        set_actor(actor);
        let polled = PollOnce(fut.as_mut()).await;
        set_actor("");
        match polled {
            Err(p) => return Stop::Panicked(p),
            Ok(Poll::Ready(v)) => return Stop::Ready(v),
            Ok(Poll::Pending) => {}
        }
        polls += 1;
        if cond() {
            return Stop::Cond;
        }
        if max_polls.is_some_and(|m| polls >= m) {
            return Stop::Pending;
        }
        tokio::task::yield_now().await;
        if polls % 32 == 0 {
            std::thread::sleep(Duration::from_micros(200));
        }
        if start.elapsed() > WATCHDOG {
            return Stop::Hung;
        }
    }
}

/// Future that polls the inner future exactly once with the caller's waker; a panic of the
/// polled code is data.
struct PollOnce<'a, T>(Pin<&'a mut (dyn Future<Output = T> + 'static)>);

impl<T> Future for PollOnce<'_, T> {
    type Output = Result<Poll<T>, String>;
    fn poll(mut self: Pin<&mut Self>, cx: &mut std::task::Context<'_>) -> Poll<Self::Output> {
        Poll::Ready(catch_unwind(AssertUnwindSafe(|| self.0.as_mut().poll(cx))).map_err(panic_text))
    }
}

/// `drive` to the end for futures that call `store.tx(..)` once: the call parks under the slot
/// lock (schedule point `sqlite.tx.locked`) and is let go at once.
async fn drive_through_lock<T>(actor: &str, fut: &mut Fut<T>) -> Stop<T> {
    match drive(actor, fut, || is_parked(P_TX_LOCKED, actor), None).await {
        Stop::Cond => {
            release(P_TX_LOCKED, actor);
            drive(actor, fut, || false, None).await
        }
        other => other,
    }
}

/// Lets spawned tasks run until `cond` holds.
async fn settle(cond: impl Fn() -> bool) -> bool {
    let start = Instant::now();
    let mut n = 0usize;
    while !cond() {
        tokio::task::yield_now().await;
        n += 1;
        if n % 32 == 0 {
            std::thread::sleep(Duration::from_micros(200));
        }
        if start.elapsed() > WATCHDOG {
            return false;
        }
    }
    true
}

enum WState {
    Idle,
    /// `begin()` called; pending on the semaphore or parked at `sqlite.begin.acquired`
    Beginning(Fut<Result<TransactionPermit, SqliteError>>),
    InTx(TransactionPermit),
    /// a `tx(..)` call of the transaction is in flight, parked under the slot lock; `true`: it has an effect
    Writing(TransactionPermit, Fut<Result<i64, SqliteError>>, bool),
    /// the permit was dropped while that call was in flight
    Orphan(Fut<Result<i64, SqliteError>>),
    /// `commit` / `rollback` parked before the permit is released
    Ending(&'static str, Fut<Result<(), SqliteError>>),
}

struct Writer {
    name: String,
    state: WState,
    t: i64,
    j: i64,
}

const P_ACQUIRED: &str = "sqlite.begin.acquired";
const P_TX_LOCKED: &str = "sqlite.tx.locked";
const P_COMMIT: &str = "sqlite.commit.done";
const P_ROLLBACK: &str = "sqlite.rollback.done";
const P_RB_START: &str = "sqlite.auto_rollback.start";
const P_RB_DONE: &str = "sqlite.auto_rollback.done";

fn begin_future(store: &SqliteStore) -> Fut<Result<TransactionPermit, SqliteError>> {
    let s = store.clone();
    Box::pin(async move { s.begin().await })
}

type Fail = (&'static str, String);

fn rows_from_json(v: &Value) -> Vec<Row> {
    v.as_array()
        .map(|a| {
            a.iter()
                .map(|r| {
                    (
                        r["w"].as_str().unwrap_or("").to_string(),
                        r["t"].as_i64().unwrap_or(-1),
                        r["j"].as_i64().unwrap_or(-1),
                        r["k"].as_str().unwrap_or("").to_string(),
                    )
                })
                .collect()
        })
        .unwrap_or_default()
}

/// Executes one exported behaviour; `Err((signature, detail))` is a disagreement with the spec.
async fn replay_behaviour(b: &Value, kind: &str, id: u64, counters: &mut BTreeMap<String, u64>) -> Result<(), Fail> {
    // which of the two cancellation places each CancelAcquired step uses alternates with this
    let variant = b.get("variant").and_then(|v| v.as_u64()).unwrap_or(id / 2) as usize;
    let db = Db::open(kind, id).await;
    let store = db.store.clone();
    let _ = verif::drain();
    control(|c| *c = Control::default());
    let mut writers: BTreeMap<String, Writer> = BTreeMap::new();
    let result = replay_steps(b, &store, &mut writers, counters, variant).await;
    // clean up whatever the behaviour (or a failure) left behind: let every parked future go,
    // drop all permits / futures, give spawned tasks the chance to finish
    drop(writers);
    loop {
        let senders: Vec<_> = control(|c| c.parked.drain(..).collect());
        if senders.is_empty() {
            break;
        }
        for (_, _, s) in senders {
            let _ = s.send(());
        }
        for _ in 0..8 {
            tokio::task::yield_now().await;
        }
    }
    if result.is_ok() {
        // nothing may be left that keeps a later transaction from starting
        let mut probe = begin_future(&store);
        match drive("end", &mut probe, || is_parked(P_ACQUIRED, "end"), Some(200)).await {
            Stop::Cond => {
                drop(probe);
                forget_cancelled();
            }
            other => {
                return Err(("permit-not-available-at-the-end", format!("a begin() after the behaviour does not get the permit: {}", stop_name(&other))));
            }
        }
    }
    for _ in 0..4 {
        tokio::task::yield_now().await;
    }
    drop(store);
    db.close().await;
    result
}

fn stop_name<T>(s: &Stop<T>) -> String {
    match s {
        Stop::Ready(_) => "returned".into(),
        Stop::Cond => "condition reached".into(),
        Stop::Pending => "still pending".into(),
        Stop::Panicked(p) => format!("panicked: {p}"),
        Stop::Hung => format!("no progress within the {}s watchdog", WATCHDOG.as_secs()),
    }
}

/// Drives a rollback() future through its schedule point to the end.
async fn release_when_parked(w: &str, fut: &mut Fut<Result<(), SqliteError>>) {
    if let Stop::Cond = drive(w, fut, || is_parked(P_ROLLBACK, w), None).await {
        release(P_ROLLBACK, w);
        let _ = drive(w, fut, || false, None).await;
    }
}

async fn replay_steps(
    b: &Value,
    store: &SqliteStore,
    writers: &mut BTreeMap<String, Writer>,
    counters: &mut BTreeMap<String, u64>,
    variant: usize,
) -> Result<(), Fail> {
    let steps = b["steps"].as_array().expect("steps");
    for (si, step) in steps.iter().enumerate() {
        let a = step["a"].as_str().expect("a");
        let w = step["w"].as_str().expect("w").to_string();
        let after = &step["after"];
        *counters.entry(format!("step:{a}")).or_insert(0) += 1;
        let at = |what: &str| format!("step {si} {a}({w}): {what}");
        let writer = writers.entry(w.clone()).or_insert_with(|| Writer { name: w.clone(), state: WState::Idle, t: 0, j: 0 });
        match a {
            "WantBegin" => {
                let mut fut = begin_future(store);
                let want_acquired = after["pc"][&w] == "acquired";
                // no I/O happens before the permit is acquired: a few polls decide
                let r = drive(&w, &mut fut, || is_parked(P_ACQUIRED, &w), Some(4)).await;
                match (r, want_acquired) {
                    (Stop::Cond, true) | (Stop::Pending, false) => {}
                    (Stop::Cond, false) => return Err(("begin-acquires-while-permit-is-taken", at("begin() got the permit although the specification says it is taken"))),
                    (Stop::Pending, true) => return Err(("begin-blocked-while-permit-is-free", at("begin() stays pending although the permit is free"))),
                    (other, _) => return Err(("begin-misbehaves", at(&stop_name(&other)))),
                }
                writer.state = WState::Beginning(fut);
                writer.j = 0;
            }
            "SetSlot" => {
                let WState::Beginning(mut fut) = std::mem::replace(&mut writer.state, WState::Idle) else {
                    return Err(("harness-out-of-sync", at("writer is not in begin()")));
                };
                if !release(P_ACQUIRED, &w) {
                    return Err(("begin-not-at-acquired-point", at("begin() is not parked after acquiring the permit")));
                }
                match drive(&w, &mut fut, || false, None).await {
                    Stop::Ready(Ok(permit)) => writer.state = WState::InTx(permit),
                    Stop::Ready(Err(e)) => return Err(("begin-fails", at(&format!("begin() returned {e}")))),
                    other => return Err(("begin-misbehaves", at(&stop_name(&other)))),
                }
            }
            "CancelWaiting" => {
                // dropping the future: tokio unlinks the waiter
                writer.state = WState::Idle;
                forget_cancelled();
                writer.t += 1;
            }
            "CancelAcquired" => {
                let WState::Beginning(mut fut) = std::mem::replace(&mut writer.state, WState::Idle) else {
                    return Err(("harness-out-of-sync", at("writer is not in begin()")));
                };
                // places to cancel a begin() that holds the permit: right after the permit was
                // acquired (parked at the schedule point), or 1..5 polls later, somewhere in the
                // middle of `pool.begin()` (waiting for the connection, connection checked out and
                // being tested, BEGIN in flight)
                if (si + variant) % 3 != 0 {
                    *counters.entry("cancel:inside-pool-begin".into()).or_insert(0) += 1;
                    release(P_ACQUIRED, &w);
                    match drive(&w, &mut fut, || false, Some(1 + (si + variant) % 5)).await {
                        Stop::Pending => {}
                        Stop::Ready(Ok(permit)) => {
                            // it went through in a single poll: give the transaction back properly
                            let s = store.clone();
                            let mut rb: Fut<Result<(), SqliteError>> = Box::pin(async move { s.rollback(permit).await });
                            release_when_parked(&w, &mut rb).await;
                        }
                        Stop::Ready(Err(e)) => return Err(("begin-fails", at(&format!("begin() returned {e}")))),
                        other => return Err(("begin-misbehaves", at(&stop_name(&other)))),
                    }
                } else {
                    *counters.entry("cancel:at-acquired-point".into()).or_insert(0) += 1;
                }
                drop(fut);
                forget_cancelled();
                writer.t += 1;
            }
            "LockSlot" => {
                let WState::InTx(permit) = std::mem::replace(&mut writer.state, WState::Idle) else {
                    return Err(("harness-out-of-sync", at("writer holds no permit")));
                };
                let k = step["k"].as_str().expect("k").to_string();
                let effect = k != "none";
                let (s, name, t, j) = (store.clone(), w.clone(), writer.t, writer.j);
                let mut fut: Fut<Result<i64, SqliteError>> = if effect {
                    Box::pin(async move { do_write(&s, &name, t, j, &k).await })
                } else {
                    // a call without effect: the statement fails, the transaction stays usable
                    Box::pin(async move { failing_statement(&s).await.map(|_| -1) })
                };
                // the call takes the slot lock and parks under it
                match drive(&w, &mut fut, || is_parked(P_TX_LOCKED, &w), None).await {
                    Stop::Cond => writer.state = WState::Writing(permit, fut, effect),
                    other => return Err(("write-misbehaves", at(&stop_name(&other)))),
                }
            }
            "UnlockSlot" => {
                let WState::Writing(permit, mut fut, effect) = std::mem::replace(&mut writer.state, WState::Idle) else {
                    return Err(("harness-out-of-sync", at("no call in flight")));
                };
                release(P_TX_LOCKED, &w);
                match (drive(&w, &mut fut, || false, None).await, effect) {
                    (Stop::Ready(Ok(seen)), true) => {
                        let expect = after["ndb"].as_i64().unwrap() + after["ndirty"].as_i64().unwrap();
                        if seen != expect {
                            return Err(("transaction-sees-wrong-rows", at(&format!("{seen} rows visible inside the transaction, specification says {expect}"))));
                        }
                        writer.j += 1;
                    }
                    (Stop::Ready(Err(_)), false) => {}
                    (Stop::Ready(Ok(_)), false) => return Err(("harness-out-of-sync", at("the failing statement succeeded"))),
                    (Stop::Ready(Err(e)), true) => return Err(("write-fails", at(&format!("{e}")))),
                    (other, _) => return Err(("write-misbehaves", at(&stop_name(&other)))),
                }
                writer.state = WState::InTx(permit);
            }
            "DropPermitInFlight" => {
                // the permit goes away while the call in flight holds the slot lock
                let WState::Writing(permit, fut, _) = std::mem::replace(&mut writer.state, WState::Idle) else {
                    return Err(("harness-out-of-sync", at("no call in flight")));
                };
                drop(permit);
                writer.state = WState::Orphan(fut);
                let n = after["rb_spawned"].as_u64().unwrap() as usize;
                if !settle_for(|| count_parked(P_RB_START) >= n, 64).await {
                    return Err(("rollback-task-not-spawned", at("no rollback task showed up after the permit was dropped")));
                }
            }
            "OrphanEnds" => {
                let WState::Orphan(mut fut) = std::mem::replace(&mut writer.state, WState::Idle) else {
                    return Err(("harness-out-of-sync", at("no abandoned call in flight")));
                };
                if step["why"] == "finished" {
                    *counters.entry("orphan:finished".into()).or_insert(0) += 1;
                    release(P_TX_LOCKED, &w);
                    match drive(&w, &mut fut, || false, None).await {
                        Stop::Ready(_) => {}
                        other => return Err(("write-misbehaves", at(&stop_name(&other)))),
                    }
                } else {
                    *counters.entry("orphan:dropped".into()).or_insert(0) += 1;
                    drop(fut);
                    forget_cancelled();
                }
                writer.t += 1;
            }
            "TakeCommit" | "TakeRollback" => {
                let WState::InTx(permit) = std::mem::replace(&mut writer.state, WState::Idle) else {
                    return Err(("harness-out-of-sync", at("writer holds no permit")));
                };
                let s = store.clone();
                let commit = a == "TakeCommit";
                let point = if commit { P_COMMIT } else { P_ROLLBACK };
                let mut fut: Fut<Result<(), SqliteError>> =
                    Box::pin(async move { if commit { s.commit(permit).await } else { s.rollback(permit).await } });
                match drive(&w, &mut fut, || is_parked(point, &w), None).await {
                    Stop::Cond => writer.state = WState::Ending(point, fut),
                    other => return Err(("commit-or-rollback-misbehaves", at(&stop_name(&other)))),
                }
            }
            "ReleasePermit" => {
                let WState::Ending(point, mut fut) = std::mem::replace(&mut writer.state, WState::Idle) else {
                    return Err(("harness-out-of-sync", at("writer is not in commit / rollback")));
                };
                release(point, &w);
                match drive(&w, &mut fut, || false, None).await {
                    Stop::Ready(Ok(())) => {}
                    Stop::Ready(Err(e)) => return Err(("commit-or-rollback-fails", at(&format!("{e}")))),
                    other => return Err(("commit-or-rollback-misbehaves", at(&stop_name(&other)))),
                }
                writer.t += 1;
            }
            "DropPermit" => {
                let WState::InTx(permit) = std::mem::replace(&mut writer.state, WState::Idle) else {
                    return Err(("harness-out-of-sync", at("writer holds no permit")));
                };
                let why = step["why"].as_str().unwrap_or("drop");
                *counters.entry(format!("drop:{why}")).or_insert(0) += 1;
                match why {
                    "error" => {
                        // a failing statement, then what `?` does: leave the scope with the permit
                        let s = store.clone();
                        let mut fut: Fut<Result<(), SqliteError>> = Box::pin(async move { failing_statement(&s).await });
                        match drive_through_lock(&w, &mut fut).await {
                            Stop::Ready(Err(_)) => {}
                            Stop::Ready(Ok(())) => return Err(("harness-out-of-sync", at("the failing statement succeeded"))),
                            other => return Err(("write-misbehaves", at(&stop_name(&other)))),
                        }
                        drop(permit);
                    }
                    "panic" => {
                        let _ = catch_unwind(AssertUnwindSafe(move || {
                            let _permit = permit;
                            panic!("writer panics inside its transaction");
                        }));
                    }
                    "cancel" => {
                        let mut fut: Fut<()> = Box::pin(async move {
                            let _permit = permit;
                            std::future::pending::<()>().await;
                        });
                        let _ = drive(&w, &mut fut, || false, Some(1)).await;
                        drop(fut);
                    }
                    _ => drop(permit),
                }
                writer.t += 1;
                // the spawned rollback task gets polled once and parks before doing anything
                let n = after["rb_spawned"].as_u64().unwrap() as usize;
                if !settle_for(|| count_parked(P_RB_START) >= n, 64).await {
                    return Err(("rollback-task-not-spawned", at("no rollback task showed up after the permit was dropped")));
                }
            }
            "RbStart" => {
                // the task runs and asks for the slot lock: it rolls back at once, or it has to
                // wait for the tx(..) call in flight (checked below: it may not be through)
                if !release(P_RB_START, "rb") {
                    return Err(("rollback-task-not-spawned", at("no rollback task is waiting to start")));
                }
                let taken = after["rb_taken"].as_u64().unwrap() as usize;
                if after["rb_waiting"].as_u64().unwrap() == 0 && !settle(|| count_parked(P_RB_DONE) >= taken).await {
                    return Err(("rollback-task-does-not-finish", at("the rollback task never reached the point before releasing the permit")));
                }
            }
            "RbRelease" => {
                if !release(P_RB_DONE, "rb") {
                    return Err(("rollback-task-not-spawned", at("no rollback task is waiting to release")));
                }
                let released = |evs: &[(u64, String)]| evs.iter().any(|(_, e)| e.contains("sqlite.auto_rollback.released"));
                let start = Instant::now();
                loop {
                    if released(&verif::drain()) {
                        break;
                    }
                    tokio::task::yield_now().await;
                    if start.elapsed() > WATCHDOG {
                        return Err(("rollback-task-does-not-finish", at("the rollback task never released the permit")));
                    }
                }
            }
            other => {
                eprintln!("unknown action {other}");
                std::process::exit(2);
            }
        }
        let _ = writer.name.len();
        check_state(store, writers, after, si, a, &w).await?;
    }
    // the final database
    let expected = rows_from_json(&b["db"]);
    match read_all(store).await {
        Ok((log, kv)) => {
            if log != expected {
                return Err(("committed-rows-differ", format!("after the behaviour the log table holds {log:?}, specification says {expected:?}")));
            }
            if kv != lww(&expected) {
                return Err(("committed-rows-differ", format!("after the behaviour the kv table holds {kv:?}, specification says {:?}", lww(&expected))));
            }
        }
        Err(e) => return Err(("committed-rows-unreadable", format!("{e}"))),
    }
    Ok(())
}

/// `settle` with a bounded number of yields (for conditions that need no I/O).
async fn settle_for(cond: impl Fn() -> bool, max_yields: usize) -> bool {
    for _ in 0..max_yields {
        if cond() {
            return true;
        }
        tokio::task::yield_now().await;
    }
    cond()
}

/// After every step the implementation must be where the specification is.
async fn check_state(
    store: &SqliteStore,
    writers: &mut BTreeMap<String, Writer>,
    after: &Value,
    si: usize,
    a: &str,
    w: &str,
) -> Result<(), Fail> {
    let at = |what: &str| format!("after step {si} {a}({w}): {what}");
    // 1. every begin() in flight: parked behind the acquired permit iff the specification says
    //    it has the permit; pending on the semaphore otherwise
    for (name, writer) in writers.iter_mut() {
        let pc = after["pc"][name].as_str().unwrap_or("?");
        if let WState::Beginning(fut) = &mut writer.state {
            let parked = is_parked(P_ACQUIRED, name);
            let r = if parked { Stop::Cond } else { drive(name, fut, || is_parked(P_ACQUIRED, name), Some(4)).await };
            match (r, pc) {
                (Stop::Cond, "acquired") | (Stop::Pending, "waiting") => {}
                (Stop::Cond, _) => return Err(("begin-acquires-while-permit-is-taken", at(&format!("begin() of {name} got the permit, specification says pc = {pc}")))),
                (Stop::Pending, _) => return Err(("begin-blocked-while-permit-is-free", at(&format!("begin() of {name} is still pending, specification says pc = {pc}")))),
                (other, _) => return Err(("begin-misbehaves", at(&format!("begin() of {name}: {}", stop_name(&other))))),
            }
        } else if pc == "waiting" || pc == "acquired" {
            return Err(("harness-out-of-sync", at(&format!("{name} should be inside begin()"))));
        }
    }
    // 2. rollback tasks
    let (spawned, taken) = (after["rb_spawned"].as_u64().unwrap() as usize, after["rb_taken"].as_u64().unwrap() as usize);
    if after["rb_waiting"].as_u64().unwrap() > 0 {
        // a rollback task waits for the slot lock held by a tx(..) call in flight: give it the
        // chance to do something else (it needs no I/O to get anywhere it should not be)
        settle_for(|| false, 16).await;
    }
    // a task that got the slot lock handed over rolls back (I/O) and parks before the release
    if !settle(|| count_parked(P_RB_DONE) >= taken).await {
        return Err(("rollback-task-does-not-finish", at("a rollback task that owns the slot lock never reached the point before releasing the permit")));
    }
    if count_parked(P_RB_START) != spawned || count_parked(P_RB_DONE) != taken {
        return Err((
            "rollback-tasks-differ",
            at(&format!("{} rollback task(s) waiting to start / {} waiting to release, specification says {spawned} / {taken}",
                count_parked(P_RB_START), count_parked(P_RB_DONE))),
        ));
    }
    // 3. the semaphore: a probe begin() acquires the permit iff the specification says it is free
    let sem = after["sem"].as_i64().unwrap();
    let mut probe = begin_future(store);
    let r = drive("probe", &mut probe, || is_parked(P_ACQUIRED, "probe"), Some(4)).await;
    drop(probe); // returns the permit / leaves the queue
    forget_cancelled();
    match (r, sem) {
        (Stop::Cond, 1) | (Stop::Pending, 0) => {}
        (Stop::Cond, _) => return Err(("permit-free-while-specification-says-taken", at("a probe begin() acquired the permit"))),
        (Stop::Pending, _) => return Err(("permit-taken-while-specification-says-free", at("a probe begin() did not get the permit"))),
        (other, _) => return Err(("begin-misbehaves", at(&format!("probe begin(): {}", stop_name(&other))))),
    }
    // handing the probe's permit back may have woken the head of the queue: it must be unaffected
    // 4. committed rows, whenever no transaction is open (an in-memory pool has one connection)
    if after["slot"] == "none" {
        let expected = rows_from_json(&after["db"]);
        let s = store.clone();
        let mut fut: Fut<Result<(Vec<Row>, BTreeMap<String, (String, i64, i64)>), SqliteError>> = Box::pin(async move { read_all(&s).await });
        match drive("reader", &mut fut, || false, None).await {
            Stop::Ready(Ok((log, kv))) => {
                if log != expected || kv != lww(&expected) {
                    return Err(("committed-rows-differ", at(&format!("the database holds {log:?}, specification says {expected:?}"))));
                }
            }
            Stop::Ready(Err(e)) => return Err(("committed-rows-unreadable", at(&format!("{e}")))),
            other => return Err(("read-misbehaves", at(&stop_name(&other)))),
        }
    }
    Ok(())
}

fn replay(args: &Args) {
    let behaviours = read_ndjson(args.input.as_ref().expect("--in"));
    let mut out = Outcome::new(
        args,
        "every TLC-exported schedule forced on the real SqliteStore (current-thread runtime, futures polled by hand, hook \
         schedule points), alternating in-memory / file-backed pool; after every step: who holds / waits for the permit, \
         rollback tasks, a probe begin(), committed rows; non-trivial = a schedule in which a begin() had to wait or a \
         permit was dropped; distinct by schedule",
    );
    install_controller();
    let rt = tokio::runtime::Builder::new_current_thread().enable_all().build().expect("runtime");
    let mut counters: BTreeMap<String, u64> = BTreeMap::new();
    for (i, b) in behaviours.iter().enumerate() {
        if b["kind"].as_str() != Some("sqlitetx") {
            eprintln!("unknown behaviour kind: {b}");
            std::process::exit(2);
        }
        if out.violations_total >= 8 {
            // the tree is broken: no need to force the remaining schedules (a broken store can make
            // every one of them wait for sqlx's 30 s pool timeout)
            out.count("schedules_skipped_after_violations");
            continue;
        }
        // a stored failing case carries the pool kind it failed with
        let kind = b.get("store").and_then(|s| s.as_str()).map(|s| if s == "file" { "file" } else { "memory" })
            .unwrap_or(if i % 2 == 0 { "memory" } else { "file" });
        out.eval();
        let steps = b["steps"].as_array().expect("steps");
        if steps.iter().any(|s| s["a"] == "DropPermit" || s["after"]["pc"].as_object().is_some_and(|pc| pc.values().any(|v| v == "waiting"))) {
            out.mark_distinct(b["steps"].to_string());
        }
        let r = rt.block_on(replay_behaviour(b, kind, i as u64, &mut counters));
        match r {
            Ok(()) => out.sample(json!({"store": kind, "steps": steps.len(), "db": b["db"]})),
            Err((sig, detail)) => {
                let mut case = b.clone();
                case["store"] = json!(kind);
                case["variant"] = json!(i / 2);
                if sig == "harness-out-of-sync" {
                    eprintln!("harness out of sync with the exported behaviour: {detail}");
                    std::process::exit(2);
                }
                out.violation("C10", sig, format!("[{kind} pool] {detail}"), case);
            }
        }
    }
    verif::set_async_controller(None);
    for (k, v) in counters {
        out.count_by(&k, v);
    }
    out.write(args);
}

