//! PsiHash (C30): the confidential discovery protocol of p2panda-discovery
//! (`PsiHashDiscoveryProtocol::alice` / `bob`, `gather_transport_infos`) against spec/PsiHash.
//!
//! Both roles of the real protocol run against each other over the real wire encoding of
//! p2panda-net (`p2panda_net::codec`, length-prefixed postcard) on in-memory pipes. The harness
//! sits in the middle of the pipes, keeps every byte that crosses, and
//!
//!  * searches the raw wire bytes, and the CBOR encoding of every decoded message, for the 32
//!    bytes of every raw topic of either party (NoRawTopicOnWire on the real bytes),
//!  * recomputes BLAKE3(topic || alice_salt_half || bob_salt_half || direction) for every topic
//!    of the run and both directions to translate the hashed values on the wire back into the
//!    specification's abstract `H(topic, direction)`; a value that is not one of these is
//!    reported as "unknown" and never matches the specification,
//!  * compares messages and both `DiscoveryResult`s with what the specification computed
//!    (`replay`), or writes them as events for `Trace_PsiHash.tla` (`record`),
//!  * evaluates the three C30 predicates on the implementation's own outputs.
//!
//! The address books are real `SqliteStore`s (in memory) filled through `AddressBookStore`.
use std::collections::{BTreeMap, BTreeSet, HashSet};
use std::sync::{Arc, Mutex};

use p2panda_core::{SigningKey, Topic};
use p2panda_discovery::DiscoveryResult;
use p2panda_discovery::psi_hash::{Config, PsiHashDiscoveryProtocol, PsiHashMessage};
use p2panda_discovery::test_utils::TestSubscription;
use p2panda_discovery::traits::DiscoveryProtocol;
use p2panda_net::codec::{Codec, into_codec_sink, into_codec_stream};
use p2panda_store::address_book::AddressBookStore;
use p2panda_store::address_book::test_utils::{TestNodeId, TestNodeInfo};
use p2panda_store::{SqliteStore, tx_unwrap};
use rand::SeedableRng;
use rand_chacha::ChaCha20Rng;
use tokio::io::{AsyncReadExt, AsyncWriteExt};
use tokio_util::bytes::BytesMut;
use tokio_util::codec::Decoder;
use vh_common::{Args, Outcome, Rng, TraceWriter, Value, json, read_ndjson, unknown};

type Msg = PsiHashMessage<TestNodeId, TestNodeInfo>;
type Res = DiscoveryResult<TestNodeId, TestNodeInfo>;

pub fn run(args: &Args) {
    match args.mode.as_str() {
        "replay" => replay(args),
        "record" => record(args),
        _ => unknown(args),
    }
}

/// One address book entry as the specification describes it.
#[derive(Clone, Debug)]
struct Entry {
    node: String,
    topics: BTreeSet<String>,
    tr: bool,
    stale: bool,
}

/// A configuration of the protocol in abstract names.
#[derive(Clone, Debug)]
struct Case {
    topics_a: BTreeSet<String>,
    topics_b: BTreeSet<String>,
    restrict_a: bool,
    restrict_b: bool,
    book_a: Vec<Entry>,
    book_b: Vec<Entry>,
    alice: String,
    bob: String,
}

/// Abstract view of one message on the wire.
#[derive(Clone, Debug, PartialEq)]
struct WireMsg {
    kind: String,
    from: String,
    /// (topic name or "unknown", direction byte)
    hashes: BTreeSet<(String, u8)>,
    nodes: BTreeSet<String>,
}

struct RunOutput {
    wire: Vec<WireMsg>,
    common_a: BTreeSet<String>,
    common_b: BTreeSet<String>,
    infos_a: BTreeSet<String>,
    infos_b: BTreeSet<String>,
    /// findings about real bytes: (signature, detail)
    byte_findings: Vec<(String, String)>,
    wire_bytes: usize,
}

/// Names <-> real values of one run.
struct Names {
    topics: BTreeMap<String, Topic>,
    nodes: BTreeMap<String, TestNodeId>,
}

impl Names {
    fn topic_name(&self, t: &Topic) -> String {
        self.topics
            .iter()
            .find(|(_, v)| *v == t)
            .map(|(k, _)| k.clone())
            .unwrap_or_else(|| "unknown".into())
    }

    fn node_name(&self, n: &TestNodeId) -> String {
        self.nodes
            .iter()
            .find(|(_, v)| *v == n)
            .map(|(k, _)| k.clone())
            .unwrap_or_else(|| "unknown".into())
    }
}

fn contains(haystack: &[u8], needle: &[u8]) -> bool {
    haystack.windows(needle.len()).any(|w| w == needle)
}

/// Independent reading of psi_hash.rs:342-369.
fn spec_hash(topic: &Topic, alice_half: &[u8; 32], bob_half: &[u8; 32], direction: u8) -> [u8; 32] {
    let mut h = blake3::Hasher::new();
    h.update(topic.as_bytes());
    h.update(alice_half);
    h.update(bob_half);
    h.update(&[direction]);
    *h.finalize().as_bytes()
}

/// The two address book stores are made once (building one runs all migrations) and emptied
/// before every run.
#[derive(Clone)]
struct Stores {
    alice: SqliteStore,
    bob: SqliteStore,
    filled: Arc<Mutex<Vec<TestNodeId>>>,
}

impl Stores {
    async fn new() -> Stores {
        Stores {
            alice: SqliteStore::temporary().await,
            bob: SqliteStore::temporary().await,
            filled: Arc::new(Mutex::new(Vec::new())),
        }
    }

    async fn clear(&self) {
        let ids: Vec<TestNodeId> = std::mem::take(&mut *self.filled.lock().unwrap());
        for store in [&self.alice, &self.bob] {
            for id in &ids {
                tx_unwrap!(store, {
                    <SqliteStore as AddressBookStore<TestNodeId, TestNodeInfo>>::remove_node_info(store, id)
                        .await
                        .expect("remove node info");
                });
            }
            let left = <SqliteStore as AddressBookStore<TestNodeId, TestNodeInfo>>::all_nodes_len(store)
                .await
                .expect("count");
            assert_eq!(left, 0, "address book store not empty after clearing");
        }
    }
}

async fn fill_store(store: &SqliteStore, book: &[Entry], names: &Names, rng: &mut ChaCha20Rng) {
    for e in book {
        let id = names.nodes[&e.node];
        let mut info = TestNodeInfo::new(id);
        if e.tr {
            info = info.with_random_address(rng);
        }
        if e.stale {
            info = info.stale();
        }
        let topics: HashSet<Topic> = e.topics.iter().map(|t| names.topics[t]).collect();
        tx_unwrap!(store, {
            store.insert_node_info(info).await.expect("insert node info");
            <SqliteStore as AddressBookStore<TestNodeId, TestNodeInfo>>::set_topics(store, id, topics)
                .await
                .expect("set topics");
        });
    }
}

/// Runs both roles of the real protocol against each other and returns what was observed.
async fn run_protocol(case: &Case, names: &Names, seed: u64, stores: &Stores) -> Result<RunOutput, String> {
    let mut rng = ChaCha20Rng::seed_from_u64(seed);
    stores.clear().await;
    let alice_store = stores.alice.clone();
    let bob_store = stores.bob.clone();
    stores.filled.lock().unwrap().extend(names.nodes.values().copied());
    fill_store(&alice_store, &case.book_a, names, &mut rng).await;
    fill_store(&bob_store, &case.book_b, names, &mut rng).await;

    let alice_id = names.nodes[&case.alice];
    let bob_id = names.nodes[&case.bob];
    let alice_subscription = TestSubscription {
        topics: case.topics_a.iter().map(|t| names.topics[t]).collect(),
    };
    let bob_subscription = TestSubscription {
        topics: case.topics_b.iter().map(|t| names.topics[t]).collect(),
    };
    let alice_protocol = PsiHashDiscoveryProtocol::<_, _, TestNodeId, TestNodeInfo>::with_config(
        alice_store,
        alice_subscription,
        alice_id,
        bob_id,
        Config { share_nodes_with_common_topics: case.restrict_a },
    );
    let bob_protocol = PsiHashDiscoveryProtocol::<_, _, TestNodeId, TestNodeInfo>::with_config(
        bob_store,
        bob_subscription,
        bob_id,
        alice_id,
        Config { share_nodes_with_common_topics: case.restrict_b },
    );

    // alice <-> relay <-> bob; the relay keeps all bytes, in the order it moved them
    let (alice_io, relay_alice) = tokio::io::duplex(1 << 20);
    let (bob_io, relay_bob) = tokio::io::duplex(1 << 20);
    let captured: Arc<Mutex<Vec<(bool, Vec<u8>)>>> = Arc::new(Mutex::new(Vec::new()));
    let (mut ra_read, mut ra_write) = tokio::io::split(relay_alice);
    let (mut rb_read, mut rb_write) = tokio::io::split(relay_bob);
    let cap = captured.clone();
    let a_to_b = tokio::spawn(async move {
        let mut buf = vec![0u8; 64 * 1024];
        loop {
            match ra_read.read(&mut buf).await {
                Ok(0) | Err(_) => break,
                Ok(n) => {
                    cap.lock().unwrap().push((true, buf[..n].to_vec()));
                    if rb_write.write_all(&buf[..n]).await.is_err() {
                        break;
                    }
                }
            }
        }
        let _ = rb_write.shutdown().await;
    });
    let cap = captured.clone();
    let b_to_a = tokio::spawn(async move {
        let mut buf = vec![0u8; 64 * 1024];
        loop {
            match rb_read.read(&mut buf).await {
                Ok(0) | Err(_) => break,
                Ok(n) => {
                    cap.lock().unwrap().push((false, buf[..n].to_vec()));
                    if ra_write.write_all(&buf[..n]).await.is_err() {
                        break;
                    }
                }
            }
        }
        let _ = ra_write.shutdown().await;
    });

    let (alice_read, alice_write) = tokio::io::split(alice_io);
    let (bob_read, bob_write) = tokio::io::split(bob_io);
    let bob_task = tokio::spawn(async move {
        let mut tx = Box::pin(into_codec_sink::<Msg, _>(bob_write));
        let mut rx = into_codec_stream::<Msg, _>(bob_read);
        bob_protocol.bob(&mut tx, &mut rx).await.map_err(|e| e.to_string())
    });
    let alice_task = tokio::spawn(async move {
        let mut tx = Box::pin(into_codec_sink::<Msg, _>(alice_write));
        let mut rx = into_codec_stream::<Msg, _>(alice_read);
        alice_protocol.alice(&mut tx, &mut rx).await.map_err(|e| e.to_string())
    });
    let alice_result: Res = alice_task
        .await
        .map_err(|e| format!("alice() panicked: {e}"))?
        .map_err(|e| format!("alice() failed: {e}"))?;
    let bob_result: Res = bob_task
        .await
        .map_err(|e| format!("bob() panicked: {e}"))?
        .map_err(|e| format!("bob() failed: {e}"))?;
    let _ = a_to_b.await;
    let _ = b_to_a.await;

    // ---- the bytes
    let chunks = captured.lock().unwrap().clone();
    let mut byte_findings = Vec::new();
    let mut stream_a = BytesMut::new();
    let mut stream_b = BytesMut::new();
    let mut codec_a = Codec::<Msg>::new();
    let mut codec_b = Codec::<Msg>::new();
    let mut raw_a = Vec::new();
    let mut raw_b = Vec::new();
    // messages in the order in which their last byte crossed the relay
    let mut messages: Vec<(bool, Msg)> = Vec::new();
    for (from_alice, bytes) in &chunks {
        let (stream, codec, raw) = if *from_alice {
            (&mut stream_a, &mut codec_a, &mut raw_a)
        } else {
            (&mut stream_b, &mut codec_b, &mut raw_b)
        };
        raw.extend_from_slice(bytes);
        stream.extend_from_slice(bytes);
        loop {
            match codec.decode(stream) {
                Ok(Some(m)) => messages.push((*from_alice, m)),
                Ok(None) => break,
                Err(e) => return Err(format!("wire bytes do not decode: {e}")),
            }
        }
    }
    if !stream_a.is_empty() || !stream_b.is_empty() {
        return Err("trailing bytes on the wire".into());
    }
    let all_topics: BTreeSet<&String> = case.topics_a.iter().chain(case.topics_b.iter()).collect();
    for name in &all_topics {
        let raw_topic = names.topics[*name].as_bytes().to_vec();
        if contains(&raw_a, &raw_topic) || contains(&raw_b, &raw_topic) {
            byte_findings.push((
                "raw-topic-on-wire".into(),
                format!("the 32 bytes of raw topic {name} occur in the postcard wire bytes"),
            ));
        }
    }
    for (i, (_, m)) in messages.iter().enumerate() {
        let mut cbor = Vec::new();
        ciborium::ser::into_writer(m, &mut cbor).map_err(|e| format!("CBOR encoding failed: {e}"))?;
        let standalone = postcard::to_allocvec(m).map_err(|e| format!("postcard encoding failed: {e}"))?;
        for name in &all_topics {
            let raw_topic = names.topics[*name].as_bytes().to_vec();
            if contains(&cbor, &raw_topic) || contains(&standalone, &raw_topic) {
                byte_findings.push((
                    "raw-topic-on-wire".into(),
                    format!("the 32 bytes of raw topic {name} occur in the encoding of message {}", i + 1),
                ));
            }
        }
    }

    // ---- abstraction of the messages
    let mut alice_half = [0u8; 32];
    let mut bob_half = [0u8; 32];
    for (_, m) in &messages {
        match m {
            PsiHashMessage::AliceSaltHalf { alice_salt_half } => alice_half = *alice_salt_half,
            PsiHashMessage::BobSaltHalfAndHashedData { bob_salt_half, .. } => bob_half = *bob_salt_half,
            _ => {}
        }
    }
    let mut dictionary: BTreeMap<[u8; 32], (String, u8)> = BTreeMap::new();
    for name in &all_topics {
        for d in [0u8, 1u8] {
            let h = spec_hash(&names.topics[*name], &alice_half, &bob_half, d);
            if let Some(other) = dictionary.insert(h, ((*name).clone(), d)) {
                byte_findings.push((
                    "hash-collision".into(),
                    format!("H({name},{d}) = H({},{})", other.0, other.1),
                ));
            }
        }
    }
    for name in &all_topics {
        if dictionary.contains_key(names.topics[*name].as_bytes()) {
            byte_findings.push(("hash-equals-raw-topic".into(), format!("a hash value equals raw topic {name}")));
        }
    }
    let abstract_hashes = |set: &HashSet<Topic>| -> BTreeSet<(String, u8)> {
        set.iter()
            .map(|h| dictionary.get(h.as_bytes()).cloned().unwrap_or(("unknown".into(), 255)))
            .collect()
    };
    let mut wire = Vec::new();
    for (from_alice, m) in &messages {
        let from = if *from_alice { case.alice.clone() } else { case.bob.clone() };
        let w = match m {
            PsiHashMessage::AliceSaltHalf { .. } => WireMsg {
                kind: "AliceSaltHalf".into(),
                from,
                hashes: BTreeSet::new(),
                nodes: BTreeSet::new(),
            },
            PsiHashMessage::BobSaltHalfAndHashedData { topics_for_alice, .. } => WireMsg {
                kind: "BobSaltHalfAndHashedData".into(),
                from,
                hashes: abstract_hashes(topics_for_alice),
                nodes: BTreeSet::new(),
            },
            PsiHashMessage::AliceHashedData { topics_for_bob } => WireMsg {
                kind: "AliceHashedData".into(),
                from,
                hashes: abstract_hashes(topics_for_bob),
                nodes: BTreeSet::new(),
            },
            PsiHashMessage::Nodes { transport_infos } => WireMsg {
                kind: "Nodes".into(),
                from,
                hashes: BTreeSet::new(),
                nodes: transport_infos.keys().map(|k| names.node_name(k)).collect(),
            },
        };
        wire.push(w);
    }
    if alice_result.remote_node_id != bob_id || bob_result.remote_node_id != alice_id {
        byte_findings.push(("wrong-remote-id".into(), "DiscoveryResult names the wrong remote node".into()));
    }
    Ok(RunOutput {
        wire,
        common_a: alice_result.topics.iter().map(|t| names.topic_name(t)).collect(),
        common_b: bob_result.topics.iter().map(|t| names.topic_name(t)).collect(),
        infos_a: alice_result.transport_infos.keys().map(|k| names.node_name(k)).collect(),
        infos_b: bob_result.transport_infos.keys().map(|k| names.node_name(k)).collect(),
        byte_findings,
        wire_bytes: raw_a.len() + raw_b.len(),
    })
}

/// The three C30 predicates on the implementation's own outputs: (signature, detail).
fn check_property(case: &Case, o: &RunOutput) -> Vec<(String, String)> {
    let mut out = Vec::new();
    let common: BTreeSet<String> = case.topics_a.intersection(&case.topics_b).cloned().collect();
    if o.common_a != common || o.common_b != common {
        out.push((
            "wrong-intersection".into(),
            format!(
                "topics {:?} / {:?}: intersection {common:?}, alice got {:?}, bob got {:?}",
                case.topics_a, case.topics_b, o.common_a, o.common_b
            ),
        ));
    }
    for (sig, detail) in &o.byte_findings {
        out.push((sig.clone(), detail.clone()));
    }
    for m in &o.wire {
        if m.hashes.iter().any(|(t, _)| t == "unknown") {
            out.push((
                "unexpected-value-on-wire".into(),
                format!("message {} carries a value that is not the salted hash of a topic of its sender", m.kind),
            ));
        }
    }
    let nodes_msgs: Vec<&WireMsg> = o.wire.iter().filter(|m| m.kind == "Nodes").collect();
    for m in nodes_msgs {
        let (book, restricted, me) = if m.from == case.alice {
            (&case.book_a, case.restrict_a, &case.alice)
        } else {
            (&case.book_b, case.restrict_b, &case.bob)
        };
        if restricted {
            let allowed: BTreeSet<String> = book
                .iter()
                .filter(|e| e.topics.intersection(&common).next().is_some())
                .map(|e| e.node.clone())
                .chain([me.clone()])
                .collect();
            if !m.nodes.is_subset(&allowed) {
                out.push((
                    "shared-node-without-common-topic".into(),
                    format!(
                        "{} (restricted sharing, common topics {common:?}) sent node infos of {:?}, allowed {allowed:?}",
                        m.from, m.nodes
                    ),
                ));
            }
        }
    }
    out
}

fn set_of(v: &Value) -> BTreeSet<String> {
    v.as_array()
        .map(|a| a.iter().filter_map(|x| x.as_str().map(String::from)).collect())
        .unwrap_or_default()
}

fn book_of(v: &Value) -> Vec<Entry> {
    v.as_array()
        .map(|a| {
            a.iter()
                .map(|e| Entry {
                    node: e["n"].as_str().unwrap_or("?").to_string(),
                    topics: set_of(&e["topics"]),
                    tr: e["tr"].as_bool().unwrap_or(false),
                    stale: e["stale"].as_bool().unwrap_or(false),
                })
                .collect()
        })
        .unwrap_or_default()
}

fn fresh_names(rng: &mut Rng, topics: &BTreeSet<String>, nodes: &BTreeSet<String>) -> Names {
    let mut t = BTreeMap::new();
    for name in topics {
        let bytes: [u8; 32] = rng.bytes(32).try_into().expect("32 bytes");
        t.insert(name.clone(), Topic::from(bytes));
    }
    let mut n = BTreeMap::new();
    for name in nodes {
        n.insert(name.clone(), SigningKey::generate().verifying_key());
    }
    Names { topics: t, nodes: n }
}

fn runtime() -> tokio::runtime::Runtime {
    tokio::runtime::Builder::new_multi_thread()
        .worker_threads(2)
        .enable_all()
        .build()
        .expect("runtime")
}

fn replay(args: &Args) {
    let behaviours = read_ndjson(args.input.as_ref().expect("--in"));
    let mut out = Outcome::new(
        args,
        "distinct = behaviours with different (topic sets, flags, address books); counted only if at least one party has a topic and one address book has an entry with transport info",
    );
    let mut rng = Rng::new(args.seed);
    let rt = runtime();
    let stores = rt.block_on(Stores::new());
    for b in &behaviours {
        out.eval();
        let case = Case {
            topics_a: set_of(&b["topicsA"]),
            topics_b: set_of(&b["topicsB"]),
            restrict_a: b["restrictA"].as_bool().unwrap_or(false),
            restrict_b: b["restrictB"].as_bool().unwrap_or(false),
            book_a: book_of(&b["bookA"]),
            book_b: book_of(&b["bookB"]),
            alice: b["alice"].as_str().unwrap_or("n1").to_string(),
            bob: b["bob"].as_str().unwrap_or("n2").to_string(),
        };
        let mut topic_names: BTreeSet<String> = case.topics_a.union(&case.topics_b).cloned().collect();
        let mut node_names: BTreeSet<String> = [case.alice.clone(), case.bob.clone()].into_iter().collect();
        for e in case.book_a.iter().chain(case.book_b.iter()) {
            topic_names.extend(e.topics.iter().cloned());
            node_names.insert(e.node.clone());
        }
        let names = fresh_names(&mut rng, &topic_names, &node_names);
        let nontrivial = (!case.topics_a.is_empty() || !case.topics_b.is_empty())
            && case.book_a.iter().chain(case.book_b.iter()).any(|e| e.tr);
        if nontrivial {
            out.mark_distinct(format!(
                "{:?}{:?}{}{}{:?}{:?}",
                case.topics_a, case.topics_b, case.restrict_a, case.restrict_b, case.book_a, case.book_b
            ));
        }
        if !case.topics_a.is_disjoint(&case.topics_b) {
            out.count("common-topics");
        }
        let seed = rng.next_u64();
        let result = rt.block_on(async {
            match tokio::spawn({
                let case = case.clone();
                let names = Names { topics: names.topics.clone(), nodes: names.nodes.clone() };
                let stores = stores.clone();
                async move { run_protocol(&case, &names, seed, &stores).await }
            })
            .await
            {
                Ok(r) => r,
                Err(e) => Err(format!("panic: {e}")),
            }
        });
        let o = match result {
            Ok(o) => o,
            Err(e) => {
                out.violation("C30", "protocol-run-failed", e, b.clone());
                continue;
            }
        };
        out.count_by("wire-bytes", o.wire_bytes as u64);
        let mut seen = BTreeSet::new();
        for (sig, detail) in check_property(&case, &o) {
            if seen.insert(sig.clone()) {
                out.violation("C30", &sig, detail, b.clone());
            }
        }
        // implementation = specification, message by message
        let want_wire: Vec<WireMsg> = b["wire"]
            .as_array()
            .map(|a| {
                a.iter()
                    .map(|m| WireMsg {
                        kind: m["type"].as_str().unwrap_or("?").to_string(),
                        from: m["from"].as_str().unwrap_or("?").to_string(),
                        hashes: m["hashes"]
                            .as_array()
                            .map(|hs| {
                                hs.iter()
                                    .map(|h| (h["t"].as_str().unwrap_or("?").to_string(), h["d"].as_u64().unwrap_or(99) as u8))
                                    .collect()
                            })
                            .unwrap_or_default(),
                        nodes: set_of(&m["nodes"]),
                    })
                    .collect()
            })
            .unwrap_or_default();
        let mut diff = None;
        if want_wire.len() != o.wire.len() {
            diff = Some(format!("specification has {} messages, implementation sent {}", want_wire.len(), o.wire.len()));
        } else {
            for (i, (w, g)) in want_wire.iter().zip(o.wire.iter()).enumerate() {
                if w != g {
                    diff = Some(format!("message {}: specification {w:?}, implementation {g:?}", i + 1));
                    break;
                }
            }
        }
        if diff.is_none() {
            for (what, want, got) in [
                ("alice's topics", set_of(&b["commonA"]), o.common_a.clone()),
                ("bob's topics", set_of(&b["commonB"]), o.common_b.clone()),
                ("alice's transport infos", set_of(&b["infosA"]), o.infos_a.clone()),
                ("bob's transport infos", set_of(&b["infosB"]), o.infos_b.clone()),
            ] {
                if want != got {
                    diff = Some(format!("{what}: specification {want:?}, implementation {got:?}"));
                    break;
                }
            }
        }
        match diff {
            Some(d) => out.violation("C30", "diverged", format!("implementation and specification disagree: {d}"), b.clone()),
            None => out.sample(json!({"topicsA": case.topics_a, "topicsB": case.topics_b, "common": o.common_a, "nodes_sent_by_bob": o.infos_a, "nodes_sent_by_alice": o.infos_b})),
        }
    }
    out.write(args);
}

// ------------------------------------------------------------------------------------------
// record: random topic sets and address books on the real protocol

fn entry_json(e: Option<&Entry>) -> Value {
    match e {
        None => json!({"present": false, "topics": [], "tr": false, "stale": false}),
        Some(e) => json!({"present": true, "topics": e.topics, "tr": e.tr, "stale": e.stale}),
    }
}

fn book_json(book: &[Entry], nodes: &[String]) -> Value {
    let mut m = serde_json::Map::new();
    for n in nodes {
        m.insert(n.clone(), entry_json(book.iter().find(|e| &e.node == n)));
    }
    Value::Object(m)
}

fn hashes_json(m: &WireMsg) -> Value {
    Value::Array(m.hashes.iter().map(|(t, d)| json!({"t": t, "d": d})).collect())
}

fn record(args: &Args) {
    let mut out = Outcome::new(
        args,
        "distinct = recorded runs with different (topic sets, flags, address books); counted only if at least one party has a topic and one address book has an entry with transport info",
    );
    let mut tw = TraceWriter::create(args.out.as_ref().expect("--out"));
    let mut rng = Rng::new(args.seed);
    let n = if args.n == 0 { 50 } else { args.n };
    // the universes of Trace_PsiHash's trace.cfg
    let topic_universe: Vec<String> = (1..=12).map(|i| format!("t{i}")).collect();
    let node_universe: Vec<String> = (1..=6).map(|i| format!("n{i}")).collect();
    let rt = runtime();
    let stores = rt.block_on(Stores::new());
    for run in 0..n {
        out.eval();
        // varying overlap: a pool of 1..=12 topics, each party takes each with its own probability
        let pool = rng.range(1, 12) as usize;
        let pa = rng.range(0, 4);
        let pb = rng.range(0, 4);
        let pick = |p: u64, rng: &mut Rng| -> BTreeSet<String> {
            topic_universe[..pool].iter().filter(|_| rng.chance(p, 4)).cloned().collect()
        };
        let topics_a = pick(pa, &mut rng);
        let topics_b = pick(pb, &mut rng);
        let book = |rng: &mut Rng| -> Vec<Entry> {
            let mut b = Vec::new();
            for node in &node_universe {
                if rng.chance(1, 4) {
                    continue;
                }
                let p = rng.range(0, 3);
                b.push(Entry {
                    node: node.clone(),
                    topics: topic_universe[..pool].iter().filter(|_| rng.chance(p, 6)).cloned().collect(),
                    tr: !rng.chance(1, 5),
                    stale: rng.chance(1, 5),
                });
            }
            b
        };
        let case = Case {
            topics_a,
            topics_b,
            restrict_a: rng.chance(1, 2),
            restrict_b: rng.chance(1, 2),
            book_a: book(&mut rng),
            book_b: book(&mut rng),
            alice: "n1".into(),
            bob: "n2".into(),
        };
        let names = fresh_names(
            &mut rng,
            &topic_universe.iter().cloned().collect(),
            &node_universe.iter().cloned().collect(),
        );
        let nontrivial = (!case.topics_a.is_empty() || !case.topics_b.is_empty())
            && case.book_a.iter().chain(case.book_b.iter()).any(|e| e.tr);
        if nontrivial {
            out.mark_distinct(format!("{case:?}"));
        }
        if !case.topics_a.is_disjoint(&case.topics_b) {
            out.count("common-topics");
        }
        let seed = rng.next_u64();
        let case_json = json!({"seed": args.seed, "run": run, "topicsA": case.topics_a, "topicsB": case.topics_b,
            "restrictA": case.restrict_a, "restrictB": case.restrict_b,
            "bookA": book_json(&case.book_a, &node_universe), "bookB": book_json(&case.book_b, &node_universe)});
        let result = rt.block_on(async {
            match tokio::spawn({
                let case = case.clone();
                let names = Names { topics: names.topics.clone(), nodes: names.nodes.clone() };
                let stores = stores.clone();
                async move { run_protocol(&case, &names, seed, &stores).await }
            })
            .await
            {
                Ok(r) => r,
                Err(e) => Err(format!("panic: {e}")),
            }
        });
        let o = match result {
            Ok(o) => o,
            Err(e) => {
                out.violation("C30", "protocol-run-failed", e, case_json);
                continue;
            }
        };
        out.count_by("wire-bytes", o.wire_bytes as u64);
        let mut seen = BTreeSet::new();
        for (sig, detail) in check_property(&case, &o) {
            if seen.insert(sig.clone()) {
                out.violation("C30", &sig, detail, case_json.clone());
            }
        }
        tw.event(json!({"ev": "Reset", "run": run, "topicsA": case.topics_a, "topicsB": case.topics_b,
            "restrictA": case.restrict_a, "restrictB": case.restrict_b}));
        let kinds: Vec<&str> = o.wire.iter().map(|m| m.kind.as_str()).collect();
        if kinds != ["AliceSaltHalf", "BobSaltHalfAndHashedData", "AliceHashedData", "Nodes", "Nodes"] {
            // logged as it is: the trace specification will not accept it
            tw.event(json!({"ev": "UnexpectedMessages", "kinds": kinds}));
            continue;
        }
        tw.event(json!({"ev": "AliceSendSaltHalf", "from": o.wire[0].from}));
        tw.event(json!({"ev": "BobSendSaltAndHashes", "from": o.wire[1].from, "hashes": hashes_json(&o.wire[1])}));
        tw.event(json!({"ev": "AliceSendHashes", "from": o.wire[2].from, "hashes": hashes_json(&o.wire[2])}));
        tw.event(json!({"ev": "BobSendNodes", "from": o.wire[3].from, "book": book_json(&case.book_b, &node_universe), "nodes": o.wire[3].nodes}));
        tw.event(json!({"ev": "AliceReceiveNodes", "infosA": o.infos_a}));
        tw.event(json!({"ev": "AliceSendNodes", "from": o.wire[4].from, "book": book_json(&case.book_a, &node_universe), "nodes": o.wire[4].nodes, "commonA": o.common_a}));
        tw.event(json!({"ev": "BobReceiveNodes", "infosB": o.infos_b, "commonB": o.common_b}));
        out.sample(case_json);
    }
    let (events, runs) = tw.finish();
    out.set_trace(events, runs);
    out.write(args);
}
