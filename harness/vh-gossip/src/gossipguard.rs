//! GossipGuard (C29): `Gossip::stream`, `GossipHandle`/`GossipSubscription` clone and drop of
//! p2panda-net against spec/GossipGuard.
//!
//! The real `Gossip` API object is driven over a harness-owned probe actor that stands in for
//! the gossip manager (a real ractor actor receiving `ToGossipManager`): it moves every
//! `Subscribe` / `Unsubscribe` into a FIFO that the harness works off one message per
//! `ActorStep`, with the manager's bookkeeping of manager.rs:186-288 (a `Subscribe` installs a
//! new session for the topic without stopping an existing one, an `Unsubscribe` stops the
//! installed one).
//!
//! Interleavings are forced with the schedule points of `p2panda_core::verif`: every `stream()`
//! call runs in its own tokio task and parks at the named points until the harness releases it;
//! a drop that has to be split (`FetchSub` / `SendUnsub`) runs on its own OS thread and parks at
//! the blocking point inside `TopicDropGuard::drop`.
//!
//! `replay`: executes every behaviour exported by TLC, compares the implementation's observable
//! after each step with the state TLC computed and evaluates the C29 predicates on the
//! implementation's own state.  `record`: a seeded random scheduler drives the real code and
//! writes one event per step for `Trace_GossipGuard.tla`.  `CancelStream` drops the future of a
//! running `stream()` call (tokio task abort) where it is parked or waiting for the reply.
use std::cell::RefCell;
use std::collections::{BTreeMap, BTreeSet, HashMap, VecDeque};
use std::sync::{Arc, Condvar, Mutex, MutexGuard};
use std::time::Duration;

use p2panda_core::{SigningKey, Topic};
use p2panda_net::AddressBook;
use p2panda_net::gossip::{
    Gossip, GossipConfig, GossipEvent, GossipHandle, GossipSubscription, ToGossipManager,
};
use ractor::{Actor, ActorProcessingErr, ActorRef, RpcReplyPort};
use tokio::sync::{broadcast, mpsc, oneshot, watch};
use vh_common::{Args, Outcome, Rng, TraceWriter, Value, json, read_ndjson, unknown};

const POINT_A: &str = "gossip.stream.after_liveness_check";
const POINT_W: &str = "gossip.stream.before_write_lock";
const POINT_B: &str = "gossip.stream.after_new_guard";
const POINT_C: &str = "gossip.stream.before_insert_senders";
/// as-found code: after the decrement, taken by every counted drop
const POINT_DROP_OLD: &str = "gossip.guard.drop.after_fetch_sub";
/// repaired code: only if the counter arrived at zero, under the counter mutex
const POINT_DROP: &str = "gossip.guard.drop.before_unsubscribe";

/// How long a stream() call that is expected to be blocked on the counter mutex is watched for
/// progress before the harness goes on. A call that really is blocked never progresses, so this
/// wait never changes a verdict on code that blocks; on code that does not block, a call that
/// is slower than this is merely scheduled later (one of the legal interleavings).
const BLOCKED_WATCH: Duration = Duration::from_millis(40);

/// How long the harness waits for an event that the step just taken must produce. Only a
/// failure detector ("the code is blocked where neither specification nor harness expect it");
/// never part of a verdict about the property.
const STUCK_AFTER: Duration = Duration::from_secs(30);

type SubscribeReply = RpcReplyPort<(mpsc::Sender<Vec<u8>>, broadcast::Sender<Vec<u8>>)>;

enum Mail {
    Subscribe(SubscribeReply),
    Unsubscribe,
}

#[derive(Default)]
struct CtlState {
    /// stream() tasks parked at a schedule point: process -> (point, release)
    parked: HashMap<String, (String, oneshot::Sender<()>)>,
    /// finished stream() calls
    finished: HashMap<String, Result<GossipHandle, String>>,
    /// messages received by the probe actor, in order of arrival
    mailbox: VecDeque<Mail>,
    /// total number of messages that ever arrived
    arrived: u64,
    /// drop threads parked inside `TopicDropGuard::drop`: handle -> (point, released?)
    drop_parked: HashMap<String, (String, bool)>,
    /// drop threads that are through
    drop_done: BTreeSet<String>,
    /// schedule points are ignored (used to wind a behaviour down)
    free_run: bool,
}

struct Ctl {
    st: Mutex<CtlState>,
    cv: Condvar,
    ver: watch::Sender<u64>,
}

impl Ctl {
    fn lock(&self) -> MutexGuard<'_, CtlState> {
        self.st.lock().unwrap_or_else(|e| e.into_inner())
    }

    fn bump(&self) {
        self.ver.send_modify(|v| *v += 1);
    }

    /// Waits until `pred` holds. `Err` = stuck.
    async fn wait_until(&self, what: &str, pred: impl Fn(&CtlState) -> bool) -> Result<(), String> {
        let mut rx = self.ver.subscribe();
        let deadline = tokio::time::Instant::now() + STUCK_AFTER;
        loop {
            if pred(&self.lock()) {
                return Ok(());
            }
            match tokio::time::timeout_at(deadline, rx.changed()).await {
                Ok(Ok(())) => {}
                _ => {
                    if pred(&self.lock()) {
                        return Ok(());
                    }
                    return Err(format!("stuck waiting for: {what}"));
                }
            }
        }
    }
}

impl Ctl {
    /// Watches for `pred` for at most `dur`; `true` if it came to hold.
    async fn watch(&self, dur: Duration, pred: impl Fn(&CtlState) -> bool) -> bool {
        let mut rx = self.ver.subscribe();
        let deadline = tokio::time::Instant::now() + dur;
        loop {
            if pred(&self.lock()) {
                return true;
            }
            if tokio::time::timeout_at(deadline, rx.changed()).await.is_err() {
                return pred(&self.lock());
            }
        }
    }
}

tokio::task_local! {
    static PROC: String;
}

thread_local! {
    static DROP_ID: RefCell<Option<String>> = const { RefCell::new(None) };
}

fn install_controllers(ctl: &Arc<Ctl>) {
    let c = ctl.clone();
    p2panda_core::verif::set_async_controller(Some(Arc::new(move |name: &'static str| {
        let proc = PROC.try_with(|p| p.clone()).ok()?;
        let (tx, rx) = oneshot::channel();
        {
            let mut st = c.lock();
            if st.free_run {
                return None;
            }
            st.parked.insert(proc, (name.to_string(), tx));
        }
        c.bump();
        let parked: p2panda_core::verif::Parked = Box::pin(async move {
            let _ = rx.await;
        });
        Some(parked)
    })));
    let c = ctl.clone();
    p2panda_core::verif::set_blocking_controller(Some(Arc::new(move |name: &'static str| {
        if name != POINT_DROP && name != POINT_DROP_OLD {
            return;
        }
        let Some(id) = DROP_ID.with(|d| d.borrow().clone()) else {
            return;
        };
        let mut st = c.lock();
        if st.free_run {
            return;
        }
        st.drop_parked.insert(id.clone(), (name.to_string(), false));
        c.bump();
        while !st.drop_parked.get(&id).map(|p| p.1).unwrap_or(true) && !st.free_run {
            st = c.cv.wait(st).unwrap_or_else(|e| e.into_inner());
        }
        st.drop_parked.remove(&id);
    })));
}

/// Stand-in for the gossip manager actor: forwards the two messages C29 is about.
struct Probe;

impl Actor for Probe {
    type Msg = ToGossipManager;
    type State = Arc<Ctl>;
    type Arguments = Arc<Ctl>;

    async fn pre_start(
        &self,
        _myself: ActorRef<Self::Msg>,
        args: Self::Arguments,
    ) -> Result<Self::State, ActorProcessingErr> {
        Ok(args)
    }

    async fn handle(
        &self,
        _myself: ActorRef<Self::Msg>,
        message: Self::Msg,
        ctl: &mut Self::State,
    ) -> Result<(), ActorProcessingErr> {
        match message {
            ToGossipManager::Subscribe(_topic, _nodes, reply) => {
                let mut st = ctl.lock();
                st.mailbox.push_back(Mail::Subscribe(reply));
                st.arrived += 1;
                drop(st);
                ctl.bump();
            }
            ToGossipManager::Unsubscribe(_topic) => {
                let mut st = ctl.lock();
                st.mailbox.push_back(Mail::Unsubscribe);
                st.arrived += 1;
                drop(st);
                ctl.bump();
            }
            ToGossipManager::Events(reply) => {
                // used by the harness as a FIFO fence
                let (tx, rx) = broadcast::channel::<GossipEvent>(1);
                drop(tx);
                let _ = reply.send(rx);
            }
            _ => {}
        }
        Ok(())
    }
}

enum Held {
    Handle(GossipHandle),
    Subscription(GossipSubscription),
}

impl Held {
    fn counter(&self) -> (usize, Option<usize>) {
        match self {
            Held::Handle(h) => h.verif_counter(),
            Held::Subscription(s) => s.verif_counter(),
        }
    }
}

/// What the harness can see of the implementation after a step.
#[derive(Debug, Clone, PartialEq)]
struct Obs {
    pc: BTreeMap<String, String>,
    hst: BTreeMap<String, String>,
    /// live handles: name -> (counter name, counter value; None = counter mutex held elsewhere)
    live: BTreeMap<String, (String, Option<usize>)>,
    /// `Err` = write-locked, `Ok(None)` = no entry, else (counter name, value or None = mutex held)
    senders: Result<Option<(String, Option<usize>)>, ()>,
    mailbox: Vec<(String, String)>,
    session: String,
    orphans: BTreeSet<String>,
}

impl Obs {
    fn to_json(&self) -> Value {
        let senders = match &self.senders {
            Err(()) => json!({"locked": true, "mlocked": false, "ctr": "none", "val": -1}),
            Ok(None) => json!({"locked": false, "mlocked": false, "ctr": "none", "val": -1}),
            Ok(Some((c, Some(v)))) => json!({"locked": false, "mlocked": false, "ctr": c, "val": v}),
            Ok(Some((c, None))) => json!({"locked": false, "mlocked": true, "ctr": c, "val": -1}),
        };
        json!({
            "pc": self.pc,
            "hst": self.hst,
            "live": self.live.iter().map(|(h, (c, v))| (h.clone(), json!({"ctr": c, "val": v.map(|x| x as i64).unwrap_or(-1)}))).collect::<BTreeMap<_, _>>(),
            "senders": senders,
            "mailbox": self.mailbox.iter().map(|(t, by)| json!({"t": t, "by": by})).collect::<Vec<_>>(),
            "session": self.session,
            "orphans": self.orphans,
        })
    }
}

struct World {
    ctl: Arc<Ctl>,
    topic: Topic,
    gossip: Option<Gossip>,
    actor: ActorRef<ToGossipManager>,
    actor_join: Option<tokio::task::JoinHandle<()>>,
    procs: Vec<String>,
    clones: Vec<String>,
    started: BTreeSet<String>,
    /// stream() calls whose handle the harness has taken over
    returned: BTreeSet<String>,
    /// stream() calls that were seen at the point after `TopicDropGuard::new`
    made_guard: BTreeSet<String>,
    /// stream() calls whose future was dropped half-way
    cancelled: BTreeSet<String>,
    /// stream() calls that were started / released while the counter of the senders entry was
    /// locked and did not get anywhere: process -> "mutexR" | "mutexW"
    blocked: BTreeMap<String, String>,
    tasks: HashMap<String, tokio::task::JoinHandle<()>>,
    held: BTreeMap<String, Held>,
    hst: BTreeMap<String, String>,
    drop_threads: HashMap<String, std::thread::JoinHandle<()>>,
    /// real counter identity -> name (the process whose slow path created it)
    ctr_names: HashMap<usize, String>,
    /// sender of each message in the FIFO, parallel to `CtlState::mailbox`
    mail_by: VecDeque<String>,
    /// probe manager state
    session: Option<String>,
    orphans: BTreeSet<String>,
    /// channel ends handed out with Subscribe replies are kept alive
    keep: Vec<mpsc::Receiver<Vec<u8>>>,
    /// C29 predicates evaluated on the implementation's state: (signature, detail)
    property_failures: Vec<(String, String)>,
}

fn pc_of_point(point: &str) -> String {
    match point {
        POINT_A => "atA".into(),
        POINT_W => "atW".into(),
        POINT_B => "atB".into(),
        POINT_C => "atC".into(),
        other => format!("parked:{other}"),
    }
}

impl World {
    async fn new(
        ctl: &Arc<Ctl>,
        address_book: &AddressBook,
        procs: Vec<String>,
        clones: Vec<String>,
    ) -> World {
        {
            let mut st = ctl.lock();
            *st = CtlState::default();
        }
        let (actor, actor_join) = Actor::spawn(None, Probe, ctl.clone())
            .await
            .expect("spawn probe actor");
        let me = SigningKey::generate().verifying_key();
        let gossip = Gossip::verif_new(
            actor.clone(),
            me,
            address_book.clone(),
            GossipConfig::default(),
        );
        let mut hst = BTreeMap::new();
        for h in procs.iter().chain(clones.iter()) {
            hst.insert(h.clone(), "none".to_string());
        }
        World {
            ctl: ctl.clone(),
            topic: Topic::from([7u8; 32]),
            gossip: Some(gossip),
            actor,
            actor_join: Some(actor_join),
            procs,
            clones,
            started: BTreeSet::new(),
            returned: BTreeSet::new(),
            made_guard: BTreeSet::new(),
            cancelled: BTreeSet::new(),
            blocked: BTreeMap::new(),
            tasks: HashMap::new(),
            held: BTreeMap::new(),
            hst,
            drop_threads: HashMap::new(),
            ctr_names: HashMap::new(),
            mail_by: VecDeque::new(),
            session: None,
            orphans: BTreeSet::new(),
            keep: Vec::new(),
            property_failures: Vec::new(),
        }
    }

    fn gossip(&self) -> &Gossip {
        self.gossip.as_ref().expect("gossip alive")
    }

    /// All messages sent to the probe so far have been moved into the FIFO.
    async fn fence(&self) -> Result<(), String> {
        let fut = async { ractor::call!(self.actor, ToGossipManager::Events) };
        match tokio::time::timeout(STUCK_AFTER, fut).await {
            Ok(Ok(_)) => Ok(()),
            Ok(Err(e)) => Err(format!("probe actor call failed: {e}")),
            Err(_) => Err("stuck waiting for: probe actor fence".into()),
        }
    }

    /// Moves finished stream() calls into `held`, tags new mailbox entries with their sender,
    /// and evaluates LeftOnlyAtZero on every Unsubscribe that arrived.
    fn absorb(&mut self, actor: &str) {
        let mut st = self.ctl.lock();
        for (p, (point, _)) in st.parked.iter() {
            if point == POINT_B {
                self.made_guard.insert(p.clone());
            }
        }
        let done: Vec<String> = st
            .finished
            .iter()
            .filter(|(p, r)| r.is_ok() && !self.blocked.contains_key(*p))
            .map(|(p, _)| p.clone())
            .collect();
        for p in done {
            if let Some(Ok(h)) = st.finished.remove(&p) {
                let (id, _) = h.verif_counter();
                if self.made_guard.contains(&p) {
                    // the slow path of p created this counter (an address may be reused)
                    self.ctr_names.insert(id, p.clone());
                }
                self.held.insert(p.clone(), Held::Handle(h));
                self.hst.insert(p.clone(), "live".into());
                self.returned.insert(p);
            }
        }
        while self.mail_by.len() < st.mailbox.len() {
            let idx = self.mail_by.len();
            let is_unsub = matches!(st.mailbox[idx], Mail::Unsubscribe);
            self.mail_by.push_back(actor.to_string());
            if is_unsub {
                let live = self.hst.values().filter(|s| s.as_str() == "live").count();
                if live > 0 {
                    self.property_failures.push((
                        "unsubscribe-while-handle-live".into(),
                        format!(
                            "an Unsubscribe was sent (by the drop of {actor}) while {live} handle(s) for the topic are live"
                        ),
                    ));
                }
            }
        }
    }

    fn observe(&mut self) -> Obs {
        let st = self.ctl.lock();
        let mut pc = BTreeMap::new();
        for p in &self.procs {
            let v = if !self.started.contains(p) {
                "idle".to_string()
            } else if self.cancelled.contains(p) {
                "cancelled".to_string()
            } else if let Some(b) = self.blocked.get(p) {
                // whatever the call did after the mutex was released is seen at its Resume step
                b.clone()
            } else if self.returned.contains(p) {
                "returned".to_string()
            } else if let Some((point, _)) = st.parked.get(p) {
                pc_of_point(point)
            } else if let Some(r) = st.finished.get(p) {
                match r {
                    Err(e) => format!("error:{e}"),
                    Ok(_) => "returned".to_string(),
                }
            } else {
                "waitReply".to_string()
            };
            pc.insert(p.clone(), v);
        }
        let mailbox: Vec<(String, String)> = st
            .mailbox
            .iter()
            .zip(self.mail_by.iter())
            .map(|(m, by)| {
                (
                    match m {
                        Mail::Subscribe(_) => "Subscribe".to_string(),
                        Mail::Unsubscribe => "Unsubscribe".to_string(),
                    },
                    by.clone(),
                )
            })
            .collect();
        drop(st);
        let mut live = BTreeMap::new();
        for (h, held) in &self.held {
            let (id, val) = held.counter();
            let name = self
                .ctr_names
                .get(&id)
                .cloned()
                .unwrap_or_else(|| format!("unknown:{id:x}"));
            live.insert(h.clone(), (name, val));
        }
        let senders = match self.gossip().verif_senders_counter(self.topic) {
            Err(()) => Err(()),
            Ok(None) => Ok(None),
            Ok(Some((id, val))) => Ok(Some((
                self.ctr_names
                    .get(&id)
                    .cloned()
                    .unwrap_or_else(|| format!("unknown:{id:x}")),
                val,
            ))),
        };
        Obs {
            pc,
            hst: self.hst.clone(),
            live,
            senders,
            mailbox,
            session: self.session.clone().unwrap_or_else(|| "none".into()),
            orphans: self.orphans.clone(),
        }
    }

    /// ReturnedHandleIsBacked on the implementation's state.
    fn check_backed(&mut self, obs: &Obs) {
        if obs.mailbox.is_empty() && !obs.live.is_empty() && obs.session == "none" {
            let hs: Vec<&String> = obs.live.keys().collect();
            self.property_failures.push((
                "handle-without-subscription".into(),
                format!(
                    "handle(s) {hs:?} are live, the manager has worked off its mailbox and holds no subscription for the topic"
                ),
            ));
        }
    }

    /// LeftAtZero at the end of a behaviour.
    fn check_left(&mut self, obs: &Obs) {
        let quiescent = obs.mailbox.is_empty()
            && obs.live.is_empty()
            && obs.pc.values().all(|v| v == "idle" || v == "returned" || v == "cancelled")
            && obs.hst.values().all(|v| v == "none" || v == "dropped");
        if quiescent && (obs.session != "none" || !obs.orphans.is_empty()) {
            self.property_failures.push((
                "overlay-not-left".into(),
                format!(
                    "no handle is left but the manager still runs session {:?} / lost sessions {:?}",
                    obs.session, obs.orphans
                ),
            ));
        }
    }

    async fn wait_proc_settled(&self, p: &str, arrived_before: u64) -> Result<(), String> {
        let p = p.to_string();
        self.ctl
            .wait_until(&format!("stream() of {p} to park, return or send Subscribe"), |st| {
                st.parked.contains_key(&p) || st.finished.contains_key(&p) || st.arrived > arrived_before
            })
            .await
    }

    /// The counter of the senders entry is locked by another thread right now.
    fn entry_counter_locked(&self) -> bool {
        matches!(self.gossip().verif_senders_counter(self.topic), Ok(Some((_, None))))
    }

    /// After a stream() call was started or released: waits until it parks, returns or sends
    /// Subscribe. If the counter of the senders entry was locked when the step was taken, the
    /// call is expected to sit in `try_clone()`: it is watched for a bounded time and, if it
    /// got nowhere, recorded as blocked.
    async fn settle_or_block(&mut self, p: &str, arrived_before: u64, locked: bool, state: &str) -> Result<(), String> {
        if !locked {
            return self.wait_proc_settled(p, arrived_before).await;
        }
        let name = p.to_string();
        let progressed = self
            .ctl
            .watch(BLOCKED_WATCH, |st| {
                st.parked.contains_key(&name) || st.finished.contains_key(&name) || st.arrived > arrived_before
            })
            .await;
        if !progressed {
            self.blocked.insert(p.to_string(), state.to_string());
        }
        Ok(())
    }

    fn release(&self, p: &str, expect_point: &str) -> Result<(), String> {
        let mut st = self.ctl.lock();
        match st.parked.remove(p) {
            Some((point, tx)) if point == expect_point => {
                let _ = tx.send(());
                Ok(())
            }
            Some((point, tx)) => {
                let msg = format!("{p} is parked at {point}, not at {expect_point}");
                st.parked.insert(p.to_string(), (point, tx));
                Err(msg)
            }
            None => Err(format!("{p} is not parked at {expect_point}")),
        }
    }

    /// Executes one step on the real code. `Err` = the step could not be taken as described.
    async fn apply(&mut self, a: &str, p: &str, k: &str) -> Result<(), String> {
        let arrived_before = self.ctl.lock().arrived;
        match a {
            "ReadSenders" => {
                if self.started.contains(p) {
                    return Err(format!("stream() of {p} already called"));
                }
                self.started.insert(p.to_string());
                let locked = self.entry_counter_locked();
                let gossip = self.gossip().clone();
                let topic = self.topic;
                let ctl = self.ctl.clone();
                let name = p.to_string();
                let task = tokio::spawn(PROC.scope(name.clone(), async move {
                    let r = gossip.stream(topic).await.map_err(|e| e.to_string());
                    ctl.lock().finished.insert(name, r);
                    ctl.bump();
                }));
                self.tasks.insert(p.to_string(), task);
                self.settle_or_block(p, arrived_before, locked, "mutexR").await?;
            }
            "CloneGuard" => {
                self.release(p, POINT_A)?;
                self.wait_proc_settled(p, arrived_before).await?;
            }
            "AcquireWrite" => {
                let locked = self.entry_counter_locked();
                self.release(p, POINT_W)?;
                self.settle_or_block(p, arrived_before, locked, "mutexW").await?;
            }
            "ResumeRead" | "ResumeWrite" => {
                // nothing to release: the call goes on by itself once the drop is through
                let want = if a == "ResumeRead" { "mutexR" } else { "mutexW" };
                if self.blocked.get(p).map(|b| b.as_str()) != Some(want) {
                    return Err(format!("stream() of {p} is not blocked on the counter mutex ({want})"));
                }
                self.wait_proc_settled(p, arrived_before).await?;
                self.blocked.remove(p);
            }
            "CallSubscribe" => {
                self.release(p, POINT_B)?;
                self.wait_proc_settled(p, arrived_before).await?;
            }
            "InsertSenders" => {
                self.release(p, POINT_C)?;
                self.wait_proc_settled(p, arrived_before).await?;
            }
            "ActorStep" => {
                let mail = self.ctl.lock().mailbox.pop_front();
                let by = self.mail_by.pop_front();
                match (mail, by) {
                    (Some(Mail::Subscribe(reply)), Some(by)) => {
                        // manager.rs:186-263
                        if let Some(old) = self.session.replace(by.clone()) {
                            self.orphans.insert(old);
                        }
                        let (to_tx, to_rx) = mpsc::channel(128);
                        let (from_tx, _) = broadcast::channel(128);
                        self.keep.push(to_rx);
                        // (a caller that is gone does not get the reply, manager.rs:263)
                        let _ = reply.send((to_tx, from_tx));
                        if !self.cancelled.contains(&by) {
                            self.wait_proc_settled(&by, u64::MAX).await?;
                        }
                    }
                    (Some(Mail::Unsubscribe), Some(_)) => {
                        // manager.rs:265-288
                        self.session = None;
                    }
                    _ => return Err("mailbox of the manager is empty".into()),
                }
            }
            "CancelStream" => {
                // the caller drops the future: abort the task wherever it is parked or waiting
                let Some(task) = self.tasks.remove(p) else {
                    return Err(format!("stream() of {p} is not running"));
                };
                if task.is_finished() {
                    return Err(format!("stream() of {p} has already returned"));
                }
                // the release handle is kept until the future is gone (dropping it would wake
                // the parked task)
                let parked = self.ctl.lock().parked.remove(p);
                task.abort();
                let _ = task.await;
                drop(parked);
                if self.ctl.lock().finished.contains_key(p) {
                    return Err(format!("stream() of {p} returned before it could be cancelled"));
                }
                self.cancelled.insert(p.to_string());
            }
            "CloneHandle" => {
                let Some(Held::Handle(h)) = self.held.get(p) else {
                    return Err(format!("{p} is not a live GossipHandle"));
                };
                // the last clone name is made with subscribe(), the others with clone()
                let new = if self.clones.last().map(|l| l == k).unwrap_or(false) {
                    Held::Subscription(h.subscribe())
                } else {
                    Held::Handle(h.clone())
                };
                self.held.insert(k.to_string(), new);
                self.hst.insert(k.to_string(), "live".into());
            }
            "FetchSub" => {
                let Some(held) = self.held.remove(p) else {
                    return Err(format!("{p} is not a live handle"));
                };
                // every drop runs on a thread of its own: it parks inside `drop` if it is the one
                // that sends Unsubscribe (and, in the as-found code, after every decrement)
                let (_, prev) = held.counter();
                let id = p.to_string();
                let ctl = self.ctl.clone();
                let th = std::thread::spawn(move || {
                    DROP_ID.with(|d| *d.borrow_mut() = Some(id.clone()));
                    drop(held);
                    ctl.lock().drop_done.insert(id);
                    ctl.bump();
                });
                self.drop_threads.insert(p.to_string(), th);
                let id = p.to_string();
                self.ctl
                    .wait_until("drop to park before Unsubscribe or to finish", |st| {
                        st.drop_parked.contains_key(&id) || st.drop_done.contains(&id)
                    })
                    .await?;
                let parked_at = self.ctl.lock().drop_parked.get(p).map(|x| x.0.clone());
                match parked_at {
                    None => {
                        // through without sending anything
                        self.finish_drop(p)?;
                    }
                    Some(point) if point == POINT_DROP_OLD && prev != Some(1) => {
                        // as-found code: the rest of this drop is local
                        self.finish_drop(p)?;
                    }
                    Some(_) => {
                        self.hst.insert(p.to_string(), "fetched".into());
                    }
                }
            }
            "SendUnsub" => {
                self.finish_drop(p)?;
            }
            other => return Err(format!("unknown action {other}")),
        }
        self.fence().await?;
        self.absorb(if a == "ActorStep" { "" } else { p });
        Ok(())
    }

    /// Lets a drop parked after fetch_sub run to its end.
    fn finish_drop(&mut self, h: &str) -> Result<(), String> {
        let Some(th) = self.drop_threads.remove(h) else {
            return Err(format!("no drop of {h} in flight"));
        };
        {
            let mut st = self.ctl.lock();
            if let Some(flag) = st.drop_parked.get_mut(h) {
                flag.1 = true;
            }
        }
        self.ctl.cv.notify_all();
        th.join().map_err(|_| "drop thread panicked".to_string())?;
        self.hst.insert(h.to_string(), "dropped".into());
        Ok(())
    }

    /// Winds everything down, whatever state the behaviour was left in.
    async fn shutdown(mut self) {
        {
            let mut st = self.ctl.lock();
            st.free_run = true;
            for (_, (_, tx)) in st.parked.drain() {
                let _ = tx.send(());
            }
            for (_, flag) in st.drop_parked.iter_mut() {
                flag.1 = true;
            }
        }
        self.ctl.cv.notify_all();
        for (_, th) in self.drop_threads.drain() {
            let _ = th.join();
        }
        // answer outstanding Subscribe calls so that every task can finish
        for _ in 0..200 {
            let mail: Vec<Mail> = self.ctl.lock().mailbox.drain(..).collect();
            for m in mail {
                if let Mail::Subscribe(reply) = m {
                    let (to_tx, to_rx) = mpsc::channel(1);
                    let (from_tx, _) = broadcast::channel(1);
                    self.keep.push(to_rx);
                    let _ = reply.send((to_tx, from_tx));
                }
            }
            if self.tasks.values().all(|t| t.is_finished()) {
                break;
            }
            tokio::time::sleep(Duration::from_millis(1)).await;
        }
        for (_, t) in self.tasks.drain() {
            t.abort();
            let _ = t.await;
        }
        self.held.clear();
        self.ctl.lock().finished.clear();
        self.gossip = None; // sends Shutdown and drains the probe
        self.actor.stop(None);
        if let Some(j) = self.actor_join.take() {
            let _ = tokio::time::timeout(Duration::from_secs(5), j).await;
        }
        let mut st = self.ctl.lock();
        *st = CtlState::default();
    }
}

pub fn run(args: &Args) {
    match args.mode.as_str() {
        "replay" => replay(args),
        "record" => record(args),
        _ => unknown(args),
    }
}

fn runtime() -> tokio::runtime::Runtime {
    tokio::runtime::Builder::new_multi_thread()
        // stream() calls blocked on the counter mutex block their worker thread
        .worker_threads(8)
        .enable_all()
        .build()
        .expect("runtime")
}

fn new_ctl() -> Arc<Ctl> {
    let (ver, _) = watch::channel(0u64);
    let ctl = Arc::new(Ctl {
        st: Mutex::new(CtlState::default()),
        cv: Condvar::new(),
        ver,
    });
    install_controllers(&ctl);
    ctl
}

fn strings(v: &Value) -> Vec<String> {
    v.as_array()
        .map(|a| a.iter().filter_map(|x| x.as_str().map(String::from)).collect())
        .unwrap_or_default()
}

/// Compares the state TLC computed (`st`) with the implementation's observable.
fn compare(st: &Value, obs: &Obs) -> Result<(), String> {
    for (p, v) in &obs.pc {
        let want = st["pc"][p].as_str().unwrap_or("?");
        if want != v {
            return Err(format!("stream() of {p}: specification {want}, implementation {v}"));
        }
    }
    for (h, v) in &obs.hst {
        let want = st["hst"][h].as_str().unwrap_or("?");
        if want != v {
            return Err(format!("handle {h}: specification {want}, implementation {v}"));
        }
    }
    for (h, (cname, val)) in &obs.live {
        let want_c = st["hctr"][h].as_str().unwrap_or("?");
        let want_v = st["ctr"][want_c].as_u64().unwrap_or(u64::MAX);
        if want_c != cname || Some(want_v) != val.map(|v| v as u64) {
            return Err(format!(
                "counter behind handle {h}: specification {want_c}={want_v}, implementation {cname}={val:?}"
            ));
        }
    }
    let want_writer = st["writer"].as_str().unwrap_or("none");
    match &obs.senders {
        Err(()) => {
            if want_writer == "none" {
                return Err("senders map is write-locked, specification has no writer".into());
            }
        }
        Ok(entry) => {
            if want_writer != "none" {
                return Err(format!(
                    "specification: {want_writer} holds the write lock of senders; implementation: not locked"
                ));
            }
            let want_c = st["senders"]["ctr"].as_str().unwrap_or("?");
            let want_v = st["senders"]["val"].as_i64().unwrap_or(-2);
            let want_locked = st["senders"]["locked"].as_bool().unwrap_or(false);
            let (got_c, got_v, got_locked) = match entry {
                None => ("none".to_string(), -1, false),
                Some((c, Some(v))) => (c.clone(), *v as i64, false),
                Some((c, None)) => (c.clone(), want_v, true),
            };
            if want_locked != got_locked {
                return Err(format!(
                    "mutex of the counter in the senders entry: specification {}, implementation {}",
                    if want_locked { "held by the drop in flight" } else { "free" },
                    if got_locked { "held" } else { "free" }
                ));
            }
            if want_c != got_c || want_v != got_v {
                return Err(format!(
                    "senders entry: specification {want_c}={want_v}, implementation {got_c}={got_v}"
                ));
            }
        }
    }
    let want_mail: Vec<(String, String)> = st["mailbox"]
        .as_array()
        .map(|a| {
            a.iter()
                .map(|m| {
                    (
                        m["t"].as_str().unwrap_or("?").to_string(),
                        m["by"].as_str().unwrap_or("?").to_string(),
                    )
                })
                .collect()
        })
        .unwrap_or_default();
    if want_mail != obs.mailbox {
        return Err(format!(
            "manager mailbox: specification {want_mail:?}, implementation {:?}",
            obs.mailbox
        ));
    }
    let want_session = st["session"].as_str().unwrap_or("?");
    if want_session != obs.session {
        return Err(format!(
            "manager session: specification {want_session}, implementation {}",
            obs.session
        ));
    }
    let want_orphans: BTreeSet<String> = strings(&st["orphans"]).into_iter().collect();
    if want_orphans != obs.orphans {
        return Err(format!(
            "lost sessions: specification {want_orphans:?}, implementation {:?}",
            obs.orphans
        ));
    }
    Ok(())
}

fn replay(args: &Args) {
    let behaviours = read_ndjson(args.input.as_ref().expect("--in"));
    let mut out = Outcome::new(
        args,
        "distinct = behaviours with a different sequence of (action, process) steps; every behaviour has at least one stream() call, one Subscribe and one drop",
    );
    let rt = runtime();
    let ctl = new_ctl();
    rt.block_on(async {
        let address_book = AddressBook::builder().spawn().await.expect("address book");
        for b in &behaviours {
            out.eval();
            let steps = b["steps"].as_array().cloned().unwrap_or_default();
            let key: Vec<String> = steps
                .iter()
                .map(|s| format!("{}({}{})", s["a"].as_str().unwrap_or(""), s["p"].as_str().unwrap_or(""), s["k"].as_str().unwrap_or("")))
                .collect();
            out.mark_distinct(key.join(">"));
            let mut w = World::new(&ctl, &address_book, strings(&b["procs"]), strings(&b["clones"])).await;
            let mut diverged: Option<(String, String)> = None;
            for (i, s) in steps.iter().enumerate() {
                let a = s["a"].as_str().unwrap_or("");
                let p = s["p"].as_str().unwrap_or("");
                let k = s["k"].as_str().unwrap_or("");
                out.count(a);
                let r = w.apply(a, p, k).await;
                let obs = w.observe();
                w.check_backed(&obs);
                if i + 1 == steps.len() {
                    w.check_left(&obs);
                }
                if let Err(e) = r {
                    diverged = Some((a.to_string(), format!("step {} {a}({p}{k}): {e}", i + 1)));
                    break;
                }
                if let Err(e) = compare(&s["st"], &obs) {
                    diverged = Some((a.to_string(), format!("after step {} {a}({p}{k}): {e}", i + 1)));
                    break;
                }
            }
            let mut continued = Vec::new();
            if let Some((_, detail)) = &diverged
                && !detail.contains("stuck waiting")
            {
                // where specification and code part ways the code is driven on by itself (calls
                // first, the manager next, drops in flight last) to see what the difference
                // means for the property
                continued = run_out(&mut w).await;
            }
            let failures = std::mem::take(&mut w.property_failures);
            w.shutdown().await;
            let mut seen = BTreeSet::new();
            for (sig, detail) in failures {
                if seen.insert(sig.clone()) {
                    out.count(&format!("property:{sig}"));
                    let mut schedule = key.join(" > ");
                    if !continued.is_empty() {
                        schedule = format!("(specification up to the disagreement) then on the code: {}", continued.join(" > "));
                    }
                    out.violation("C29", &sig, format!("{detail}; schedule: {schedule}"), b.clone());
                }
            }
            if let Some((a, detail)) = diverged {
                out.violation(
                    "C29",
                    &format!("diverged:{a}"),
                    format!("implementation and specification disagree {detail}; schedule: {}", key.join(" > ")),
                    b.clone(),
                );
            } else {
                out.sample(json!({"schedule": key}));
            }
        }
    });
    p2panda_core::verif::set_async_controller(None);
    p2panda_core::verif::set_blocking_controller(None);
    out.write(args);
}

/// Drives the real code from wherever it stands to the end of all running calls and drops:
/// stream() calls first, the manager's mailbox next, drops in flight last.
async fn run_out(w: &mut World) -> Vec<String> {
    let mut taken = Vec::new();
    for _ in 0..100 {
        let moves = enabled_moves(w, 0);
        let rank = |m: &Move| match m.a {
            "ReadSenders" => 0,
            "CloneGuard" | "AcquireWrite" | "ResumeRead" | "ResumeWrite" | "CallSubscribe" | "InsertSenders" => 1,
            "ActorStep" => 2,
            "SendUnsub" => 3,
            _ => 9,
        };
        let Some(m) = moves.iter().filter(|m| rank(m) < 9).min_by_key(|m| rank(m)).cloned() else {
            break;
        };
        if w.apply(m.a, &m.p, &m.k).await.is_err() {
            break;
        }
        taken.push(format!("{}({}{})", m.a, m.p, m.k));
        let obs = w.observe();
        w.check_backed(&obs);
    }
    taken
}

// ------------------------------------------------------------------------------------------
// record: seeded random schedules on the real code

#[derive(Clone, Debug)]
struct Move {
    a: &'static str,
    p: String,
    k: String,
}

fn enabled_moves(w: &mut World, max_cancels: usize) -> Vec<Move> {
    let obs = w.observe();
    let cancels_left = max_cancels.saturating_sub(w.cancelled.len());
    let mut moves = Vec::new();
    // calls that hold the read lock of senders across a point / while blocked on the counter mutex
    let reader_parked = obs.pc.values().any(|v| v == "atA" || v == "mutexR");
    // a drop sits between its decrement to zero and its Unsubscribe
    let drop_in_flight = obs.hst.values().any(|v| v == "fetched");
    let write_locked = obs.senders.is_err();
    for (p, pc) in &obs.pc {
        let m = |a: &'static str| Move { a, p: p.clone(), k: String::new() };
        match pc.as_str() {
            // a call that has to wait for the lock is a call that has not taken its step yet
            "idle" if !write_locked => moves.push(m("ReadSenders")),
            "atA" => moves.push(m("CloneGuard")),
            "atW" if !write_locked && !reader_parked => moves.push(m("AcquireWrite")),
            "mutexR" if !drop_in_flight => moves.push(m("ResumeRead")),
            "mutexW" if !drop_in_flight => moves.push(m("ResumeWrite")),
            "atB" => moves.push(m("CallSubscribe")),
            "atC" if !reader_parked => moves.push(m("InsertSenders")),
            _ => {}
        }
        if cancels_left > 0 && matches!(pc.as_str(), "atA" | "atW" | "atB" | "waitReply" | "atC") {
            moves.push(m("CancelStream"));
        }
    }
    if !obs.mailbox.is_empty() {
        moves.push(Move { a: "ActorStep", p: String::new(), k: String::new() });
    }
    let next_clone = w.clones.iter().find(|k| obs.hst[*k] == "none").cloned();
    for (h, st) in &obs.hst {
        match st.as_str() {
            "live" => {
                moves.push(Move { a: "FetchSub", p: h.clone(), k: String::new() });
                if let (Some(k), Some(Held::Handle(_))) = (&next_clone, w.held.get(h)) {
                    moves.push(Move { a: "CloneHandle", p: h.clone(), k: k.clone() });
                }
            }
            "fetched" => moves.push(Move { a: "SendUnsub", p: h.clone(), k: String::new() }),
            _ => {}
        }
    }
    moves
}

fn record(args: &Args) {
    let mut out = Outcome::new(
        args,
        "distinct = recorded runs with a different sequence of (action, process) steps; every run has at least two stream() calls racing with drops",
    );
    let mut tw = TraceWriter::create(args.out.as_ref().expect("--out"));
    let mut rng = Rng::new(args.seed);
    let n = if args.n == 0 { 50 } else { args.n };
    let nprocs = args.extra_usize("procs", 3);
    let nclones = args.extra_usize("clones", 2);
    let max_cancels = args.extra_usize("cancels", 3);
    let rt = runtime();
    let ctl = new_ctl();
    rt.block_on(async {
        let address_book = AddressBook::builder().spawn().await.expect("address book");
        for run in 0..n {
            out.eval();
            let procs: Vec<String> = (1..=nprocs).map(|i| format!("s{i}")).collect();
            let clones: Vec<String> = (1..=nclones).map(|i| format!("k{i}")).collect();
            let mut w = World::new(&ctl, &address_book, procs.clone(), clones.clone()).await;
            tw.event(json!({"ev": "Reset", "run": run, "procs": procs, "clones": clones}));
            let mut key = Vec::new();
            let mut stuck: Option<String> = None;
            // some runs keep a handle alive for a long time, others drop eagerly
            let drop_weight = rng.range(1, 4);
            // most runs cancel at most one call
            let max_cancels = match rng.below(4) {
                0 => 0,
                1 | 2 => 1,
                _ => max_cancels,
            }
            .min(max_cancels);
            for _ in 0..200 {
                let moves = enabled_moves(&mut w, max_cancels);
                if moves.is_empty() {
                    break;
                }
                let weights: Vec<u64> = moves
                    .iter()
                    .map(|m| match m.a {
                        "FetchSub" => drop_weight,
                        "CloneHandle" | "CancelStream" => 1,
                        _ => 3,
                    })
                    .collect();
                let total: u64 = weights.iter().sum();
                let mut pick = rng.below(total);
                let mut idx = 0;
                for (i, wgt) in weights.iter().enumerate() {
                    if pick < *wgt {
                        idx = i;
                        break;
                    }
                    pick -= wgt;
                }
                let m = moves[idx].clone();
                out.count(m.a);
                if let Err(e) = w.apply(m.a, &m.p, &m.k).await {
                    stuck = Some(format!("{}({}{}): {e}", m.a, m.p, m.k));
                    break;
                }
                let obs = w.observe();
                w.check_backed(&obs);
                key.push(format!("{}({}{})", m.a, m.p, m.k));
                let mut ev = obs.to_json();
                ev["ev"] = json!(m.a);
                ev["p"] = json!(m.p);
                ev["k"] = json!(m.k);
                tw.event(ev);
            }
            if stuck.is_none() {
                let obs = w.observe();
                w.check_left(&obs);
            }
            out.mark_distinct(key.join(">"));
            let failures = std::mem::take(&mut w.property_failures);
            w.shutdown().await;
            let case = json!({"seed": args.seed, "run": run, "schedule": key});
            let mut seen = BTreeSet::new();
            for (sig, detail) in failures {
                if seen.insert(sig.clone()) {
                    out.count(&format!("property:{sig}"));
                    out.violation("C29", &sig, format!("{detail}; schedule: {}", key.join(" > ")), case.clone());
                }
            }
            if let Some(e) = stuck {
                out.violation("C29", "stuck", format!("the real code did not take an enabled step: {e}"), case);
                break;
            } else {
                out.sample(case);
            }
        }
    });
    p2panda_core::verif::set_async_controller(None);
    p2panda_core::verif::set_blocking_controller(None);
    let (events, runs) = tw.finish();
    out.set_trace(events, runs);
    out.write(args);
}
