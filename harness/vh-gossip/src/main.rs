//! Conformance harness binary `vh-gossip`: one module per TLA+ specification (see /verif/spec).
mod gossipguard;
mod psihash;

fn main() {
    let args = vh_common::Args::parse();
    vh_common::quiet_panics();
    match args.module.as_str() {
        "gossipguard" => gossipguard::run(&args),
        "psihash" => psihash::run(&args),
        _ => vh_common::unknown(&args),
    }
}
