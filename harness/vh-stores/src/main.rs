//! Conformance harness binary `vh-stores`: one module per TLA+ specification (see /verif/spec).
mod stores;

fn main() {
    let args = vh_common::Args::parse();
    vh_common::quiet_panics();
    match args.module.as_str() {
        "stores" => stores::run(&args),
        _ => vh_common::unknown(&args),
    }
}
