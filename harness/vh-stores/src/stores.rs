//! Stores (C08, C09): the SQLite `LogStore`, `OperationStore`, `TopicStore` and `CursorStore`
//! implementations of `p2panda-store` against spec/Stores.
//!
//! * `replay`: every line exported by TLC (`MC_Stores.tla`) is a command sequence with the
//!   expected return value of every command and the expected result of every query on the last
//!   state.  The commands are executed on a real in-memory `SqliteStore` (real signed operations,
//!   real CBOR, real SQL) and everything is compared.
//! * `record`: seeded random long command sequences on the real store; one event per command
//!   (arguments + return value) followed by one `Queries` event with the results of a few
//!   queries; `Trace_Stores.tla` validates them.
//!
//! A panic of the store is data: it is a violation of "never panics".
use std::collections::{BTreeMap, BTreeSet};
use std::future::Future;

use p2panda_core::logs::LogHeights;
use p2panda_core::{Body, Cursor, Hash, Header, Operation, SeqNum, SigningKey, VerifyingKey};
use p2panda_store::cursors::CursorStore;
use p2panda_store::logs::LogStore;
use p2panda_store::operations::OperationStore;
use p2panda_store::topics::TopicStore;
use p2panda_store::{SqliteError, SqliteStore, Transaction};
use serde::{Deserialize, Serialize};
use vh_common::{Args, Outcome, Rng, TraceWriter, Value, catch, json, read_ndjson, unknown};

pub fn run(args: &Args) {
    match args.mode.as_str() {
        "replay" => replay(args),
        "record" => record(args),
        _ => unknown(args),
    }
}

// ------------------------------------------------------------------------------------------
// Concrete world: abstract names -> real keys, operations, log ids, topics

/// Non-trivial header extension: exercises the header round trip and lets header lengths vary.
#[derive(Clone, Debug, PartialEq, Eq, Serialize, Deserialize)]
struct Ext {
    pad: String,
    tag: u64,
}

type Op = Operation<Ext>;
type LogName = String;
type TopicName = String;

fn signing_key(name: &str) -> SigningKey {
    let h = Hash::digest(format!("vh-stores author {name}"));
    SigningKey::from_bytes(h.as_bytes())
}

/// Deterministic, well-formed operation for an abstract descriptor (payload hash iff
/// payload_size > 0, backlink iff seq_num > 0, as the header encoding requires).  The id string is
/// mixed into the extension tag so that two descriptors never share a header (forks have the
/// same author and seq_num).
fn build_op(id: &str, author: &str, seq: SeqNum, pay: u32, giga: u32, body: bool, pad: usize) -> Op {
    let key = signing_key(author);
    let seed = Hash::digest(format!("vh-stores body {id}"));
    // declared payload size = giga * 2^30 + pay; a body is only ever materialised for small ones
    let payload_size = ((giga as u64) << 30) + pay as u64;
    assert!(payload_size <= u32::MAX as u64, "descriptor {id}: payload_size does not fit u32");
    assert!(!body || giga == 0, "descriptor {id}: huge payloads are header-only");
    let body_value = if body {
        let bytes: Vec<u8> = (0..pay as usize).map(|i| seed.as_bytes()[i % 32] ^ (i / 32) as u8).collect();
        Some(Body::new(&bytes))
    } else {
        None
    };
    let payload_hash = match (&body_value, payload_size) {
        (_, 0) => None,
        (Some(b), _) => Some(b.hash()),
        (None, _) => Some(Hash::digest(format!("vh-stores absent body {id}"))),
    };
    let mut header = Header::<Ext> {
        version: 1,
        verifying_key: key.verifying_key(),
        signature: None,
        payload_size: payload_size as u32,
        payload_hash,
        seq_num: seq,
        backlink: if seq > 0 { Some(Hash::digest(format!("vh-stores backlink {id}"))) } else { None },
        extensions: Ext {
            pad: "x".repeat(pad),
            tag: u64::from_le_bytes(seed.as_bytes()[..8].try_into().expect("8 bytes")),
        },
    };
    header.sign(&key);
    Operation {
        hash: header.hash(),
        header,
        body: body_value,
    }
}

#[derive(Clone)]
struct OpInfo {
    op: Op,
    author: String,
    seq: SeqNum,
    pay: u32,
    giga: u32,
    hdr: u32,
}

// ------------------------------------------------------------------------------------------
// System under test: one in-memory SqliteStore on its own current-thread runtime

enum Call<T> {
    Ok(T),
    Err(String),
    Panic(String),
}

struct Sut {
    rt: tokio::runtime::Runtime,
    store: SqliteStore,
}

impl Sut {
    fn new() -> Sut {
        let rt = tokio::runtime::Builder::new_current_thread()
            .enable_all()
            .build()
            .expect("runtime");
        let store = rt.block_on(SqliteStore::temporary());
        Sut { rt, store }
    }

    fn call<T>(&self, fut: impl Future<Output = Result<T, SqliteError>>) -> Call<T> {
        match catch(|| self.rt.block_on(fut)) {
            Ok(Ok(v)) => Call::Ok(v),
            Ok(Err(e)) => Call::Err(e.to_string()),
            Err(p) => Call::Panic(p),
        }
    }

    /// Empties the three tables (cheaper than a new pool + migrations per behaviour).
    fn clear(&self) {
        let pool = self.store.pool().clone();
        self.rt.block_on(async move {
            for t in ["operations_v1", "topics_v1", "cursors_v1"] {
                sqlx::query(&format!("DELETE FROM {t}"))
                    .execute(&pool)
                    .await
                    .expect("clear table");
            }
        });
    }
}

// The `_tx` query variants are observed inside the transaction of a writing command.
#[derive(Default)]
struct TxAsk {
    latest: Vec<(VerifyingKey, LogName)>,
    get: Vec<Hash>,
}

#[derive(Default)]
struct TxObs {
    latest: Vec<Option<Op>>,
    get: Vec<(bool, Option<Op>)>,
}

async fn tx_observe(store: &SqliteStore, ask: &TxAsk) -> Result<TxObs, SqliteError> {
    let mut obs = TxObs::default();
    for (vk, log) in &ask.latest {
        obs.latest.push(
            <SqliteStore as LogStore<Op, VerifyingKey, LogName, SeqNum, Hash>>::get_latest_entry_tx(store, vk, log)
                .await?,
        );
    }
    for id in &ask.get {
        let has = <SqliteStore as OperationStore<Op, Hash>>::has_operation_tx(store, id).await?;
        let got = <SqliteStore as OperationStore<Op, Hash>>::get_operation_tx(store, id).await?;
        obs.get.push((has, got));
    }
    Ok(obs)
}

/// begin; command; `_tx` observations; commit (rollback when the command failed).
async fn in_tx<T>(
    store: &SqliteStore,
    ask: &TxAsk,
    cmd: impl Future<Output = Result<T, SqliteError>>,
) -> Result<(T, TxObs), SqliteError> {
    let permit = store.begin().await?;
    let result = async {
        let v = cmd.await?;
        let obs = tx_observe(store, ask).await?;
        Ok::<_, SqliteError>((v, obs))
    }
    .await;
    match result {
        Ok(v) => {
            store.commit(permit).await?;
            Ok(v)
        }
        Err(e) => {
            let _ = store.rollback(permit).await;
            Err(e)
        }
    }
}

type LS = SqliteStore;

async fn q_latest(s: &LS, a: &VerifyingKey, l: &LogName) -> Result<Option<Op>, SqliteError> {
    <LS as LogStore<Op, VerifyingKey, LogName, SeqNum, Hash>>::get_latest_entry(s, a, l).await
}
async fn q_heights(s: &LS, a: &VerifyingKey, ls: &[LogName]) -> Result<Option<BTreeMap<LogName, SeqNum>>, SqliteError> {
    <LS as LogStore<Op, VerifyingKey, LogName, SeqNum, Hash>>::get_log_heights(s, a, ls).await
}
async fn q_entries(
    s: &LS,
    a: &VerifyingKey,
    l: &LogName,
    af: Option<SeqNum>,
    un: Option<SeqNum>,
) -> Result<Option<Vec<(Op, Vec<u8>)>>, SqliteError> {
    <LS as LogStore<Op, VerifyingKey, LogName, SeqNum, Hash>>::get_log_entries(s, a, l, af, un).await
}
async fn q_size(
    s: &LS,
    a: &VerifyingKey,
    l: &LogName,
    af: Option<SeqNum>,
    un: Option<SeqNum>,
) -> Result<Option<(u32, u32)>, SqliteError> {
    <LS as LogStore<Op, VerifyingKey, LogName, SeqNum, Hash>>::get_log_size(s, a, l, af, un).await
}
async fn c_prune(s: &LS, a: &VerifyingKey, l: &LogName, n: SeqNum) -> Result<u64, SqliteError> {
    <LS as LogStore<Op, VerifyingKey, LogName, SeqNum, Hash>>::prune_entries(s, a, l, &n).await
}
async fn q_has(s: &LS, id: &Hash) -> Result<bool, SqliteError> {
    <LS as OperationStore<Op, Hash>>::has_operation(s, id).await
}
async fn q_get(s: &LS, id: &Hash) -> Result<Option<Op>, SqliteError> {
    <LS as OperationStore<Op, Hash>>::get_operation(s, id).await
}
async fn c_delete_payload(s: &LS, id: &Hash) -> Result<bool, SqliteError> {
    <LS as OperationStore<Op, Hash>>::delete_operation_payload(s, id).await
}
async fn q_resolve(s: &LS, t: &TopicName) -> Result<BTreeMap<VerifyingKey, Vec<LogName>>, SqliteError> {
    <LS as TopicStore<TopicName, VerifyingKey, LogName>>::resolve(s, t).await
}
async fn q_cursor(s: &LS, n: &str) -> Result<Option<Cursor<VerifyingKey, LogName>>, SqliteError> {
    <LS as CursorStore<VerifyingKey, LogName>>::get_cursor(s, n).await
}

// ------------------------------------------------------------------------------------------
// Failure bookkeeping

#[derive(Clone)]
struct Fail {
    property: &'static str,
    signature: String,
    detail: String,
}

fn fail(property: &'static str, signature: impl Into<String>, detail: impl Into<String>) -> Fail {
    Fail {
        property,
        signature: signature.into(),
        detail: detail.into(),
    }
}

/// Unwraps a call: an `Err` from the store where the model has a value, or a panic, is a failure.
fn settle<T>(property: &'static str, what: &str, c: Call<T>) -> Result<T, Fail> {
    match c {
        Call::Ok(v) => Ok(v),
        Call::Err(e) => Err(fail(property, format!("{what}-error"), format!("{what} returned Err({e}), the model has a value"))),
        Call::Panic(p) => Err(fail(property, format!("{what}-panics"), format!("{what} panicked: {p}"))),
    }
}

fn opt(v: i64) -> Option<SeqNum> {
    if v < 0 { None } else { Some(v as SeqNum) }
}

/// Compares an operation read back from the store with the one that was inserted.
fn same_op(got: &Op, want: &OpInfo, body_stored: bool) -> Result<(), String> {
    if got.hash != want.op.hash {
        return Err(format!("id {} instead of {}", got.hash, want.op.hash));
    }
    if got.header != want.op.header {
        return Err(format!("header differs for {}", want.op.hash));
    }
    let want_body = if body_stored { want.op.body.clone() } else { None };
    if got.body != want_body {
        return Err(format!(
            "body {:?} instead of {:?} for {}",
            got.body.as_ref().map(|b| b.to_bytes().len()),
            want_body.as_ref().map(|b| b.to_bytes().len()),
            want.op.hash
        ));
    }
    Ok(())
}

fn cursor_flat(state: &LogHeights<VerifyingKey, LogName>, names: &BTreeMap<VerifyingKey, String>) -> (BTreeSet<String>, BTreeSet<(String, String, u32)>) {
    let mut authors = BTreeSet::new();
    let mut heights = BTreeSet::new();
    for (a, logs) in state {
        let an = names.get(a).cloned().unwrap_or_else(|| a.to_hex());
        authors.insert(an.clone());
        for (l, h) in logs {
            heights.insert((an.clone(), l.clone(), *h));
        }
    }
    (authors, heights)
}

/// `[{"a":..,"logs":[{"l":..,"h":..}]}]` (TLC MapJson) -> height map over real keys.
fn heights_from_tlc(v: &Value) -> LogHeights<VerifyingKey, LogName> {
    let mut m = LogHeights::new();
    for e in v.as_array().expect("map array") {
        let a = signing_key(e["a"].as_str().expect("a")).verifying_key();
        let logs: &mut BTreeMap<LogName, SeqNum> = m.entry(a).or_default();
        for l in e["logs"].as_array().expect("logs") {
            logs.insert(l["l"].as_str().expect("l").to_string(), l["h"].as_u64().expect("h") as SeqNum);
        }
    }
    m
}

// ------------------------------------------------------------------------------------------
// spec -> impl

struct LineCtx {
    ops: BTreeMap<String, OpInfo>,
    by_hash: BTreeMap<Hash, String>,
}

impl LineCtx {
    fn from_universe(u: &Value) -> LineCtx {
        let mut ops = BTreeMap::new();
        let mut by_hash = BTreeMap::new();
        for o in u.as_array().expect("universe") {
            let id = o["id"].as_str().expect("id").to_string();
            let author = o["author"].as_str().expect("author").to_string();
            let seq = o["seq"].as_u64().expect("seq") as SeqNum;
            let pay = o["pay"].as_u64().expect("pay") as u32;
            let body = o["body"].as_bool().expect("body");
            let giga = o["giga"].as_u64().unwrap_or(0) as u32;
            let op = build_op(&id, &author, seq, pay, giga, body, (seq as usize * 3) % 7);
            let hdr = op.header.to_bytes().len() as u32;
            by_hash.insert(op.hash, id.clone());
            ops.insert(id, OpInfo { op, author, seq, pay, giga, hdr });
        }
        LineCtx { ops, by_hash }
    }
}

#[derive(Default)]
struct Tally {
    commands: u64,
    queries: u64,
    tx_queries: u64,
    fails: Vec<(Fail, Value)>,
    soft: Vec<Fail>,
    counters: BTreeMap<String, u64>,
    distinct: BTreeSet<String>,
    lines: u64,
}

impl Tally {
    fn bump(&mut self, k: &str) {
        *self.counters.entry(k.to_string()).or_insert(0) += 1;
    }
}

/// Executes one exported behaviour; the first disagreement ends it.
fn replay_line(sut: &Sut, line: &Value, tally: &mut Tally) -> Result<(), Fail> {
    let ctx = LineCtx::from_universe(&line["universe"]);
    let steps = line["steps"].as_array().expect("steps");
    let q = &line["q"];
    // expected presence / stored-body flag of every id in the last state
    let mut get_exp: BTreeMap<String, (bool, bool)> = BTreeMap::new();
    for g in q["get"].as_array().expect("get") {
        get_exp.insert(
            g["id"].as_str().unwrap().to_string(),
            (g["present"].as_bool().unwrap(), g["body"].as_bool().unwrap()),
        );
    }
    let latest_exp = q["latest"].as_array().expect("latest");

    let mut last_obs: Option<TxObs> = None;
    let mut last_ask_latest: Vec<(String, String)> = Vec::new();
    let mut last_ask_get: Vec<String> = Vec::new();

    for (k, st) in steps.iter().enumerate() {
        let is_last = k + 1 == steps.len();
        let c = st["c"].as_str().expect("c");
        let exp_ret = st["ret"].as_u64().expect("ret");
        // what to observe through the `_tx` variants inside the last command's transaction
        let mut ask = TxAsk::default();
        if is_last {
            last_ask_latest.clear();
            last_ask_get.clear();
            for e in latest_exp {
                let (a, l) = (e["a"].as_str().unwrap(), e["l"].as_str().unwrap());
                ask.latest.push((signing_key(a).verifying_key(), l.to_string()));
                last_ask_latest.push((a.to_string(), l.to_string()));
            }
            for id in get_exp.keys() {
                ask.get.push(ctx.ops[id].op.hash);
                last_ask_get.push(id.clone());
            }
        }
        tally.commands += 1;
        tally.bump(&format!("cmd:{c}"));
        let store = &sut.store;
        let (got_ret, obs): (u64, Option<TxObs>) = match c {
            "insert" => {
                let info = &ctx.ops[st["id"].as_str().unwrap()];
                let log = st["l"].as_str().unwrap().to_string();
                let r = sut.call(in_tx(store, &ask, store.insert_operation(&info.op.hash, &info.op, &log)));
                let (v, o) = settle("C09", "insert_operation", r)?;
                (v as u64, Some(o))
            }
            "delete" => {
                let info = &ctx.ops[st["id"].as_str().unwrap()];
                let r = sut.call(in_tx(
                    store,
                    &ask,
                    <LS as OperationStore<Op, Hash>>::delete_operation(store, &info.op.hash),
                ));
                let (v, o) = settle("C09", "delete_operation", r)?;
                (v as u64, Some(o))
            }
            "delete_payload" => {
                let info = &ctx.ops[st["id"].as_str().unwrap()];
                let v = settle("C09", "delete_operation_payload", sut.call(c_delete_payload(store, &info.op.hash)))?;
                (v as u64, None)
            }
            "prune" => {
                let a = signing_key(st["a"].as_str().unwrap()).verifying_key();
                let l = st["l"].as_str().unwrap().to_string();
                let n = st["n"].as_u64().unwrap() as SeqNum;
                let v = settle("C08", "prune_entries", sut.call(c_prune(store, &a, &l, n)))?;
                (v, None)
            }
            "associate" | "remove" => {
                let t = st["t"].as_str().unwrap().to_string();
                let a = signing_key(st["a"].as_str().unwrap()).verifying_key();
                let l = st["l"].as_str().unwrap().to_string();
                let r = if c == "associate" {
                    sut.call(in_tx(
                        store,
                        &ask,
                        <LS as TopicStore<TopicName, VerifyingKey, LogName>>::associate(store, &t, &a, &l),
                    ))
                } else {
                    sut.call(in_tx(
                        store,
                        &ask,
                        <LS as TopicStore<TopicName, VerifyingKey, LogName>>::remove(store, &t, &a, &l),
                    ))
                };
                let (v, _) = settle("C09", c, r)?;
                (v as u64, None)
            }
            "set_cursor" => {
                let n = st["n"].as_str().unwrap();
                let cursor = Cursor::<VerifyingKey, LogName>::new(n, heights_from_tlc(&st["v"]));
                let r = sut.call(in_tx(
                    store,
                    &ask,
                    <LS as CursorStore<VerifyingKey, LogName>>::set_cursor(store, &cursor),
                ));
                settle("C09", "set_cursor", r)?;
                (0, None)
            }
            "delete_cursor" => {
                let n = st["n"].as_str().unwrap().to_string();
                let r = sut.call(in_tx(
                    store,
                    &ask,
                    <LS as CursorStore<VerifyingKey, LogName>>::delete_cursor(store, &n),
                ));
                settle("C09", "delete_cursor", r)?;
                (0, None)
            }
            other => {
                eprintln!("unknown command {other}");
                std::process::exit(2);
            }
        };
        if got_ret != exp_ret {
            let prop = if c == "prune" { "C08" } else { "C09" };
            return Err(fail(
                prop,
                format!("{c}-return-differs"),
                format!("step {k} ({st}): the store returned {got_ret}, the model says {exp_ret}"),
            ));
        }
        if is_last {
            last_obs = obs;
        }
    }

    let names: BTreeMap<VerifyingKey, String> = ["a1", "a2", "a3", "a4"]
        .iter()
        .map(|n| (signing_key(n).verifying_key(), n.to_string()))
        .collect();
    let body_of = |id: &str| get_exp.get(id).map(|x| x.1).unwrap_or(false);

    // a disagreement of one query does not end the behaviour: the other queries are still compared
    macro_rules! soft {
        ($e:expr) => {
            match $e {
                Ok(v) => v,
                Err(f) => {
                    tally.soft.push(f);
                    continue;
                }
            }
        };
    }
    // `_tx` observations made inside the last command's transaction (dirty reads = post state)
    if let Some(obs) = last_obs {
        for (i, got) in obs.latest.iter().enumerate() {
            tally.tx_queries += 1;
            let (a, l) = &last_ask_latest[i];
            let exp = latest_exp
                .iter()
                .find(|e| e["a"].as_str() == Some(a) && e["l"].as_str() == Some(l))
                .unwrap();
            soft!(check_latest("get_latest_entry_tx", got, exp, &ctx, &body_of));
        }
        for (i, (has, got)) in obs.get.iter().enumerate() {
            tally.tx_queries += 1;
            let id = &last_ask_get[i];
            soft!(check_get("has/get_operation_tx", *has, got, id, &ctx, get_exp[id]));
        }
    }

    let store = &sut.store;
    // latest entry of every (author, log)
    for e in latest_exp {
        tally.queries += 1;
        let a = signing_key(e["a"].as_str().unwrap()).verifying_key();
        let l = e["l"].as_str().unwrap().to_string();
        let got = soft!(settle("C08", "get_latest_entry", sut.call(q_latest(store, &a, &l))));
        soft!(check_latest("get_latest_entry", &got, e, &ctx, &body_of));
    }
    // heights of every set of logs (sorted list, and a shuffled list with a duplicate)
    for e in q["heights"].as_array().expect("heights") {
        let a = signing_key(e["a"].as_str().unwrap()).verifying_key();
        let logs: Vec<LogName> = e["logs"].as_array().unwrap().iter().map(|l| l.as_str().unwrap().to_string()).collect();
        let exp: BTreeMap<LogName, SeqNum> = e["res"]
            .as_array()
            .unwrap()
            .iter()
            .map(|r| (r["l"].as_str().unwrap().to_string(), r["h"].as_u64().unwrap() as SeqNum))
            .collect();
        let mut variants = vec![logs.clone()];
        if !logs.is_empty() {
            let mut v: Vec<LogName> = logs.iter().rev().cloned().collect();
            v.push(logs[0].clone());
            variants.push(v);
        }
        for list in variants {
            tally.queries += 1;
            let what = if list.is_empty() { "get_log_heights-empty-list" } else { "get_log_heights" };
            let got = soft!(settle("C08", what, sut.call(q_heights(store, &a, &list))));
            let ok = match &got {
                None => exp.is_empty(),
                Some(m) => !m.is_empty() && *m == exp,
            };
            if !ok {
                soft!(Err(fail(
                    "C08",
                    "get_log_heights-differs",
                    format!("get_log_heights({}, {list:?}) = {got:?}, the model says {}", e["a"], e["res"]),
                )));
            }
        }
    }
    // ranged entries and ranged size
    for g in q["ranges"].as_array().expect("ranges") {
        let an = g["a"].as_str().unwrap();
        let a = signing_key(an).verifying_key();
        let l = g["l"].as_str().unwrap().to_string();
        for row in g["rows"].as_array().unwrap() {
            let af = row[0].as_i64().unwrap();
            let un = row[1].as_i64().unwrap();
            let n = row[2].as_u64().unwrap();
            let pay = row[3].as_u64().unwrap();
            let ids: Vec<&str> = row[4].as_array().unwrap().iter().map(|x| x.as_str().unwrap()).collect();
            tally.queries += 2;
            let got = soft!(settle("C08", "get_log_entries", sut.call(q_entries(store, &a, &l, opt(af), opt(un)))));
            soft!(check_entries(&got, &ids, &ctx, &body_of)
                .map_err(|d| fail("C08", "get_log_entries-differs", format!("get_log_entries({an}, {l}, {af}, {un}): {d}"))));
            let giga = row[5].as_u64().unwrap_or(0);
            let bytes: u64 = (giga << 30) + pay + ids.iter().map(|i| ctx.ops[*i].hdr as u64).sum::<u64>();
            let call = sut.call(q_size(store, &a, &l, opt(af), opt(un)));
            if bytes > u32::MAX as u64 {
                // the total has no rendering as (u32, u32): an error is the only acceptable outcome
                // (spec: SizeOverflows)
                tally.bump("size-overflow-cases");
                match call {
                    Call::Err(_) => {}
                    Call::Ok(v) => soft!(Err(fail(
                        "C08",
                        "get_log_size-overflow-wrong-value",
                        format!("get_log_size({an}, {l}, {af}, {un}) = {v:?} although the total is {bytes} bytes (> u32::MAX)"),
                    ))),
                    Call::Panic(p) => soft!(Err(fail(
                        "C08",
                        "get_log_size-overflow-panics",
                        format!("get_log_size({an}, {l}, {af}, {un}) panicked ({p}); the total is {bytes} bytes (> u32::MAX), the model demands an error"),
                    ))),
                }
                continue;
            }
            let got = soft!(settle("C08", "get_log_size", call));
            // None is accepted as a rendering of the zero pair only (spec: SizeAnswerOK)
            let ok = match got {
                None => n == 0,
                Some(pair) => pair == (n as u32, bytes as u32),
            };
            if !ok {
                soft!(Err(fail(
                    "C08",
                    "get_log_size-differs",
                    format!("get_log_size({an}, {l}, {af}, {un}) = {got:?}, the model says Some(({n}, {bytes}))"),
                )));
            }
            if !ids.is_empty() {
                tally.distinct.insert(format!("{an}|{l}|{af}|{un}|{ids:?}"));
            }
        }
    }
    // has / get of every id of the universe
    for (id, exp) in &get_exp {
        tally.queries += 2;
        let h = ctx.ops[id].op.hash;
        let has = soft!(settle("C09", "has_operation", sut.call(q_has(store, &h))));
        let got = soft!(settle("C09", "get_operation", sut.call(q_get(store, &h))));
        soft!(check_get("has/get_operation", has, &got, id, &ctx, *exp));
    }
    // topics
    for e in q["resolve"].as_array().expect("resolve") {
        tally.queries += 1;
        let t = e["t"].as_str().unwrap().to_string();
        let got = soft!(settle("C09", "resolve", sut.call(q_resolve(store, &t))));
        let mut flat: Vec<(String, String)> = Vec::new();
        for (a, logs) in &got {
            for l in logs {
                flat.push((names.get(a).cloned().unwrap_or_else(|| a.to_hex()), l.clone()));
            }
        }
        let set: BTreeSet<(String, String)> = flat.iter().cloned().collect();
        let exp: BTreeSet<(String, String)> = e["pairs"]
            .as_array()
            .unwrap()
            .iter()
            .map(|p| (p["a"].as_str().unwrap().to_string(), p["l"].as_str().unwrap().to_string()))
            .collect();
        if set != exp || flat.len() != set.len() {
            soft!(Err(fail("C09", "resolve-differs", format!("resolve({t}) = {flat:?}, the model says {exp:?}"))));
        }
        if !exp.is_empty() {
            tally.distinct.insert(format!("topic|{t}|{exp:?}"));
        }
    }
    // cursors
    for e in q["cursor"].as_array().expect("cursor") {
        tally.queries += 1;
        let n = e["n"].as_str().unwrap();
        let got = soft!(settle("C09", "get_cursor", sut.call(q_cursor(store, n))));
        let present = e["present"].as_bool().unwrap();
        let ok = match &got {
            None => !present,
            Some(c) => present && c.name() == n && *c.state() == heights_from_tlc(&e["v"]),
        };
        if !ok {
            soft!(Err(fail(
                "C09",
                "get_cursor-differs",
                format!(
                    "get_cursor({n}) = {:?}, the model says present={present} {}",
                    got.as_ref().map(|c| (c.name().to_string(), cursor_flat(c.state(), &names))),
                    e["v"]
                ),
            )));
        }
        if present {
            tally.distinct.insert(format!("cursor|{n}|{}", e["v"]));
        }
    }
    Ok(())
}

fn check_latest(
    what: &str,
    got: &Option<Op>,
    exp: &Value,
    ctx: &LineCtx,
    body_of: &dyn Fn(&str) -> bool,
) -> Result<(), Fail> {
    let ids: Vec<&str> = exp["ids"].as_array().unwrap().iter().map(|x| x.as_str().unwrap()).collect();
    let describe = |g: &Option<Op>| g.as_ref().map(|o| ctx.by_hash.get(&o.hash).cloned().unwrap_or_else(|| o.hash.to_hex()));
    let bad = |d: String| fail("C08", "get_latest_entry-differs", format!("{what}({}, {}): {d}", exp["a"], exp["l"]));
    match got {
        None if ids.is_empty() => Ok(()),
        None => Err(bad(format!("None, the model says one of {ids:?}"))),
        Some(op) => {
            let Some(id) = ctx.by_hash.get(&op.hash) else {
                return Err(bad(format!("unknown operation {}", op.hash)));
            };
            if !ids.contains(&id.as_str()) {
                return Err(bad(format!("{:?}, the model says one of {ids:?}", describe(got))));
            }
            same_op(op, &ctx.ops[id], body_of(id)).map_err(bad)
        }
    }
}

fn check_get(what: &str, has: bool, got: &Option<Op>, id: &str, ctx: &LineCtx, exp: (bool, bool)) -> Result<(), Fail> {
    let (present, body) = exp;
    if has != present {
        return Err(fail("C09", "has_operation-differs", format!("{what}({id}): has = {has}, the model says {present}")));
    }
    match got {
        None if !present => Ok(()),
        None => Err(fail("C09", "get_operation-differs", format!("{what}({id}) = None, the model has the operation"))),
        Some(_) if !present => Err(fail("C09", "get_operation-differs", format!("{what}({id}) = Some, the model has no such operation"))),
        Some(op) => same_op(op, &ctx.ops[id], body).map_err(|d| fail("C09", "get_operation-differs", format!("{what}({id}): {d}"))),
    }
}

fn check_entries(
    got: &Option<Vec<(Op, Vec<u8>)>>,
    ids: &[&str],
    ctx: &LineCtx,
    body_of: &dyn Fn(&str) -> bool,
) -> Result<(), String> {
    match got {
        None if ids.is_empty() => Ok(()),
        None => Err(format!("None, the model says {ids:?}")),
        // Some(empty list) is accepted as a rendering of the empty list (spec: EntriesAnswerOK)
        Some(v) if v.is_empty() && ids.is_empty() => Ok(()),
        Some(v) => {
            let mut seen: Vec<String> = Vec::new();
            let mut last: Option<SeqNum> = None;
            for (op, bytes) in v {
                let Some(id) = ctx.by_hash.get(&op.hash) else {
                    return Err(format!("unknown operation {}", op.hash));
                };
                let info = &ctx.ops[id];
                same_op(op, info, body_of(id))?;
                if *bytes != info.op.header.to_bytes() {
                    return Err(format!("header bytes of {id} differ from the encoded header"));
                }
                if last.is_some_and(|p| p > info.seq) {
                    return Err(format!("not ordered by seq_num at {id}"));
                }
                last = Some(info.seq);
                seen.push(id.clone());
            }
            let mut a: Vec<String> = seen.clone();
            a.sort();
            let mut b: Vec<String> = ids.iter().map(|s| s.to_string()).collect();
            b.sort();
            if a != b {
                return Err(format!("{seen:?}, the model says {ids:?}"));
            }
            Ok(())
        }
    }
}

fn replay(args: &Args) {
    let behaviours = read_ndjson(args.input.as_ref().expect("--in"));
    let threads = args.extra_usize("threads", 4).max(1);
    let mut out = Outcome::new(
        args,
        "every TLC-exported command sequence executed on a real in-memory SqliteStore (signed operations, CBOR, SQL): \
         return value of every command and every exported query of the last state compared (plus the _tx query variants \
         inside the last command's transaction); non-trivial = a ranged query with a non-empty expected answer, a non-empty \
         topic resolution or a present cursor; distinct by (query, expected answer)",
    );
    let chunk = behaviours.len().div_ceil(threads).max(1);
    let tallies: Vec<Tally> = std::thread::scope(|scope| {
        let handles: Vec<_> = behaviours
            .chunks(chunk)
            .map(|lines| {
                scope.spawn(move || {
                    let mut tally = Tally::default();
                    let mut sut = Sut::new();
                    for line in lines {
                        tally.lines += 1;
                        sut.clear();
                        if let Err(f) = replay_line(&sut, line, &mut tally) {
                            // a command failed: the behaviour ends there
                            let panicked = f.signature.ends_with("-panics");
                            tally.fails.push((f, line.clone()));
                            if panicked {
                                sut = Sut::new(); // a transaction may be left open
                            }
                        }
                        // one report per failure class and behaviour
                        let mut seen = BTreeSet::new();
                        for f in std::mem::take(&mut tally.soft) {
                            if seen.insert(f.signature.clone()) {
                                tally.fails.push((f, line.clone()));
                            }
                        }
                    }
                    tally
                })
            })
            .collect();
        handles.into_iter().map(|h| h.join().expect("replay thread")).collect()
    });
    for t in tallies {
        out.evaluations += t.lines;
        out.count_by("commands", t.commands);
        out.count_by("queries", t.queries);
        out.count_by("tx_queries", t.tx_queries);
        for (k, v) in t.counters {
            out.count_by(&k, v);
        }
        for d in t.distinct {
            out.mark_distinct(d);
        }
        for (f, line) in t.fails {
            out.violation(f.property, &f.signature, f.detail, line);
        }
    }
    if let Some(b) = behaviours.iter().find(|b| b["steps"].as_array().is_some_and(|s| s.len() >= 3)) {
        out.sample(json!({"steps": b["steps"]}));
    }
    out.write(args);
}

// ------------------------------------------------------------------------------------------
// impl -> spec

struct RecOp {
    label: String,
    info: OpInfo,
    body: bool,
}

const BIG_SEQS: [SeqNum; 8] = [9, 10, 11, 99, 100, 65_535, 65_536, 2_147_483_646];

/// Logged value of an optional bound.  All recorded seq_nums are <= 2^31-2, so every bound
/// above 2^31-1 selects exactly what 2^31-1 selects; TLC integers are 32 bit.
fn log_bound(b: Option<SeqNum>) -> i64 {
    match b {
        None => -1,
        Some(x) => (x as i64).min(i32::MAX as i64),
    }
}

fn record(args: &Args) {
    let mut rng = Rng::new(args.seed);
    let runs = if args.n > 0 { args.n } else { 20 };
    let what = args.extra.get("what").cloned().unwrap_or_else(|| "all".to_string());
    let steps_per_run = args.extra_usize("steps", 120);
    let mut trace = TraceWriter::create(args.out.as_ref().expect("--out"));
    let mut out = Outcome::new(
        args,
        "seeded random command sequences (inserts incl. re-inserts, forks, body-less and large seq_nums, deletes, payload \
         deletions, prunes, topic associations, cursor writes) on a real in-memory SqliteStore; every command's return \
         value and the results of a few queries after it (boundary-biased ranges, arbitrary log lists incl. empty / \
         duplicate / unknown) are recorded; distinct = (run, command index)",
    );
    let mut failed: Vec<(Fail, Value)> = Vec::new();
    for run in 0..runs {
        let sut = Sut::new();
        trace.event(json!({"ev": "Reset", "run": run}));
        if let Err((f, case)) = record_run(&sut, &mut rng, &mut trace, &mut out, &what, steps_per_run, run) {
            failed.push((f, case));
        }
    }
    for (f, case) in failed {
        out.violation(f.property, &format!("recorded:{}", f.signature), f.detail, case);
    }
    let (events, runs) = trace.finish();
    out.set_trace(events, runs);
    out.write(args);
}

fn pick_bound(rng: &mut Rng, seqs: &[SeqNum]) -> Option<SeqNum> {
    match rng.below(10) {
        0 | 1 | 2 => None,
        3 => Some(0),
        4 => Some(u32::MAX),
        5 => Some(*rng.pick(&BIG_SEQS)),
        _ if seqs.is_empty() => Some(rng.below(4) as SeqNum),
        _ => {
            let s = *rng.pick(seqs);
            match rng.below(3) {
                0 => Some(s),
                1 => Some(s.saturating_sub(1)),
                _ => Some(s + 1),
            }
        }
    }
}

#[allow(clippy::too_many_arguments)]
fn record_run(
    sut: &Sut,
    rng: &mut Rng,
    trace: &mut TraceWriter,
    out: &mut Outcome,
    what: &str,
    steps: usize,
    run: usize,
) -> Result<(), (Fail, Value)> {
    let store = &sut.store;
    let n_auth = rng.range(1, 4) as usize;
    let n_logs = rng.range(1, 4) as usize;
    let authors: Vec<String> = (1..=n_auth).map(|i| format!("a{i}")).collect();
    let logs: Vec<String> = (1..=n_logs).map(|i| format!("l{i}")).collect();
    let topics: Vec<String> = (1..=rng.range(1, 3)).map(|i| format!("t{i}")).collect();
    let cursor_names: Vec<String> = (1..=rng.range(1, 3)).map(|i| format!("c{i}")).collect();
    let keys: BTreeMap<String, VerifyingKey> = authors.iter().map(|a| (a.clone(), signing_key(a).verifying_key())).collect();
    let names: BTreeMap<VerifyingKey, String> = keys.iter().map(|(n, k)| (*k, n.clone())).collect();
    let with_ops = what != "collections-only";
    let with_coll = what != "logs";

    let big_sizes = with_ops && rng.chance(1, 3); // a run with header-only operations of huge declared size
    let mut edge_used = false;
    let mut pool: Vec<RecOp> = Vec::new(); // every operation ever created in this run
    let mut by_hash: BTreeMap<Hash, usize> = BTreeMap::new();
    let mut history: Vec<Value> = Vec::new(); // for the replayable case of a failure

    macro_rules! bail {
        ($f:expr) => {{
            let f: Fail = $f;
            return Err((f, json!({"kind": "recorded-run", "run": run, "events": history})));
        }};
    }
    macro_rules! tryf {
        ($e:expr) => {
            match $e {
                Ok(v) => v,
                Err(f) => bail!(f),
            }
        };
    }

    for step in 0..steps {
        // ---------------------------------------------------------------- command
        let mut touched_author = rng.pick(&authors).clone();
        let touched_log = rng.pick(&logs).clone();
        let mut touched_id: Option<usize> = None;
        let family = if with_ops && with_coll {
            if rng.chance(7, 10) { 0 } else { 1 }
        } else if with_ops {
            0
        } else {
            1
        };
        let ev = if family == 0 {
            match rng.below(20) {
                0..=11 => {
                    // insert: a new operation, a fork, or a re-insert of a known one (maybe other log)
                    let idx = if !pool.is_empty() && rng.chance(1, 6) {
                        rng.below(pool.len() as u64) as usize
                    } else {
                        let (author, seq) = if !pool.is_empty() && rng.chance(1, 8) {
                            let o = &pool[rng.below(pool.len() as u64) as usize];
                            (o.info.author.clone(), o.info.seq) // fork
                        } else {
                            let seq = if rng.chance(1, 6) { *rng.pick(&BIG_SEQS) } else { rng.below(9) as SeqNum };
                            (touched_author.clone(), seq)
                        };
                        let (mut pay, mut body) = match rng.below(8) {
                            0 => (0, false),
                            1 => (0, true), // empty body stored with the row
                            2 => (rng.range(1, 40) as u32, false), // payload declared, not present
                            _ => (rng.range(1, 40) as u32, true),
                        };
                        // header-only operations declaring huge payloads (giga * 2^30 + pay bytes);
                        // at most one per run comes within a header's length of a 2^30 boundary, so
                        // that the sub-2^30 remainders of a log always sum to less than 2^31
                        let mut giga = 0;
                        if big_sizes && rng.chance(1, 8) {
                            giga = rng.range(1, 3) as u32;
                            body = false;
                            if !edge_used && rng.chance(1, 2) {
                                edge_used = true;
                                pay = (1 << 30) - rng.range(1, 400) as u32;
                            }
                        }
                        let label = format!("o{}", pool.len());
                        let op = build_op(&format!("run{run}-{label}"), &author, seq, pay, giga, body, rng.below(30) as usize);
                        let hdr = op.header.to_bytes().len() as u32;
                        by_hash.insert(op.hash, pool.len());
                        pool.push(RecOp { label, info: OpInfo { op, author, seq, pay, giga, hdr }, body });
                        pool.len() - 1
                    };
                    let o = &pool[idx];
                    touched_author = o.info.author.clone();
                    touched_id = Some(idx);
                    let ask = TxAsk {
                        latest: vec![(keys[&touched_author], touched_log.clone())],
                        get: vec![o.info.op.hash],
                    };
                    let r = sut.call(in_tx(store, &ask, store.insert_operation(&o.info.op.hash, &o.info.op, &touched_log)));
                    let (ret, _obs) = tryf!(settle("C09", "insert_operation", r));
                    json!({"ev": "InsertOperation", "id": o.label, "a": o.info.author, "l": touched_log, "seq": o.info.seq,
                           "hdr": o.info.hdr, "pay": o.info.pay, "giga": o.info.giga, "body": o.body, "ret": ret as u64})
                }
                12..=14 => {
                    if pool.is_empty() {
                        continue;
                    }
                    let idx = rng.below(pool.len() as u64) as usize;
                    let o = &pool[idx];
                    touched_author = o.info.author.clone();
                    touched_id = Some(idx);
                    let r = sut.call(in_tx(
                        store,
                        &TxAsk::default(),
                        <LS as OperationStore<Op, Hash>>::delete_operation(store, &o.info.op.hash),
                    ));
                    let (ret, _) = tryf!(settle("C09", "delete_operation", r));
                    json!({"ev": "DeleteOperation", "id": o.label, "ret": ret as u64})
                }
                15..=17 => {
                    if pool.is_empty() {
                        continue;
                    }
                    let idx = rng.below(pool.len() as u64) as usize;
                    let o = &pool[idx];
                    touched_author = o.info.author.clone();
                    touched_id = Some(idx);
                    let ret = tryf!(settle("C09", "delete_operation_payload", sut.call(c_delete_payload(store, &o.info.op.hash))));
                    json!({"ev": "DeleteOperationPayload", "id": o.label, "ret": ret as u64})
                }
                _ => {
                    let seqs: Vec<SeqNum> = pool.iter().filter(|o| o.info.author == touched_author).map(|o| o.info.seq).collect();
                    let n = pick_bound(rng, &seqs).unwrap_or(0);
                    let ret = tryf!(settle("C08", "prune_entries", sut.call(c_prune(store, &keys[&touched_author], &touched_log, n))));
                    json!({"ev": "PruneEntries", "a": touched_author, "l": touched_log, "n": log_bound(Some(n)), "ret": ret})
                }
            }
        } else {
            match rng.below(10) {
                0..=3 => {
                    let t = rng.pick(&topics).clone();
                    let r = sut.call(in_tx(
                        store,
                        &TxAsk::default(),
                        <LS as TopicStore<TopicName, VerifyingKey, LogName>>::associate(store, &t, &keys[&touched_author], &touched_log),
                    ));
                    let (ret, _) = tryf!(settle("C09", "associate", r));
                    json!({"ev": "Associate", "t": t, "a": touched_author, "l": touched_log, "ret": ret as u64})
                }
                4..=5 => {
                    let t = rng.pick(&topics).clone();
                    let r = sut.call(in_tx(
                        store,
                        &TxAsk::default(),
                        <LS as TopicStore<TopicName, VerifyingKey, LogName>>::remove(store, &t, &keys[&touched_author], &touched_log),
                    ));
                    let (ret, _) = tryf!(settle("C09", "remove", r));
                    json!({"ev": "Remove", "t": t, "a": touched_author, "l": touched_log, "ret": ret as u64})
                }
                6..=8 => {
                    let n = rng.pick(&cursor_names).clone();
                    let mut state: LogHeights<VerifyingKey, LogName> = LogHeights::new();
                    for a in &authors {
                        if rng.chance(1, 2) {
                            let e = state.entry(keys[a]).or_default();
                            for l in &logs {
                                if rng.chance(1, 2) {
                                    e.insert(l.clone(), if rng.chance(1, 5) { *rng.pick(&BIG_SEQS) } else { rng.below(12) as SeqNum });
                                }
                            }
                        }
                    }
                    let cursor = Cursor::<VerifyingKey, LogName>::new(&n, state);
                    let r = sut.call(in_tx(
                        store,
                        &TxAsk::default(),
                        <LS as CursorStore<VerifyingKey, LogName>>::set_cursor(store, &cursor),
                    ));
                    tryf!(settle("C09", "set_cursor", r));
                    let (au, hs) = cursor_flat(cursor.state(), &names);
                    json!({"ev": "SetCursor", "n": n, "authors": au, "heights": hs, "ret": 0})
                }
                _ => {
                    let n = rng.pick(&cursor_names).clone();
                    let r = sut.call(in_tx(
                        store,
                        &TxAsk::default(),
                        <LS as CursorStore<VerifyingKey, LogName>>::delete_cursor(store, &n),
                    ));
                    tryf!(settle("C09", "delete_cursor", r));
                    json!({"ev": "DeleteCursor", "n": n, "ret": 0})
                }
            }
        };
        out.eval();
        out.mark_distinct(format!("{run}:{step}"));
        out.count(ev["ev"].as_str().unwrap());
        history.push(ev.clone());
        trace.event(ev);

        // ---------------------------------------------------------------- queries after it
        let mut qs: Vec<Value> = Vec::new();
        let n_q = rng.range(3, 6);
        for qi in 0..n_q {
            // the first queries look at what the command touched, the rest anywhere
            let (an, ln) = if qi < 2 {
                (touched_author.clone(), touched_log.clone())
            } else {
                (rng.pick(&authors).clone(), rng.pick(&logs).clone())
            };
            let a = keys[&an];
            let seqs: Vec<SeqNum> = pool.iter().filter(|o| o.info.author == an).map(|o| o.info.seq).collect();
            let kind = if family == 0 { rng.below(6) } else { 6 + rng.below(2) };
            match kind {
                0 => {
                    let got = tryf!(settle("C08", "get_latest_entry", sut.call(q_latest(store, &a, &ln))));
                    let id = match &got {
                        None => String::new(),
                        Some(op) => match by_hash.get(&op.hash) {
                            Some(i) => {
                                // header round trip is concrete: checked here, not in TLA+
                                if op.header != pool[*i].info.op.header {
                                    bail!(fail("C08", "get_latest_entry-differs", format!("header of {} differs", pool[*i].label)));
                                }
                                pool[*i].label.clone()
                            }
                            None => bail!(fail("C08", "get_latest_entry-differs", format!("unknown operation {}", op.hash))),
                        },
                    };
                    qs.push(json!({"k": "latest", "a": an, "l": ln, "id": id, "body": got.as_ref().is_some_and(|o| o.body.is_some())}));
                }
                1 => {
                    // any list of logs: random subset, maybe empty, maybe with duplicates / an unknown log
                    let mut list: Vec<LogName> = logs.iter().filter(|_| rng.chance(1, 2)).cloned().collect();
                    if rng.chance(1, 5) {
                        list.clear();
                    }
                    if !list.is_empty() && rng.chance(1, 4) {
                        list.push(list[0].clone());
                    }
                    if rng.chance(1, 6) {
                        list.push("l-unknown".to_string());
                    }
                    rng.shuffle(&mut list);
                    let what = if list.is_empty() { "get_log_heights-empty-list" } else { "get_log_heights" };
                    let got = tryf!(settle("C08", what, sut.call(q_heights(store, &a, &list))));
                    let res: Vec<(String, u32)> = got.iter().flatten().map(|(l, h)| (l.clone(), *h)).collect();
                    qs.push(json!({"k": "heights", "a": an, "logs": list, "none": got.is_none(), "res": res}));
                }
                2 | 3 => {
                    let af = pick_bound(rng, &seqs);
                    let un = pick_bound(rng, &seqs);
                    if kind == 2 {
                        let got = tryf!(settle("C08", "get_log_entries", sut.call(q_entries(store, &a, &ln, af, un))));
                        let mut ids: Vec<String> = Vec::new();
                        let mut bodies: Vec<bool> = Vec::new();
                        for (op, bytes) in got.iter().flatten() {
                            let Some(i) = by_hash.get(&op.hash) else {
                                bail!(fail("C08", "get_log_entries-differs", format!("unknown operation {}", op.hash)));
                            };
                            let o = &pool[*i];
                            if op.header != o.info.op.header || *bytes != o.info.op.header.to_bytes() {
                                bail!(fail("C08", "get_log_entries-differs", format!("header (bytes) of {} differ from what was inserted", o.label)));
                            }
                            if let Some(b) = &op.body
                                && Some(b) != o.info.op.body.as_ref()
                            {
                                bail!(fail("C08", "get_log_entries-differs", format!("body bytes of {} differ", o.label)));
                            }
                            ids.push(o.label.clone());
                            bodies.push(op.body.is_some());
                        }
                        qs.push(json!({"k": "entries", "a": an, "l": ln, "af": log_bound(af), "un": log_bound(un),
                                       "none": got.is_none(), "ids": ids, "bodies": bodies}));
                    } else {
                        // an Err is an answer here: the model demands one when the total exceeds u32
                        let (err, got) = match sut.call(q_size(store, &a, &ln, af, un)) {
                            Call::Err(_) => (true, None),
                            other => (false, tryf!(settle("C08", "get_log_size", other))),
                        };
                        let (n, bytes) = got.unwrap_or((0, 0));
                        // TLC integers are 32 bit: totals >= 2^31 are logged minus 2^31 with high = true
                        let high = bytes >= 1 << 31;
                        qs.push(json!({"k": "size", "a": an, "l": ln, "af": log_bound(af), "un": log_bound(un), "err": err,
                                       "none": !err && got.is_none(), "n": n, "bytes": if high { bytes - (1 << 31) } else { bytes }, "high": high}));
                    }
                }
                4 | 5 => {
                    // has / get of the touched operation or any known one
                    if pool.is_empty() {
                        continue;
                    }
                    let idx = match touched_id {
                        Some(i) if qi < 2 => i,
                        _ => rng.below(pool.len() as u64) as usize,
                    };
                    let o = &pool[idx];
                    let has = tryf!(settle("C09", "has_operation", sut.call(q_has(store, &o.info.op.hash))));
                    let got = tryf!(settle("C09", "get_operation", sut.call(q_get(store, &o.info.op.hash))));
                    if let Some(op) = &got {
                        // "reading it back returns the same header, body and id" (bytes: checked here)
                        if op.hash != o.info.op.hash || op.header != o.info.op.header {
                            bail!(fail("C09", "get_operation-differs", format!("id/header of {} differ from what was inserted", o.label)));
                        }
                        if let Some(b) = &op.body
                            && Some(b) != o.info.op.body.as_ref()
                        {
                            bail!(fail("C09", "get_operation-differs", format!("body bytes of {} differ", o.label)));
                        }
                    }
                    qs.push(json!({"k": "get", "id": o.label, "has": has, "present": got.is_some(),
                                   "body": got.as_ref().is_some_and(|g| g.body.is_some())}));
                }
                6 => {
                    let t = rng.pick(&topics).clone();
                    let got = tryf!(settle("C09", "resolve", sut.call(q_resolve(store, &t))));
                    let mut pairs: Vec<(String, String)> = Vec::new();
                    for (k, ls) in &got {
                        for l in ls {
                            pairs.push((names.get(k).cloned().unwrap_or_else(|| k.to_hex()), l.clone()));
                        }
                    }
                    qs.push(json!({"k": "resolve", "t": t, "pairs": pairs}));
                }
                _ => {
                    let n = rng.pick(&cursor_names).clone();
                    let got = tryf!(settle("C09", "get_cursor", sut.call(q_cursor(store, &n))));
                    match &got {
                        None => qs.push(json!({"k": "cursor", "n": n, "present": false, "authors": [], "heights": []})),
                        Some(c) => {
                            if c.name() != n {
                                bail!(fail("C09", "get_cursor-differs", format!("cursor read under {n} is named {}", c.name())));
                            }
                            let (au, hs) = cursor_flat(c.state(), &names);
                            qs.push(json!({"k": "cursor", "n": n, "present": true, "authors": au, "heights": hs}));
                        }
                    }
                }
            }
        }
        let ev = json!({"ev": "Queries", "q": qs});
        history.push(ev.clone());
        trace.event(ev);
    }
    out.sample(json!({"run": run, "first_events": history.iter().take(4).collect::<Vec<_>>()}));
    Ok(())
}
