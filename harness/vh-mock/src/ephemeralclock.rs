//! Ephemeral, publisher half of C16: the real `EphemeralStreamPublisher` under mock_instant's
//! thread-local wall clock (this package is built with `p2panda-core/test_utils`), against the
//! publisher machine of spec/Ephemeral.
//!
//! The publisher is built by `p2panda::verif_api::verif_ephemeral_stream` over a real
//! `GossipHandle` whose channels belong to the harness (probe actor answering
//! `ToGossipManager::Subscribe`, hook `Gossip::verif_new`); the bytes it hands to gossip are taken
//! from the mpsc channel, decoded as CBOR and their (timestamp, logical) pair, pairwise
//! distinctness and order are compared with the specification. Every captured message is also
//! delivered to the real subscription of the same stream, which must yield it.
//! Everything runs on one thread (current-thread runtime + `block_on`), the thread whose mock
//! clock the harness sets before each call that reads it.
use std::pin::Pin;
use std::sync::Arc;
use std::sync::atomic::{AtomicU64, Ordering};
use std::task::{Context, Poll, Wake, Waker};
use std::time::Duration;

use ciborium::Value as Cbor;
use futures_util::Stream;
use mock_instant::thread_local::MockClock;
use p2panda::streams::{EphemeralStreamPublisher, EphemeralStreamSubscription};
use p2panda::verif_api::{OperationForge, verif_ephemeral_stream};
use p2panda_core::{SigningKey, Topic};
use p2panda_net::AddressBook;
use p2panda_net::gossip::{Gossip, GossipConfig, ToGossipManager};
use p2panda_store::SqliteStore;
use ractor::{Actor, ActorProcessingErr, ActorRef};
use tokio::runtime::Runtime;
use tokio::sync::{broadcast, mpsc};
use vh_common::{Args, Outcome, Rng, TraceWriter, Value, catch, json, read_ndjson, unknown};

pub fn run(args: &Args) {
    match args.mode.as_str() {
        "replay" => replay(args),
        "record" => record(args),
        _ => unknown(args),
    }
}

fn set_wall(micros: u64) {
    MockClock::set_system_time(Duration::from_micros(micros));
}

type Channels = (mpsc::Sender<Vec<u8>>, broadcast::Sender<Vec<u8>>);

/// Stand-in for the gossip manager actor: answers the (one) `Subscribe` with the prepared channels.
struct Probe;

impl Actor for Probe {
    type Msg = ToGossipManager;
    type State = Option<Channels>;
    type Arguments = Channels;

    async fn pre_start(&self, _me: ActorRef<Self::Msg>, args: Channels) -> Result<Self::State, ActorProcessingErr> {
        Ok(Some(args))
    }

    async fn handle(&self, _me: ActorRef<Self::Msg>, message: Self::Msg, state: &mut Self::State) -> Result<(), ActorProcessingErr> {
        if let ToGossipManager::Subscribe(_topic, _nodes, reply) = message
            && let Some(channels) = state.take()
        {
            let _ = reply.send(channels);
        }
        Ok(())
    }
}

struct Env {
    rt: Runtime,
    address_book: AddressBook,
    store: SqliteStore,
    key: SigningKey,
    topics: AtomicU64,
}

struct Noop;
impl Wake for Noop {
    fn wake(self: Arc<Self>) {}
}

struct Stream1 {
    _gossip: Gossip,
    publisher: EphemeralStreamPublisher<String>,
    sub: Pin<Box<EphemeralStreamSubscription<String>>>,
    from_tx: broadcast::Sender<Vec<u8>>,
    to_rx: mpsc::Receiver<Vec<u8>>,
}

impl Env {
    fn new() -> Env {
        set_wall(1_000_000);
        let rt = tokio::runtime::Builder::new_current_thread().enable_all().build().expect("runtime");
        let (address_book, store) =
            rt.block_on(async { (AddressBook::builder().spawn().await.expect("address book"), SqliteStore::temporary().await) });
        Env { rt, address_book, store, key: SigningKey::from_bytes(&[0xA1; 32]), topics: AtomicU64::new(1) }
    }

    /// `ephemeral_stream` while the wall clock reads `w0`.
    fn create_stream(&self, w0: u64) -> Stream1 {
        let n = self.topics.fetch_add(1, Ordering::SeqCst);
        let mut t = [0u8; 32];
        t[..8].copy_from_slice(&n.to_be_bytes());
        let topic = Topic::from(t);
        let (to_tx, to_rx) = mpsc::channel::<Vec<u8>>(1024);
        let (from_tx, rx0) = broadcast::channel::<Vec<u8>>(1024);
        drop(rx0);
        let forge = OperationForge::from_signing_key(self.key.clone(), self.store.clone());
        let (gossip, publisher, sub) = self.rt.block_on(async {
            let (actor, _join) = Actor::spawn(None, Probe, (to_tx, from_tx.clone())).await.expect("spawn probe");
            let gossip = Gossip::verif_new(actor, self.key.verifying_key(), self.address_book.clone(), GossipConfig::default());
            let handle = gossip.stream(topic).await.expect("gossip stream");
            set_wall(w0);
            let (publisher, sub) = verif_ephemeral_stream::<String>(topic, forge, handle);
            (gossip, publisher, sub)
        });
        Stream1 { _gossip: gossip, publisher, sub: Box::pin(sub), from_tx, to_rx }
    }
}

/// The fields of a published message the property talks about.
#[derive(Debug, Clone, PartialEq)]
struct Published {
    bytes: Vec<u8>,
    ts: (u64, u64),
}

impl Stream1 {
    /// `publish(body)` while the wall clock reads `w`; returns the bytes handed to gossip.
    fn publish(&mut self, env: &Env, w: u64, body: &str) -> Result<Published, String> {
        set_wall(w);
        catch(|| env.rt.block_on(self.publisher.publish(body.to_string())))?.map_err(|e| format!("publish failed: {e}"))?;
        let bytes = self.to_rx.try_recv().map_err(|e| format!("nothing handed to gossip: {e}"))?;
        let fields = match ciborium::from_reader::<Cbor, _>(&bytes[..]) {
            Ok(Cbor::Array(f)) if f.len() == 6 => f,
            other => return Err(format!("published bytes are not the 6-tuple: {other:?}")),
        };
        let int = |v: &Cbor| match v {
            Cbor::Integer(i) => u64::try_from(*i).map_err(|e| e.to_string()),
            other => Err(format!("not an integer: {other:?}")),
        };
        Ok(Published { ts: (int(&fields[3])?, int(&fields[4])?), bytes })
    }

    /// Delivers the bytes to the stream's own subscription; returns (author ok, timestamp, body) if yielded.
    fn roundtrip(&mut self, env: &Env, bytes: &[u8]) -> Option<(bool, u64, String)> {
        let _ = self.from_tx.send(bytes.to_vec());
        let waker = Waker::from(Arc::new(Noop));
        let mut cx = Context::from_waker(&waker);
        match self.sub.as_mut().poll_next(&mut cx) {
            Poll::Ready(Some(m)) => Some((m.author() == env.key.verifying_key(), m.timestamp(), m.body().clone())),
            _ => None,
        }
    }
}

/// Order-preserving embeddings of the model's small naturals into microsecond magnitudes.
const EMBEDDINGS: &[(u64, u64)] = &[(0, 1), (1_700_000_000_000_000, 1), (1_700_000_000_000_000, 60_000_000)];

fn lex_less(a: (u64, u64), b: (u64, u64)) -> bool {
    a.0 < b.0 || (a.0 == b.0 && a.1 < b.1)
}

/// Property-level judgement of a publish sequence (C16, second sentence).
fn judge_sequence(out: &mut Outcome, seq: &[Published], case: &Value) -> bool {
    for j in 0..seq.len() {
        for k in (j + 1)..seq.len() {
            if seq[j].bytes == seq[k].bytes {
                out.violation(
                    "C16",
                    "byte-identical-messages",
                    format!("publishes {j} and {k} of one publisher are byte-identical (timestamp {:?})", seq[j].ts),
                    case.clone(),
                );
                return false;
            }
        }
        if j + 1 < seq.len() && !lex_less(seq[j].ts, seq[j + 1].ts) {
            out.violation(
                "C16",
                "timestamp-not-increasing",
                format!("publish {} carries timestamp {:?}, the previous one {:?}", j + 1, seq[j + 1].ts, seq[j].ts),
                case.clone(),
            );
            return false;
        }
    }
    true
}

fn replay(args: &Args) {
    let behaviours = read_ndjson(args.input.as_ref().expect("--in"));
    let mut out = Outcome::new(
        args,
        "every TLC-enumerated sequence of wall-clock readings (stream creation + publishes of the SAME body) executed on the real \
         EphemeralStreamPublisher under the mock clock in 3 magnitudes; non-trivial = some reading not ahead of the previous timestamp; \
         distinct by sequence x magnitude",
    );
    let env = Env::new();
    for b in &behaviours {
        if b["kind"] != "pub" {
            eprintln!("unknown behaviour kind: {b}");
            std::process::exit(2);
        }
        for &e in EMBEDDINGS {
            out.eval();
            let emb = |x: u64| e.0 + x * e.1;
            let mut stream: Option<Stream1> = None;
            let mut seq: Vec<Published> = Vec::new();
            let mut nontrivial = false;
            let mut prev_t: Option<u64> = None;
            let mut ok = true;
            for (idx, step) in b["steps"].as_array().expect("steps").iter().enumerate() {
                let w = step["w"].as_u64().unwrap();
                let exp = (emb(step["ts"][0].as_u64().unwrap()), step["ts"][1].as_u64().unwrap());
                match step["ev"].as_str().unwrap() {
                    "CreateStream" => {
                        stream = Some(env.create_stream(emb(w)));
                        prev_t = Some(w);
                    }
                    "Publish" => {
                        if prev_t.is_some_and(|p| w <= p) {
                            nontrivial = true;
                            out.count(if prev_t == Some(w) { "wall-equal" } else { "wall-earlier" });
                        } else {
                            out.count("wall-later");
                        }
                        prev_t = Some(prev_t.unwrap_or(0).max(w));
                        let s = stream.as_mut().expect("stream created first");
                        match s.publish(&env, emb(w), "same body every time") {
                            Ok(p) => {
                                if p.ts != exp {
                                    // conformance; whether the property itself is hurt is judged below on the whole sequence
                                    seq.push(p.clone());
                                    if judge_sequence(&mut out, &seq, b) {
                                        out.violation(
                                            "C16",
                                            "publisher-differs-from-spec",
                                            format!("step {idx}: published timestamp {:?}, specification says {exp:?}", p.ts),
                                            b.clone(),
                                        );
                                    }
                                    ok = false;
                                    break;
                                }
                                match s.roundtrip(&env, &p.bytes) {
                                    Some((true, t, body)) if t == p.ts.0 && body == "same body every time" => {}
                                    other => {
                                        out.violation(
                                            "C16",
                                            "published-message-not-yielded",
                                            format!("step {idx}: own subscription did not yield the published message as signed: {other:?}"),
                                            b.clone(),
                                        );
                                        ok = false;
                                        break;
                                    }
                                }
                                seq.push(p);
                            }
                            Err(err) => {
                                out.violation("C16", "publish-panics-or-fails", err, b.clone());
                                ok = false;
                                break;
                            }
                        }
                    }
                    other => {
                        eprintln!("unknown step {other}");
                        std::process::exit(2);
                    }
                }
            }
            if ok && judge_sequence(&mut out, &seq, b) {
                out.sample(b.clone());
            }
            if nontrivial {
                out.mark_distinct(format!("{}|{e:?}", b["steps"]));
            }
        }
    }
    out.write(args);
}

const TLC_MAX: u64 = (i32::MAX - 2) as u64;

fn record(args: &Args) {
    let mut rng = Rng::new(args.seed);
    let n = if args.n > 0 { args.n } else { 100 };
    let mut trace = TraceWriter::create(args.out.as_ref().expect("--out"));
    let mut out = Outcome::new(
        args,
        "seeded random publish sequences of one body under a wall clock that jumps backwards, stands still, creeps and jumps forward \
         (values <= 2^31-3); one trace event per stream creation / publish with the timestamp pair found in the published bytes",
    );
    let env = Env::new();
    for run in 0..n {
        trace.event(json!({"ev": "Reset", "run": run, "cap": 1}));
        trace.event(json!({"ev": "PubReset"}));
        let base = rng.below(TLC_MAX - 200_000);
        let mut wall = base + 100_000;
        let mut s = env.create_stream(wall);
        trace.event(json!({"ev": "CreateStream", "w": wall}));
        let mut seq: Vec<Published> = Vec::new();
        let publishes = rng.range(3, 12);
        let case = json!({"run": run, "seed": args.seed});
        for _ in 0..publishes {
            let last_t = seq.last().map(|p| p.ts.0).unwrap_or(wall);
            match rng.below(20) {
                0..=3 => wall = wall.saturating_sub(rng.range(1, 50_000)).max(base),
                4..=6 => {}
                7..=9 => wall = last_t,
                10..=12 => wall = (wall + 1).min(TLC_MAX),
                13 => wall = *rng.pick(&[0, 1, TLC_MAX - 1, TLC_MAX]),
                _ => wall = (wall + rng.range(1, 5_000)).min(TLC_MAX),
            }
            out.eval();
            out.count(if wall < last_t { "wall-earlier" } else if wall == last_t { "wall-equal" } else { "wall-later" });
            match s.publish(&env, wall, "same body every time") {
                Ok(p) => {
                    out.mark_distinct(format!("{run}:{}:{wall}", seq.len()));
                    trace.event(json!({"ev": "Publish", "w": wall, "ts": [p.ts.0, p.ts.1]}));
                    seq.push(p);
                }
                Err(e) => {
                    out.violation("C16", "publish-panics-or-fails", e, case.clone());
                    break;
                }
            }
        }
        judge_sequence(&mut out, &seq, &case);
    }
    let (events, runs) = trace.finish();
    out.set_trace(events, runs);
    out.write(args);
}
