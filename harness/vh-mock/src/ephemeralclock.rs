//! Ephemeral, publisher half of C16: the real `EphemeralStreamPublisher` under mock_instant's
//! thread-local wall clock (this package is built with `p2panda-core/test_utils`), against the
//! publisher machine of spec/Ephemeral.
//!
//! The publisher is built by `p2panda::verif_api::verif_ephemeral_stream` over a real
//! `GossipHandle` whose channels belong to the harness (probe actor answering
//! `ToGossipManager::Subscribe`, hook `Gossip::verif_new`); the bytes it hands to gossip are taken
//! from the mpsc channel, decoded as CBOR and their (timestamp, logical) pair, pairwise
//! distinctness and order are compared with the specification. Every captured message is also
//! delivered to the real subscription of the same stream, which must yield it.
//! Everything runs on one thread (current-thread runtime + `block_on`), the thread whose mock
//! clock the harness sets before each call that reads it.
//!
//! Overlapping publishes through clones of one publisher are forced WITHOUT hooks by back-pressure:
//! the mpsc channel publisher -> gossip actor handed out by the probe has the capacity the
//! specification chose (1, 2, ..) and is drained only where the specification's `Drain` steps say
//! so. Every `publish` call is a future the harness polls by hand with its own counting waker: the
//! first poll draws the timestamp, signs, encodes and either enqueues or parks in `send().await`;
//! a parked call is polled again only after its waker fired (a drained message frees a permit).
use std::pin::Pin;
use std::sync::Arc;
use std::collections::BTreeMap;
use std::future::Future;
use std::sync::atomic::{AtomicU64, Ordering};
use std::task::{Context, Poll, Wake, Waker};
use std::time::Duration;

use ciborium::Value as Cbor;
use futures_util::Stream;
use mock_instant::thread_local::MockClock;
use p2panda::streams::{EphemeralPublishError, EphemeralStreamPublisher, EphemeralStreamSubscription};
use p2panda::verif_api::{OperationForge, verif_ephemeral_stream};
use p2panda_core::{SigningKey, Topic};
use p2panda_net::AddressBook;
use p2panda_net::gossip::{Gossip, GossipConfig, ToGossipManager};
use p2panda_store::SqliteStore;
use ractor::{Actor, ActorProcessingErr, ActorRef};
use tokio::runtime::Runtime;
use tokio::sync::{broadcast, mpsc};
use vh_common::{Args, Outcome, Rng, TraceWriter, Value, catch, json, read_ndjson, unknown};

pub fn run(args: &Args) {
    match args.mode.as_str() {
        "replay" => replay(args),
        "record" => record(args),
        _ => unknown(args),
    }
}

fn set_wall(micros: u64) {
    MockClock::set_system_time(Duration::from_micros(micros));
}

type Channels = (mpsc::Sender<Vec<u8>>, broadcast::Sender<Vec<u8>>);

/// Stand-in for the gossip manager actor: answers the (one) `Subscribe` with the prepared channels.
struct Probe;

impl Actor for Probe {
    type Msg = ToGossipManager;
    type State = Option<Channels>;
    type Arguments = Channels;

    async fn pre_start(&self, _me: ActorRef<Self::Msg>, args: Channels) -> Result<Self::State, ActorProcessingErr> {
        Ok(Some(args))
    }

    async fn handle(&self, _me: ActorRef<Self::Msg>, message: Self::Msg, state: &mut Self::State) -> Result<(), ActorProcessingErr> {
        if let ToGossipManager::Subscribe(_topic, _nodes, reply) = message
            && let Some(channels) = state.take()
        {
            let _ = reply.send(channels);
        }
        Ok(())
    }
}

struct Env {
    rt: Runtime,
    address_book: AddressBook,
    store: SqliteStore,
    key: SigningKey,
    topics: AtomicU64,
}

struct Noop;
impl Wake for Noop {
    fn wake(self: Arc<Self>) {}
}

#[derive(Default)]
struct CountWaker(AtomicU64);
impl Wake for CountWaker {
    fn wake(self: Arc<Self>) {
        self.0.fetch_add(1, Ordering::SeqCst);
    }
    fn wake_by_ref(self: &Arc<Self>) {
        self.0.fetch_add(1, Ordering::SeqCst);
    }
}

type PublishFuture = Pin<Box<dyn Future<Output = Result<(), EphemeralPublishError>>>>;

/// A `publish` call that is parked in the send await.
struct InFlight {
    call: usize,
    fut: PublishFuture,
    waker: Arc<CountWaker>,
    seen: u64,
}

struct Stream1 {
    _gossip: Gossip,
    /// "p1" is the publisher `ephemeral_stream` returned, the others are clones of it
    handles: BTreeMap<String, EphemeralStreamPublisher<String>>,
    inflight: BTreeMap<String, InFlight>,
    /// number of publish calls started so far (a call's number is its position in DRAW order: the
    /// first poll of a call draws its timestamp)
    calls: usize,
    /// call numbers in the order in which their messages entered the gossip channel (a first poll or a
    /// resume that returned Ok(())); the channel is FIFO, so the k-th message taken out belongs to `entered[k]`
    entered: Vec<usize>,
    taken: usize,
    sub: Pin<Box<EphemeralStreamSubscription<String>>>,
    from_tx: broadcast::Sender<Vec<u8>>,
    to_rx: mpsc::Receiver<Vec<u8>>,
}

const BODY: &str = "same body every time";

impl Env {
    fn new() -> Env {
        set_wall(1_000_000);
        let rt = tokio::runtime::Builder::new_current_thread().enable_all().build().expect("runtime");
        let (address_book, store) =
            rt.block_on(async { (AddressBook::builder().spawn().await.expect("address book"), SqliteStore::temporary().await) });
        Env { rt, address_book, store, key: SigningKey::from_bytes(&[0xA1; 32]), topics: AtomicU64::new(1) }
    }

    /// `ephemeral_stream` while the wall clock reads `w0`; the channel to gossip holds `gcap` messages.
    fn create_stream(&self, w0: u64, gcap: usize) -> Stream1 {
        let n = self.topics.fetch_add(1, Ordering::SeqCst);
        let mut t = [0u8; 32];
        t[..8].copy_from_slice(&n.to_be_bytes());
        let topic = Topic::from(t);
        let (to_tx, to_rx) = mpsc::channel::<Vec<u8>>(gcap);
        let (from_tx, rx0) = broadcast::channel::<Vec<u8>>(1024);
        drop(rx0);
        let forge = OperationForge::from_signing_key(self.key.clone(), self.store.clone());
        let (gossip, publisher, sub) = self.rt.block_on(async {
            let (actor, _join) = Actor::spawn(None, Probe, (to_tx, from_tx.clone())).await.expect("spawn probe");
            let gossip = Gossip::verif_new(actor, self.key.verifying_key(), self.address_book.clone(), GossipConfig::default());
            let handle = gossip.stream(topic).await.expect("gossip stream");
            set_wall(w0);
            let (publisher, sub) = verif_ephemeral_stream::<String>(topic, forge, handle);
            (gossip, publisher, sub)
        });
        let mut handles = BTreeMap::new();
        for name in ["p2", "p3"] {
            handles.insert(name.to_string(), publisher.clone());
        }
        handles.insert("p1".to_string(), publisher);
        Stream1 { _gossip: gossip, handles, inflight: BTreeMap::new(), calls: 0, entered: Vec::new(), taken: 0, sub: Box::pin(sub), from_tx, to_rx }
    }
}

/// A message taken from the channel to gossip.
#[derive(Debug, Clone, PartialEq)]
struct Published {
    /// number of the publish call that produced it, in draw order
    call: usize,
    bytes: Vec<u8>,
    ts: (u64, u64),
}

impl Stream1 {
    /// First poll of `handle.publish(BODY)` while the wall clock reads `w`.
    /// Ok(true) = returned Ok(()), Ok(false) = parked in the send await.
    fn start(&mut self, h: &str, w: u64) -> Result<bool, String> {
        if self.inflight.contains_key(h) {
            return Err(format!("handle {h} still has a publish in flight"));
        }
        let p = self.handles.get(h).ok_or_else(|| format!("no handle {h}"))?.clone();
        let mut fut: PublishFuture = Box::pin(async move { p.publish(BODY.to_string()).await });
        let waker = Arc::new(CountWaker::default());
        set_wall(w);
        let w2 = Waker::from(waker.clone());
        let mut cx = Context::from_waker(&w2);
        let call = self.calls;
        self.calls += 1;
        match catch(|| fut.as_mut().poll(&mut cx))? {
            Poll::Ready(Ok(())) => {
                self.entered.push(call);
                Ok(true)
            }
            Poll::Ready(Err(e)) => Err(format!("publish failed: {e}")),
            Poll::Pending => {
                let seen = waker.0.load(Ordering::SeqCst);
                self.inflight.insert(h.to_string(), InFlight { call, fut, waker, seen });
                Ok(false)
            }
        }
    }

    /// Handles whose parked publish was woken since it was last polled.
    fn woken(&self) -> Vec<String> {
        self.inflight.iter().filter(|(_, f)| f.waker.0.load(Ordering::SeqCst) > f.seen).map(|(h, _)| h.clone()).collect()
    }

    /// Polls the parked publish of `h` again. Ok(true) = returned Ok(()).
    fn resume(&mut self, h: &str) -> Result<bool, String> {
        let mut f = self.inflight.remove(h).ok_or_else(|| format!("handle {h} has nothing in flight"))?;
        f.seen = f.waker.0.load(Ordering::SeqCst);
        let w2 = Waker::from(f.waker.clone());
        let mut cx = Context::from_waker(&w2);
        match catch(|| f.fut.as_mut().poll(&mut cx))? {
            Poll::Ready(Ok(())) => {
                self.entered.push(f.call);
                Ok(true)
            }
            Poll::Ready(Err(e)) => Err(format!("publish failed: {e}")),
            Poll::Pending => {
                self.inflight.insert(h.to_string(), f);
                Ok(false)
            }
        }
    }

    /// The gossip actor takes one message out of the channel. Returns it and whether that woke a parked publish.
    fn drain(&mut self) -> Result<Option<(Published, bool)>, String> {
        let before = self.woken().len();
        let bytes = match self.to_rx.try_recv() {
            Ok(b) => b,
            Err(mpsc::error::TryRecvError::Empty) => return Ok(None),
            Err(e) => return Err(format!("gossip channel: {e}")),
        };
        let woke = self.woken().len() > before;
        let fields = match ciborium::from_reader::<Cbor, _>(&bytes[..]) {
            Ok(Cbor::Array(f)) if f.len() == 6 => f,
            other => return Err(format!("published bytes are not the 6-tuple: {other:?}")),
        };
        let int = |v: &Cbor| match v {
            Cbor::Integer(i) => u64::try_from(*i).map_err(|e| e.to_string()),
            other => Err(format!("not an integer: {other:?}")),
        };
        let call = self.entered.get(self.taken).copied().ok_or("a message in the gossip channel that no publish call put there")?;
        self.taken += 1;
        Ok(Some((Published { call, ts: (int(&fields[3])?, int(&fields[4])?), bytes }, woke)))
    }

    /// Delivers the bytes to the stream's own subscription; returns (author ok, timestamp, body) if yielded.
    fn roundtrip(&mut self, env: &Env, bytes: &[u8]) -> Option<(bool, u64, String)> {
        let _ = self.from_tx.send(bytes.to_vec());
        let waker = Waker::from(Arc::new(Noop));
        let mut cx = Context::from_waker(&waker);
        match self.sub.as_mut().poll_next(&mut cx) {
            Poll::Ready(Some(m)) => Some((m.author() == env.key.verifying_key(), m.timestamp(), m.body().clone())),
            _ => None,
        }
    }
}

/// Order-preserving embeddings of the model's small naturals into microsecond magnitudes.
const EMBEDDINGS: &[(u64, u64)] = &[(0, 1), (1_700_000_000_000_000, 1), (1_700_000_000_000_000, 60_000_000)];

fn lex_less(a: (u64, u64), b: (u64, u64)) -> bool {
    a.0 < b.0 || (a.0 == b.0 && a.1 < b.1)
}

/// Property-level judgement of everything one publisher (all its clones) handed to gossip (C16, second
/// sentence): no two messages byte-identical, and timestamps strictly increasing in the order in which
/// the publish calls drew them. (Channel order is NOT draw order in general: with a free permit a later
/// call may enqueue before a woken earlier one is polled again. Which call a message belongs to follows
/// from facts the harness observes itself: when each call returned, and the channel being FIFO.)
fn judge_sequence(out: &mut Outcome, seq: &[Published], case: &Value) -> bool {
    for j in 0..seq.len() {
        for k in (j + 1)..seq.len() {
            if seq[j].bytes == seq[k].bytes {
                out.violation(
                    "C16",
                    "byte-identical-messages",
                    format!(
                        "the messages of publish calls {} and {} of one publisher are byte-identical (timestamp {:?})",
                        seq[j].call, seq[k].call, seq[j].ts
                    ),
                    case.clone(),
                );
                return false;
            }
        }
    }
    let mut by_draw: Vec<&Published> = seq.iter().collect();
    by_draw.sort_by_key(|p| p.call);
    for w in by_draw.windows(2) {
        if !lex_less(w[0].ts, w[1].ts) {
            out.violation(
                "C16",
                "timestamp-not-increasing",
                format!("publish call {} drew timestamp {:?}, call {} before it {:?}", w[1].call, w[1].ts, w[0].call, w[0].ts),
                case.clone(),
            );
            return false;
        }
    }
    true
}

/// Executes one exported behaviour in one magnitude. Err = first disagreement with the specification.
fn run_behaviour(env: &Env, out: &mut Outcome, b: &Value, e: (u64, u64), emitted: &mut Vec<Published>, overlap: &mut bool) -> Result<(), String> {
    let emb = |x: u64| e.0 + x * e.1;
    let gcap = b["gcap"].as_u64().unwrap() as usize;
    let mut stream: Option<Stream1> = None;
    // outcome of the last poll per handle: true = the call returned Ok(())
    let mut returned: BTreeMap<String, bool> = BTreeMap::new();
    for (idx, step) in b["steps"].as_array().expect("steps").iter().enumerate() {
        let h = step["h"].as_str().unwrap_or("");
        match step["ev"].as_str().unwrap() {
            "CreateStream" => stream = Some(env.create_stream(emb(step["w"].as_u64().unwrap()), gcap)),
            "DrawTs" => {
                let s = stream.as_mut().ok_or("no stream")?;
                if !s.inflight.is_empty() {
                    *overlap = true; // another publish has drawn its timestamp and not returned yet
                    out.count("draw-while-another-publish-is-in-flight");
                }
                let done = s.start(h, emb(step["w"].as_u64().unwrap())).map_err(|m| format!("step {idx}: {m}"))?;
                returned.insert(h.to_string(), done);
            }
            "SignEncode" => {}
            "SendTry" => {
                let waits = step["waits"].as_bool().unwrap();
                if returned.get(h) != Some(&!waits) {
                    return Err(format!(
                        "step {idx}: first poll of publish on {h} returned={:?}, specification says it {}",
                        returned.get(h),
                        if waits { "parks in the send await" } else { "enqueues and returns" }
                    ));
                }
            }
            "SendResume" => {
                let s = stream.as_mut().ok_or("no stream")?;
                if !s.woken().iter().any(|x| x == h) {
                    return Err(format!("step {idx}: specification resumes {h}, its waker did not fire (woken: {:?})", s.woken()));
                }
                let done = s.resume(h).map_err(|m| format!("step {idx}: {m}"))?;
                returned.insert(h.to_string(), done);
            }
            "Return" => {
                if returned.get(h) != Some(&true) {
                    return Err(format!("step {idx}: specification says publish on {h} returns, the real call is still pending"));
                }
            }
            "Drain" => {
                let s = stream.as_mut().ok_or("no stream")?;
                let exp = (emb(step["ts"][0].as_u64().unwrap()), step["ts"][1].as_u64().unwrap());
                match s.drain().map_err(|m| format!("step {idx}: {m}"))? {
                    None => return Err(format!("step {idx}: gossip channel is empty, specification takes {exp:?} out of it")),
                    Some((p, woke)) => {
                        let ts = p.ts;
                        let yielded = s.roundtrip(env, &p.bytes);
                        emitted.push(p.clone());
                        match yielded {
                            Some((true, t, body)) if t == ts.0 && body == BODY => {}
                            other => return Err(format!("step {idx}: own subscription did not yield the published message as signed: {other:?}")),
                        }
                        if ts != exp {
                            return Err(format!("step {idx}: message taken from the gossip channel carries timestamp {ts:?}, specification says {exp:?}"));
                        }
                        if woke != step["woke"].as_bool().unwrap() {
                            return Err(format!("step {idx}: draining woke a parked publish: {woke}, specification says {}", step["woke"]));
                        }
                    }
                }
            }
            other => {
                eprintln!("unknown step {other}");
                std::process::exit(2);
            }
        }
    }
    if let Some(s) = stream.as_mut() {
        // nothing may be left: the specification's behaviour ends with all calls returned and the channel empty
        while let Some((p, _)) = s.drain()? {
            emitted.push(p);
            let woken = s.woken();
            for h in woken {
                let _ = s.resume(&h);
            }
            return Err("messages left in the gossip channel after the behaviour ended".into());
        }
        if !s.inflight.is_empty() {
            return Err(format!("publish calls still pending after the behaviour ended: {:?}", s.inflight.keys().collect::<Vec<_>>()));
        }
    }
    Ok(())
}

fn replay(args: &Args) {
    let behaviours = read_ndjson(args.input.as_ref().expect("--in"));
    let mut out = Outcome::new(
        args,
        "every exported schedule of publish calls on up to 3 handles (one publisher and its clones) over a gossip channel of capacity \
         1/2 that is drained only where the schedule says so - first polls, parked sends, resumes - executed on the real \
         EphemeralStreamPublisher under the mock clock in 3 magnitudes, all with the SAME body; non-trivial = a publish drew its timestamp \
         while another one was parked in the send await; distinct by schedule x magnitude",
    );
    let env = Env::new();
    for b in &behaviours {
        if b["kind"] != "pub" {
            eprintln!("unknown behaviour kind: {b}");
            std::process::exit(2);
        }
        for &e in EMBEDDINGS {
            out.eval();
            let mut emitted = Vec::new();
            let mut overlap = false;
            let r = run_behaviour(&env, &mut out, b, e, &mut emitted, &mut overlap);
            // the property itself first, on whatever was handed to gossip
            let fine = judge_sequence(&mut out, &emitted, b);
            match r {
                Ok(()) if fine => out.sample(b.clone()),
                Ok(()) => {}
                Err(detail) if fine => out.violation("C16", "publisher-differs-from-spec", detail, b.clone()),
                Err(_) => {}
            }
            if overlap {
                out.mark_distinct(format!("{}|{e:?}", b["steps"]));
            }
        }
    }
    out.write(args);
}

const TLC_MAX: u64 = (i32::MAX - 2) as u64;

fn record(args: &Args) {
    let mut rng = Rng::new(args.seed);
    let n = if args.n > 0 { args.n } else { 100 };
    let mut trace = TraceWriter::create(args.out.as_ref().expect("--out"));
    let mut out = Outcome::new(
        args,
        "seeded random runs: up to 3 handles of one publisher publish the same body over a gossip channel of capacity 1/2/4 that the \
         harness drains at random, under a wall clock that jumps backwards, stands still, creeps and jumps forward (values <= 2^31-3); \
         parked calls are polled again only after their waker fired; one trace event per specification action",
    );
    let env = Env::new();
    let names = ["p1", "p2", "p3"];
    for run in 0..n {
        let gcap = *rng.pick(&[1usize, 1, 2, 4]);
        trace.event(json!({"ev": "Reset", "run": run, "cap": 1}));
        trace.event(json!({"ev": "PubReset", "gcap": gcap}));
        let base = rng.below(TLC_MAX - 200_000);
        let mut wall = base + 100_000;
        let mut s = env.create_stream(wall, gcap);
        trace.event(json!({"ev": "CreateStream", "w": wall}));
        let mut emitted: Vec<Published> = Vec::new();
        let publishes = rng.range(3, 12);
        let mut started = 0;
        let case = json!({"run": run, "seed": args.seed});
        let mut last_t = wall;
        let mut guard = 0;
        let mut failed = false;
        loop {
            guard += 1;
            if guard > 500 {
                break;
            }
            // executor: resume whatever was woken
            for h in s.woken() {
                out.eval();
                match s.resume(&h) {
                    Ok(true) => {
                        trace.event(json!({"ev": "SendResume", "h": h}));
                        trace.event(json!({"ev": "PubReturn", "h": h}));
                    }
                    Ok(false) => out.count("woken-but-still-pending"),
                    Err(e) => {
                        out.violation("C16", "publish-panics-or-fails", e, case.clone());
                        failed = true;
                    }
                }
            }
            if failed {
                break;
            }
            let idle: Vec<&str> = names.iter().copied().filter(|h| !s.inflight.contains_key(*h)).collect();
            let finishing = started >= publishes;
            if finishing && s.inflight.is_empty() {
                // take what is left out of the channel and stop
                match s.drain() {
                    Ok(Some((p, woke))) => {
                        trace.event(json!({"ev": "Drain", "ts": [p.ts.0, p.ts.1], "woke": woke}));
                        emitted.push(p);
                        continue;
                    }
                    Ok(None) => break,
                    Err(e) => {
                        out.violation("C16", "publish-panics-or-fails", e, case.clone());
                        break;
                    }
                }
            }
            let do_drain = finishing || idle.is_empty() || rng.chance(1, 3);
            if do_drain {
                match s.drain() {
                    Ok(Some((p, woke))) => {
                        last_t = last_t.max(p.ts.0);
                        trace.event(json!({"ev": "Drain", "ts": [p.ts.0, p.ts.1], "woke": woke}));
                        emitted.push(p);
                    }
                    Ok(None) => {}
                    Err(e) => {
                        out.violation("C16", "publish-panics-or-fails", e, case.clone());
                        break;
                    }
                }
                continue;
            }
            // a new publish on an idle handle, with the next clock reading
            match rng.below(20) {
                0..=3 => wall = wall.saturating_sub(rng.range(1, 50_000)).max(base),
                4..=8 => {}
                9..=10 => wall = last_t,
                11..=13 => wall = (wall + 1).min(TLC_MAX),
                14 => wall = *rng.pick(&[0, 1, TLC_MAX - 1, TLC_MAX]),
                _ => wall = (wall + rng.range(1, 5_000)).min(TLC_MAX),
            }
            let h = *rng.pick(&idle);
            if !s.inflight.is_empty() {
                out.count("draw-while-another-publish-is-in-flight");
            }
            out.eval();
            started += 1;
            match s.start(h, wall) {
                Ok(done) => {
                    out.mark_distinct(format!("{run}:{started}:{wall}"));
                    trace.event(json!({"ev": "DrawTs", "h": h, "w": wall}));
                    trace.event(json!({"ev": "SignEncode", "h": h}));
                    trace.event(json!({"ev": "SendTry", "h": h, "waits": !done}));
                    if done {
                        trace.event(json!({"ev": "PubReturn", "h": h}));
                    }
                }
                Err(e) => {
                    out.violation("C16", "publish-panics-or-fails", e, case.clone());
                    break;
                }
            }
        }
        judge_sequence(&mut out, &emitted, &case);
    }
    let (events, runs) = trace.finish();
    out.set_trace(events, runs);
    out.write(args);
}
