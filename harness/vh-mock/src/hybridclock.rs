//! HybridClock (C18): `HybridTimestamp::increment` under mock_instant's thread-local wall clock and
//! chains of self-published transport records through `UnsignedTransportInfo::increment_timestamp`
//! and `NodeInfo::update_transports`, against spec/HybridClock.
//!
//! This package is built with `p2panda-core/test_utils`, so `Timestamp::now()` reads
//! `mock_instant::thread_local::SystemTime`: every "wall-clock reading" of the specification is set
//! with `MockClock::set_system_time` right before the call that reads it (single thread).
use std::time::Duration;

use mock_instant::thread_local::MockClock;
use p2panda_core::SigningKey;
use p2panda_core::timestamp::{HybridTimestamp, LamportTimestamp, Timestamp};
use p2panda_net::iroh_endpoint::{EndpointAddr, RelayUrl};
use p2panda_net::utils::from_verifying_key;
use p2panda_net::addrs::{
    AuthenticatedTransportInfo, NodeInfo, TransportAddress, TransportInfo, UnsignedTransportInfo,
};
use vh_common::{Args, Outcome, Rng, TraceWriter, Value, catch, json, read_ndjson, unknown};

pub fn run(args: &Args) {
    match args.mode.as_str() {
        "replay" => replay(args),
        "record" => record(args),
        _ => unknown(args),
    }
}

/// Sub-microsecond part added to every mock clock reading. The specification's wall clock is in
/// microseconds (what `Timestamp` stores); the nanoseconds the OS clock reports on top of it must never
/// matter. `Fixed(n)` = always n ns, `Cycle(k)` = the next of 0, 1, 500, 999 ns on every reading.
#[derive(Clone, Copy)]
enum Nanos {
    Fixed(u32),
    Cycle(usize),
}
const NANO_OFFSETS: [u32; 4] = [0, 1, 500, 999];
thread_local! {
    static NANOS: std::cell::Cell<Nanos> = const { std::cell::Cell::new(Nanos::Fixed(0)) };
}

fn set_nanos(n: Nanos) {
    NANOS.with(|c| c.set(n));
}

fn set_wall(micros: u64) {
    let ns = NANOS.with(|c| match c.get() {
        Nanos::Fixed(n) => n,
        Nanos::Cycle(k) => {
            c.set(Nanos::Cycle(k + 1));
            NANO_OFFSETS[k % 4]
        }
    });
    MockClock::set_system_time(Duration::from_micros(micros) + Duration::from_nanos(ns as u64));
}

fn hts(t: u64, l: u64) -> HybridTimestamp {
    HybridTimestamp::from_parts(Timestamp::new(t), LamportTimestamp::new(l))
}

/// (wall part, logical part) — the logical part has no public getter, `Display` prints it.
fn parts(ts: &HybridTimestamp) -> (u64, u64) {
    let (t, l) = ts.to_parts();
    (t.into(), l.to_string().parse().expect("lamport display is a number"))
}

fn pair(v: &Value) -> (u64, u64) {
    (v[0].as_u64().expect("t"), v[1].as_u64().expect("l"))
}

/// The call under test: `ts.increment()` while the wall clock reads `wall`.
fn increment_at(ts: (u64, u64), wall: u64) -> Result<(u64, u64), String> {
    set_wall(wall);
    catch(|| parts(&hts(ts.0, ts.1).increment()))
}

/// Order-preserving embeddings of the model's small naturals into microsecond magnitudes the code
/// meets in production: (offset, scale).
const EMBEDDINGS: &[(u64, u64)] = &[
    (0, 1),
    (1_700_000_000_000_000, 1),
    (1_700_000_000_000_000, 1_000_000),
    (u64::MAX / 4, 3_600_000_000),
];

fn embed(x: u64, e: (u64, u64)) -> u64 {
    e.0 + x * e.1
}

fn check_inc(out: &mut Outcome, b: &Value) {
    let ts = pair(&b["ts"]);
    let wall = b["wall"].as_u64().expect("wall");
    let exp = pair(&b["out"]);
    for (&e, &ns) in EMBEDDINGS.iter().flat_map(|e| NANO_OFFSETS.iter().map(move |n| (e, n))) {
        out.eval();
        set_nanos(Nanos::Fixed(ns));
        out.count(&format!("clock+{ns}ns"));
        let ts_e = (embed(ts.0, e), ts.1);
        let exp_e = (embed(exp.0, e), exp.1);
        match increment_at(ts_e, embed(wall, e)) {
            Ok(got) => {
                let class = if wall < ts.0 {
                    "wall-earlier"
                } else if wall == ts.0 {
                    "wall-equal"
                } else {
                    "wall-later"
                };
                out.count(class);
                out.mark_distinct(format!("{}|{}|{:?}|{ns}", b["ts"], wall, e));
                if hts(got.0, got.1) <= hts(ts_e.0, ts_e.1) {
                    out.violation(
                        "C18",
                        "increment-not-greater",
                        format!(
                            "increment of {ts_e:?} with the wall clock at {} returned {got:?}, which is not greater",
                            embed(wall, e)
                        ),
                        b.clone(),
                    );
                } else if got != exp_e {
                    out.violation(
                        "C18",
                        "increment-differs-from-spec",
                        format!(
                            "increment of {ts_e:?} with the wall clock at {} returned {got:?}, spec says {exp_e:?}",
                            embed(wall, e)
                        ),
                        b.clone(),
                    );
                } else {
                    out.sample(b.clone());
                }
            }
            Err(p) => out.violation("C18", "increment-panics", p, b.clone()),
        }
    }
}

// ------------------------------------------------------------------------------------------------
// chains of self-published transport records

struct Chain {
    key: SigningKey,
    own: NodeInfo,
    obs: NodeInfo,
    published: Vec<AuthenticatedTransportInfo>,
    /// mirror every insert into two REAL address books (actor + SQLite store) and require agreement
    books: bool,
}

/// Two real `AddressBook`s (the node's own and a remote observer's), shared by all chains: every
/// chain uses a fresh node id. `insert_transport_info` runs address_book/actor.rs:213-240, which is
/// where `update_transports` is called in production.
struct Books {
    rt: tokio::runtime::Runtime,
    own: p2panda_net::AddressBook,
    obs: p2panda_net::AddressBook,
}

thread_local! {
    static BOOKS: Books = {
        let rt = tokio::runtime::Builder::new_current_thread().enable_all().build().expect("runtime");
        let (own, obs) = rt.block_on(async {
            (
                p2panda_net::AddressBook::builder().spawn().await.expect("address book"),
                p2panda_net::AddressBook::builder().spawn().await.expect("address book"),
            )
        });
        Books { rt, own, obs }
    };
    static CHAINS: std::cell::Cell<u64> = const { std::cell::Cell::new(0) };
}

fn address(key: &SigningKey, a: &str) -> TransportAddress {
    // one distinct home relay per abstract address-set id (`TransportAddress::from_iroh` is
    // test_utils-only in p2panda-net; this is what it does)
    let url: RelayUrl = format!("https://{a}.relay.example").parse().expect("relay url");
    TransportAddress::Iroh(EndpointAddr::new(from_verifying_key(key.verifying_key())).with_relay_url(url))
}

fn entry_ts(info: &NodeInfo) -> Option<(u64, u64)> {
    match &info.transports {
        Some(TransportInfo::Authenticated(t)) => Some(parts(&t.timestamp)),
        Some(TransportInfo::Trusted(t)) => Some(parts(&t.timestamp)),
        None => None,
    }
}

fn authenticated(info: &NodeInfo) -> Option<AuthenticatedTransportInfo> {
    match &info.transports {
        Some(TransportInfo::Authenticated(t)) => Some(t.clone()),
        _ => None,
    }
}

enum Published {
    /// same addresses as the previous record: dropped (discovery.rs:95-99)
    Unchanged,
    /// (timestamp of the built record, update_transports verdict on the own book)
    Inserted((u64, u64), bool),
}

impl Chain {
    fn new(books: bool) -> Chain {
        let n = CHAINS.with(|c| {
            c.set(c.get() + 1);
            c.get()
        });
        let mut seed = [7u8; 32];
        seed[..8].copy_from_slice(&n.to_be_bytes());
        let key = SigningKey::from_bytes(&seed);
        let id = key.verifying_key();
        Chain { key, own: NodeInfo::new(id), obs: NodeInfo::new(id), published: vec![], books }
    }

    /// The steps of `AddressBookDiscovery::publish` (iroh_endpoint/discovery.rs:71-108) on the real
    /// types, with the wall clock reading `w1` while the record is created and `w2` while the
    /// previous timestamp is incremented.
    fn publish(&mut self, w1: u64, w2: u64, a: &str) -> Result<Published, String> {
        let previous = authenticated(&self.own);
        if self.books {
            // discovery.rs:71-75: the previous record is read from the address book
            use p2panda_store::address_book::NodeInfo as _;
            let id = self.key.verifying_key();
            let from_book = BOOKS
                .with(|b| b.rt.block_on(b.own.node_info(id)))
                .map_err(|e| format!("address-book: node_info failed: {e}"))?
                .and_then(|info| info.transports());
            if from_book != previous {
                return Err(format!("address-book: own address book holds {from_book:?}, NodeInfo holds {previous:?}"));
            }
        }
        let addr = address(&self.key, a);
        let key = self.key.clone();
        let built = catch(|| {
            set_wall(w1);
            let unsigned = UnsignedTransportInfo::from_addrs([addr]);
            set_wall(w2);
            unsigned.increment_timestamp(previous.as_ref()).sign(&key)
        })?;
        let info = built.map_err(|e| format!("sign failed: {e}"))?;
        if let Some(previous) = &previous
            && info.addresses == previous.addresses
        {
            return Ok(Published::Unchanged);
        }
        let ts = parts(&info.timestamp);
        let newer = self
            .own
            .update_transports(info.clone().into())
            .map_err(|e| format!("update_transports on own record failed: {e}"))?;
        if self.books {
            let id = self.key.verifying_key();
            let by_book = BOOKS
                .with(|b| b.rt.block_on(b.own.insert_transport_info(id, info.clone().into())))
                .map_err(|e| format!("address-book: insert_transport_info failed: {e}"))?;
            if by_book != newer {
                return Err(format!("address-book: own address book answered is_newer={by_book}, update_transports {newer}"));
            }
        }
        self.published.push(info);
        Ok(Published::Inserted(ts, newer))
    }

    /// A remote address book inserts the k-th (1-based) published record.
    fn deliver(&mut self, k: usize) -> Result<bool, String> {
        let info = self.published[k - 1].clone();
        let newer = self
            .obs
            .update_transports(info.clone().into())
            .map_err(|e| format!("update_transports on delivered record failed: {e}"))?;
        if self.books {
            let id = self.key.verifying_key();
            let (by_book, held) = BOOKS.with(|b| {
                b.rt.block_on(async { (b.obs.insert_transport_info(id, info.into()).await, b.obs.node_info(id).await) })
            });
            let by_book = by_book.map_err(|e| format!("address-book: insert_transport_info failed: {e}"))?;
            let held = held.map_err(|e| format!("address-book: node_info failed: {e}"))?.as_ref().and_then(entry_ts);
            if by_book != newer || held != entry_ts(&self.obs) {
                return Err(format!(
                    "address-book: observer address book answered is_newer={by_book} and holds {held:?}, update_transports {newer} / {:?}",
                    entry_ts(&self.obs)
                ));
            }
        }
        Ok(newer)
    }
}

fn check_chain(out: &mut Outcome, b: &Value) {
    out.eval();
    // every clock reading of the chain gets the next sub-microsecond offset, starting at another one per chain
    set_nanos(Nanos::Cycle(out.evaluations as usize));
    let mut chain = Chain::new(out.evaluations <= 3000);
    let mut nontrivial = false;
    for (idx, step) in b["steps"].as_array().expect("steps").iter().enumerate() {
        let ev = step["ev"].as_str().expect("ev");
        match ev {
            "PublishFirst" | "PublishNext" | "PublishUnchanged" => {
                let w1 = step["w1"].as_u64().unwrap();
                let w2 = step["w2"].as_u64().unwrap();
                let a = step["addr"].as_str().unwrap();
                let before = entry_ts(&chain.own);
                if let Some(prev) = before {
                    if w2 <= prev.0 {
                        nontrivial = true; // wall clock stood still or went backwards
                        out.count(if w2 < prev.0 { "publish-wall-earlier" } else { "publish-wall-equal" });
                    } else {
                        out.count("publish-wall-later");
                    }
                }
                match chain.publish(w1, w2, a) {
                    Err(p) => {
                        let sig = if p.starts_with("address-book:") { "address-book-differs-from-update-transports" } else { "publish-panics-or-fails" };
                        out.violation("C18", sig, p, b.clone());
                        return;
                    }
                    Ok(Published::Unchanged) => {
                        if ev != "PublishUnchanged" {
                            out.violation(
                                "C18",
                                "chain-differs-from-spec",
                                format!("step {idx}: implementation dropped the record as unchanged, spec says {ev}"),
                                b.clone(),
                            );
                            return;
                        }
                    }
                    Ok(Published::Inserted(ts, newer)) => {
                        if !newer || before.is_some_and(|p| hts(ts.0, ts.1) <= hts(p.0, p.1)) {
                            out.violation(
                                "C18",
                                "own-record-not-accepted-as-newer",
                                format!(
                                    "step {idx}: self-published record with timestamp {ts:?} (wall clock {w1} / {w2}) \
                                     after previous {before:?}: update_transports returned is_newer={newer}"
                                ),
                                b.clone(),
                            );
                            return;
                        }
                        let exp = pair(&step["ts"]);
                        if ev == "PublishUnchanged" || ts != exp || newer != step["accepted"].as_bool().unwrap() {
                            out.violation(
                                "C18",
                                "chain-differs-from-spec",
                                format!("step {idx}: implementation published {ts:?} newer={newer}, spec says {step}"),
                                b.clone(),
                            );
                            return;
                        }
                    }
                }
            }
            "Deliver" => {
                let k = step["k"].as_u64().unwrap() as usize;
                if k < chain.published.len() && chain.obs.transports.is_some() {
                    nontrivial = true; // out-of-order / duplicate delivery
                }
                match catch(|| chain.deliver(k)) {
                    Ok(Ok(newer)) => {
                        let got = entry_ts(&chain.obs);
                        let exp = Some(pair(&step["obs"]));
                        if got != exp || newer != step["newer"].as_bool().unwrap() {
                            // the observer's "newer wins" verdict is the second sentence of C18
                            out.violation(
                                "C18",
                                "observer-differs-from-spec",
                                format!("step {idx}: observer holds {got:?} newer={newer}, spec says {step}"),
                                b.clone(),
                            );
                            return;
                        }
                    }
                    Ok(Err(e)) | Err(e) => {
                        out.violation("C18", "deliver-panics-or-fails", e, b.clone());
                        return;
                    }
                }
            }
            _ => {
                eprintln!("unknown step: {step}");
                std::process::exit(2);
            }
        }
    }
    if nontrivial {
        out.mark_distinct(b["steps"].to_string());
    }
    out.sample(b.clone());
}

fn replay(args: &Args) {
    let behaviours = read_ndjson(args.input.as_ref().expect("--in"));
    let mut out = Outcome::new(
        args,
        "every TLC-enumerated (timestamp, wall reading) pair executed on the real HybridTimestamp::increment under the mock \
         clock in 4 order-preserving magnitudes (distinct by input x magnitude); every exported publish/deliver chain executed on \
         the real UnsignedTransportInfo / NodeInfo::update_transports (non-trivial = contains a publish with the wall clock not \
         ahead of the previous record, or an out-of-order/duplicate delivery)",
    );
    for b in &behaviours {
        match b["kind"].as_str() {
            Some("inc") => check_inc(&mut out, b),
            Some("chain") => check_chain(&mut out, b),
            _ => {
                eprintln!("unknown behaviour kind: {b}");
                std::process::exit(2);
            }
        }
    }
    out.write(args);
}

// ------------------------------------------------------------------------------------------------

/// Largest value TLC's 32-bit integers can carry (minus room for +1).
const TLC_MAX: u64 = (i32::MAX - 2) as u64;

fn near(rng: &mut Rng, x: u64, max: u64) -> u64 {
    match rng.below(7) {
        0 => x,
        1 => x.saturating_sub(1),
        2 => x.saturating_add(1).min(max),
        3 => x.saturating_sub(rng.below(1000)),
        4 => x.saturating_add(rng.below(1000)).min(max),
        5 => if max == u64::MAX { rng.next_u64() } else { rng.below(max + 1) },
        _ => *rng.pick(&[0, 1, max - 1, max]),
    }
}

/// Seeded random increments / chains on the real code, recorded for Trace_HybridClock; plus
/// full-range u64 increments judged directly (not representable in TLC).
fn record(args: &Args) {
    let mut rng = Rng::new(args.seed);
    let n = if args.n > 0 { args.n } else { 100 };
    let mut trace = TraceWriter::create(args.out.as_ref().expect("--out"));
    let mut out = Outcome::new(
        args,
        "seeded random (timestamp, wall) pairs around each other (earlier / equal / later, extremes) through the real increment, \
         random publish/deliver chains with a wall clock that jumps backwards, stands still and advances; one trace event per \
         call; plus full-range u64 pairs judged by `out > ts` only",
    );
    for run in 0..n {
        set_nanos(Nanos::Cycle(run));
        trace.event(json!({"ev": "Reset", "run": run}));
        // single increments
        for _ in 0..8 {
            let t0 = rng.below(TLC_MAX);
            let t = near(&mut rng, t0, TLC_MAX);
            let l = *rng.pick(&[0, 0, 1, 2, 7, 1000, TLC_MAX - 1]);
            let wall = near(&mut rng, t, TLC_MAX);
            out.eval();
            match increment_at((t, l), wall) {
                Ok(got) => {
                    out.mark_distinct(format!("inc:{t}:{l}:{wall}"));
                    out.count(if wall < t { "wall-earlier" } else if wall == t { "wall-equal" } else { "wall-later" });
                    if hts(got.0, got.1) <= hts(t, l) {
                        out.violation(
                            "C18",
                            "increment-not-greater",
                            format!("increment of {:?} with the wall clock at {wall} returned {got:?}, which is not greater", (t, l)),
                            json!({"kind": "inc", "ts": [t, l], "wall": wall, "out": [got.0, got.1]}),
                        );
                    }
                    let ev = json!({"ev": "Inc", "ts": [t, l], "wall": wall, "out": [got.0, got.1]});
                    out.sample(ev.clone());
                    trace.event(ev);
                }
                Err(p) => out.violation("C18", "increment-panics", p, json!({"kind": "inc", "ts": [t, l], "wall": wall})),
            }
        }
        // full u64 range (logical part below u64::MAX: its successor does not exist)
        for _ in 0..8 {
            let t0 = rng.next_u64();
            let t = near(&mut rng, t0, u64::MAX);
            let l = *rng.pick(&[0, 1, u64::MAX / 2, u64::MAX - 1]);
            let wall = near(&mut rng, t, u64::MAX);
            out.eval();
            match increment_at((t, l), wall) {
                Ok(got) => {
                    out.count("u64-range");
                    if hts(got.0, got.1) <= hts(t, l) {
                        out.violation(
                            "C18",
                            "increment-not-greater",
                            format!("increment of {:?} with the wall clock at {wall} returned {got:?}, which is not greater", (t, l)),
                            json!({"kind": "inc-u64", "ts": [t.to_string(), l.to_string()], "wall": wall.to_string()}),
                        );
                    }
                }
                Err(p) => out.violation(
                    "C18",
                    "increment-panics",
                    p,
                    json!({"kind": "inc-u64", "ts": [t.to_string(), l.to_string()], "wall": wall.to_string()}),
                ),
            }
        }
        // one chain
        let mut chain = Chain::new(run < 300);
        let base = rng.below(TLC_MAX - 100_000);
        let mut wall = base + 50_000;
        let steps = rng.range(4, 14);
        let addrs = ["x", "y", "z"];
        for _ in 0..steps {
            if chain.published.is_empty() || rng.chance(2, 3) {
                // clock readings: jump back, stand still, creep or jump forward
                let prev_t = entry_ts(&chain.own).map(|p| p.0);
                let reading = |rng: &mut Rng, wall: &mut u64| {
                    match rng.below(7) {
                        0 => *wall = wall.saturating_sub(rng.range(1, 20_000)).max(base),
                        1 => {}
                        2 => *wall = prev_t.unwrap_or(*wall), // exactly the previous record's time
                        3 => *wall += 1,
                        _ => *wall += rng.range(1, 5_000),
                    }
                    *wall
                };
                let w1 = reading(&mut rng, &mut wall);
                let w2 = reading(&mut rng, &mut wall);
                let a = *rng.pick(&addrs);
                let first = chain.own.transports.is_none();
                let before = entry_ts(&chain.own);
                out.eval();
                match chain.publish(w1, w2, a) {
                    Ok(Published::Unchanged) => {
                        trace.event(json!({"ev": "PublishUnchanged", "w1": w1, "w2": w2, "addr": a}));
                    }
                    Ok(Published::Inserted(ts, newer)) => {
                        out.mark_distinct(format!("pub:{run}:{w1}:{w2}:{a}"));
                        if let Some(p) = before {
                            out.count(if w2 < p.0 { "publish-wall-earlier" } else if w2 == p.0 { "publish-wall-equal" } else { "publish-wall-later" });
                        }
                        if !newer {
                            out.violation(
                                "C18",
                                "own-record-not-accepted-as-newer",
                                format!("self-published record {ts:?} (wall {w1}/{w2}) after {before:?} was not accepted as newer"),
                                json!({"run": run, "w1": w1, "w2": w2, "before": before, "ts": ts}),
                            );
                        }
                        let own = entry_ts(&chain.own).unwrap();
                        if first {
                            trace.event(json!({"ev": "PublishFirst", "w1": w1, "addr": a, "ts": [ts.0, ts.1], "accepted": newer}));
                        } else {
                            trace.event(json!({"ev": "PublishNext", "w1": w1, "w2": w2, "addr": a, "ts": [ts.0, ts.1],
                                               "accepted": newer, "own": [own.0, own.1]}));
                        }
                    }
                    Err(p) => {
                        out.violation("C18", "publish-panics-or-fails", p, json!({"run": run, "w1": w1, "w2": w2}));
                        break;
                    }
                }
            } else {
                let k = rng.range(1, chain.published.len() as u64) as usize;
                out.eval();
                match catch(|| chain.deliver(k)) {
                    Ok(Ok(newer)) => {
                        let o = entry_ts(&chain.obs).unwrap();
                        trace.event(json!({"ev": "Deliver", "k": k, "newer": newer, "obs": [o.0, o.1]}));
                    }
                    Ok(Err(e)) | Err(e) => {
                        out.violation("C18", "deliver-panics-or-fails", e, json!({"run": run, "k": k}));
                        break;
                    }
                }
            }
        }
    }
    let (events, runs) = trace.finish();
    out.set_trace(events, runs);
    out.write(args);
}
