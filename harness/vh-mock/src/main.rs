//! Conformance harness binary `vh-mock`: one module per TLA+ specification (see /verif/spec).
mod hybridclock;
mod ephemeralclock;

fn main() {
    let args = vh_common::Args::parse();
    vh_common::quiet_panics();
    match args.module.as_str() {
        "hybridclock" => hybridclock::run(&args),
        "ephemeralclock" => ephemeralclock::run(&args),
        _ => vh_common::unknown(&args),
    }
}
