//! StateVector (C06, C07 first half): `p2panda_core::logs::compare` and `Cursor::advance`
//! against spec/StateVector.
use std::collections::BTreeMap;

use p2panda_core::Cursor;
use p2panda_core::logs::{LogHeights, LogRanges, compare};
use serde::{Deserialize, Serialize};
use vh_common::{Args, Outcome, Rng, TraceWriter, Value, catch, json, read_ndjson, unknown};

#[derive(Clone, Debug, PartialEq, Eq, PartialOrd, Ord, Hash, Serialize, Deserialize)]
struct A(String);
impl p2panda_core::identity::Author for A {}

type Heights = LogHeights<A, String>;
type Ranges = LogRanges<A, String>;

pub fn run(args: &Args) {
    match args.mode.as_str() {
        "replay" => replay(args),
        "record" => record(args),
        _ => unknown(args),
    }
}

/// `[{"a":..,"logs":[{"l":..,"h":..}]}]` (TLC export shape) -> nested map.
fn map_from_tlc(v: &Value) -> Heights {
    let mut m = Heights::new();
    for entry in v.as_array().expect("map array") {
        let a = A(entry["a"].as_str().expect("a").to_string());
        let logs = m.entry(a).or_default();
        for log in entry["logs"].as_array().expect("logs") {
            logs.insert(
                log["l"].as_str().expect("l").to_string(),
                log["h"].as_u64().expect("h") as u32,
            );
        }
    }
    m
}

/// Flattened diff: (author, log) -> (from or -1, until or -1).
fn flat_ranges(r: &Ranges) -> BTreeMap<(String, String), (i64, i64)> {
    let mut out = BTreeMap::new();
    for (a, logs) in r {
        for (l, (from, until)) in logs {
            out.insert(
                (a.0.clone(), l.clone()),
                (
                    from.map(|x| x as i64).unwrap_or(-1),
                    until.map(|x| x as i64).unwrap_or(-1),
                ),
            );
        }
    }
    out
}

fn flat_diff_from_tlc(v: &Value) -> BTreeMap<(String, String), (i64, i64)> {
    let mut out = BTreeMap::new();
    for entry in v.as_array().expect("diff array") {
        let a = entry["a"].as_str().expect("a").to_string();
        for log in entry["logs"].as_array().expect("logs") {
            out.insert(
                (a.clone(), log["l"].as_str().expect("l").to_string()),
                (log["from"].as_i64().expect("from"), log["until"].as_i64().expect("until")),
            );
        }
    }
    out
}

fn flat_heights(m: &Heights) -> BTreeMap<(String, String), u32> {
    let mut out = BTreeMap::new();
    for (a, logs) in m {
        for (l, h) in logs {
            out.insert((a.0.clone(), l.clone()), *h);
        }
    }
    out
}

fn heights_json(m: &Heights) -> Value {
    let mut o = serde_json::Map::new();
    for (a, logs) in m {
        let mut lo = serde_json::Map::new();
        for (l, h) in logs {
            lo.insert(l.clone(), json!(h));
        }
        o.insert(a.0.clone(), Value::Object(lo));
    }
    Value::Object(o)
}

fn ranges_json(r: &Ranges) -> Value {
    let mut o = serde_json::Map::new();
    for (a, logs) in r {
        let mut lo = serde_json::Map::new();
        for (l, (from, until)) in logs {
            lo.insert(
                l.clone(),
                json!([from.map(|x| x as i64).unwrap_or(-1), until.map(|x| x as i64).unwrap_or(-1)]),
            );
        }
        o.insert(a.0.clone(), Value::Object(lo));
    }
    Value::Object(o)
}

fn replay(args: &Args) {
    let behaviours = read_ndjson(args.input.as_ref().expect("--in"));
    let mut out = Outcome::new(
        args,
        "every TLC-enumerated (local, remote) pair / advance sequence executed on the real compare / Cursor; \
         non-trivial = non-empty diff (compare) or a sequence containing a lower-or-equal re-advance (cursor); distinct by input",
    );
    for b in &behaviours {
        out.eval();
        match b["kind"].as_str() {
            Some("compare") => {
                let local = map_from_tlc(&b["local"]);
                let remote = map_from_tlc(&b["remote"]);
                let expected = flat_diff_from_tlc(&b["diff"]);
                match catch(|| compare(&local, &remote)) {
                    Ok(got) => {
                        let got = flat_ranges(&got);
                        if !expected.is_empty() {
                            out.mark_distinct(format!("{}|{}", b["local"], b["remote"]));
                        }
                        if got != expected {
                            out.violation(
                                "C06",
                                "compare-differs-from-spec",
                                format!("compare returned {got:?}, spec says {expected:?}"),
                                b.clone(),
                            );
                        } else {
                            out.sample(b.clone());
                        }
                    }
                    Err(p) => out.violation("C06", "compare-panics", p, b.clone()),
                }
            }
            Some("cursor") => {
                let mut cursor = Cursor::<A, String>::new("t", Heights::new());
                let mut nontrivial = false;
                for (k, step) in b["steps"].as_array().expect("steps").iter().enumerate() {
                    let a = A(step["a"].as_str().unwrap().to_string());
                    let l = step["l"].as_str().unwrap().to_string();
                    let h = step["h"].as_u64().unwrap() as u32;
                    if cursor.log_height(&a, &l).is_some_and(|cur| *cur >= h) {
                        nontrivial = true;
                    }
                    let before = flat_heights(cursor.state());
                    if let Err(p) = catch(|| cursor.advance(a, l, h)) {
                        out.violation("C07", "advance-panics", p, b.clone());
                        break;
                    }
                    let got = flat_heights(cursor.state());
                    let expected = flat_heights(&map_from_tlc(&step["after"]));
                    if got != expected {
                        let sig = if before.iter().any(|(k, v)| got.get(k).is_none_or(|g| g < v)) {
                            "cursor-moved-backwards"
                        } else {
                            "cursor-differs-from-spec"
                        };
                        out.violation(
                            "C07",
                            sig,
                            format!("after step {k}: cursor {got:?}, spec says {expected:?}"),
                            b.clone(),
                        );
                        break;
                    }
                }
                if nontrivial {
                    out.mark_distinct(b["steps"].to_string());
                }
                out.sample(b.clone());
            }
            _ => {
                eprintln!("unknown behaviour kind: {b}");
                std::process::exit(2);
            }
        }
    }
    out.write(args);
}

fn random_heights(rng: &mut Rng, authors: u64, logs: u64) -> Heights {
    let mut m = Heights::new();
    for a in 0..authors {
        if rng.chance(1, 4) {
            continue;
        }
        let entry = m.entry(A(format!("a{a}"))).or_default();
        for l in 0..logs {
            if rng.chance(1, 3) {
                continue;
            }
            // Heights incl. 0 and the largest value TLC's 32-bit integers can carry.
            let h = match rng.below(6) {
                0 => 0,
                1 => i32::MAX as u32,
                2 => rng.below(4) as u32,
                _ => rng.below(1_000_000) as u32,
            };
            entry.insert(format!("l{l}"), h);
        }
    }
    m
}

/// Random large maps / advance sequences on the real code, recorded for Trace_StateVector.
fn record(args: &Args) {
    let mut rng = Rng::new(args.seed);
    let n = if args.n > 0 { args.n } else { 200 };
    let mut trace = TraceWriter::create(args.out.as_ref().expect("--out"));
    let mut out = Outcome::new(
        args,
        "seeded random height maps (<= 20 authors x 5 logs, heights incl. 0 and i32::MAX) through the real compare, \
         and random advance sequences through the real Cursor; one trace event per call",
    );
    for run in 0..n {
        trace.event(json!({"ev": "Reset", "run": run}));
        let authors = rng.range(1, 20);
        let logs = rng.range(1, 5);
        // compare calls
        for _ in 0..3 {
            let local = random_heights(&mut rng, authors, logs);
            let mut remote = random_heights(&mut rng, authors, logs);
            // make overlap likely: copy some of local into remote, perturbed
            for (a, ls) in &local {
                if rng.chance(1, 2) {
                    let e = remote.entry(a.clone()).or_default();
                    for (l, h) in ls {
                        match rng.below(4) {
                            0 => {
                                e.insert(l.clone(), *h);
                            }
                            1 => {
                                e.insert(l.clone(), h.saturating_sub(rng.below(3) as u32));
                            }
                            2 => {
                                e.insert(l.clone(), h.saturating_add(rng.below(3) as u32).min(i32::MAX as u32));
                            }
                            _ => {}
                        }
                    }
                }
            }
            out.eval();
            match catch(|| compare(&local, &remote)) {
                Ok(diff) => {
                    if !diff.is_empty() {
                        out.mark_distinct(format!("{}|{}", heights_json(&local), heights_json(&remote)));
                    }
                    let ev = json!({"ev": "Compare", "local": heights_json(&local), "remote": heights_json(&remote), "diff": ranges_json(&diff)});
                    out.sample(ev.clone());
                    trace.event(ev);
                }
                Err(p) => out.violation(
                    "C06",
                    "compare-panics",
                    p,
                    json!({"local": heights_json(&local), "remote": heights_json(&remote)}),
                ),
            }
        }
        // cursor advances
        let mut cursor = Cursor::<A, String>::new("t", Heights::new());
        let steps = rng.range(5, 40);
        for _ in 0..steps {
            let a = A(format!("a{}", rng.below(authors.min(4))));
            let l = format!("l{}", rng.below(logs.min(3)));
            let h = rng.below(12) as u32;
            out.eval();
            if let Err(p) = catch(|| cursor.advance(a.clone(), l.clone(), h)) {
                out.violation("C07", "advance-panics", p, json!({"a": a.0, "l": l, "h": h}));
                break;
            }
            out.mark_distinct(format!("adv{run}:{}:{}:{}", a.0, l, h));
            trace.event(json!({"ev": "Advance", "a": a.0, "l": l, "h": h, "after": heights_json(cursor.state())}));
        }
    }
    let (events, runs) = trace.finish();
    out.set_trace(events, runs);
    out.write(args);
}
