//! Conformance harness for the core / store / stream specifications.
mod statevector;

fn main() {
    let args = vh_common::Args::parse();
    vh_common::quiet_panics();
    match args.module.as_str() {
        "statevector" => statevector::run(&args),
        _ => vh_common::unknown(&args),
    }
}
