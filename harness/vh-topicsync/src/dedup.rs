//! Dedup (C24): the real `p2panda_sync::DeduplicationBuffer<Hash>` against spec/Dedup.
//!
//! replay: every insertion sequence exported by TLC (`gen.cfg`) is executed on a fresh buffer of the
//!         given capacity; after every call the result, the exact content (asked through
//!         `contains` for every item of the alphabet) and the sizes of the two internal
//!         collections (cfg hook `verif_sizes`) are compared with the state TLC computed.
//! record: seeded random long call sequences (capacities 1..=16, alphabets <= 20 items) on the
//!         real buffer, one trace event per call, validated by TLC against Trace_Dedup.tla.
use std::collections::BTreeSet;

use p2panda_core::Hash;
use p2panda_sync::DeduplicationBuffer;
use vh_common::{Args, Outcome, Rng, TraceWriter, Value, catch, json, read_ndjson, unknown};

pub fn run(args: &Args) {
    match args.mode.as_str() {
        "replay" => replay(args),
        "record" => record(args),
        _ => unknown(args),
    }
}

fn item(name: &str) -> Hash {
    Hash::digest(name.as_bytes())
}

/// The items of `alphabet` the buffer currently reports as contained.
fn content(buf: &DeduplicationBuffer<Hash>, alphabet: &[String]) -> BTreeSet<String> {
    alphabet.iter().filter(|x| buf.contains(&item(x))).cloned().collect()
}

fn str_set(v: &Value) -> BTreeSet<String> {
    v.as_array()
        .expect("array")
        .iter()
        .map(|x| x.as_str().expect("string").to_string())
        .collect()
}

fn replay(args: &Args) {
    let behaviours = read_ndjson(args.input.as_ref().expect("--in"));
    let mut out = Outcome::new(
        args,
        "every TLC-enumerated insertion sequence executed on a fresh real DeduplicationBuffer<Hash>; result, exact content \
         (contains() over the alphabet) and ring/set sizes compared after every call; non-trivial = the sequence contains \
         a duplicate report or an eviction; distinct by (capacity, sequence)",
    );
    // alphabet of the whole input file: contains() is asked for every item ever mentioned
    let mut alphabet: BTreeSet<String> = BTreeSet::new();
    for b in &behaviours {
        for s in b["steps"].as_array().expect("steps") {
            alphabet.insert(s["x"].as_str().expect("x").to_string());
        }
    }
    let alphabet: Vec<String> = alphabet.into_iter().collect();

    for b in &behaviours {
        out.eval();
        let cap = b["cap"].as_u64().expect("cap") as usize;
        let steps = b["steps"].as_array().expect("steps");
        let mut nontrivial = false;
        let verdict = catch(|| {
            let mut buf = DeduplicationBuffer::<Hash>::new(cap);
            for (k, s) in steps.iter().enumerate() {
                let x = s["x"].as_str().expect("x");
                let want_res = s["res"].as_str().expect("res") == "true";
                let got_res = match s["op"].as_str().expect("op") {
                    "insert" => buf.insert(item(x)),
                    "contains" => buf.contains(&item(x)),
                    other => panic!("unknown op {other}"),
                };
                if got_res != want_res {
                    return Some((
                        "duplicate-report-differs-from-spec",
                        format!("call {k} {}({x}) returned {got_res}, spec says {want_res}", s["op"]),
                    ));
                }
                let (len, setlen, _ring_cap) = buf.verif_sizes();
                if len > cap || setlen > cap {
                    return Some((
                        "holds-more-than-capacity",
                        format!("after call {k}: ring holds {len}, set holds {setlen}, capacity {cap}"),
                    ));
                }
                let want_has = str_set(&s["has"]);
                let got_has = content(&buf, &alphabet);
                if got_has != want_has {
                    return Some((
                        "content-differs-from-spec",
                        format!("after call {k} {}({x}): buffer remembers {got_has:?}, spec says {want_has:?}", s["op"]),
                    ));
                }
                if len as u64 != s["len"].as_u64().expect("len") || setlen as u64 != s["setlen"].as_u64().expect("setlen") {
                    return Some((
                        "sizes-differ-from-spec",
                        format!("after call {k}: ring {len} / set {setlen}, spec says {} / {}", s["len"], s["setlen"]),
                    ));
                }
            }
            None
        });
        for s in steps {
            if s["op"] == "insert" && s["res"] == "false" {
                nontrivial = true;
            }
        }
        if steps.iter().filter(|s| s["op"] == "insert" && s["res"] == "true").count() > cap {
            nontrivial = true;
        }
        if nontrivial {
            out.mark_distinct(format!("{cap}|{}", steps.iter().map(|s| format!("{}{}", &s["op"].as_str().unwrap()[..1], s["x"].as_str().unwrap())).collect::<Vec<_>>().join(",")));
        }
        match verdict {
            Ok(None) => out.sample(b.clone()),
            Ok(Some((sig, detail))) => out.violation("C24", sig, detail, b.clone()),
            Err(p) => out.violation("C24", "dedup-panics", p, b.clone()),
        }
    }
    out.write(args);
}

fn record(args: &Args) {
    let mut rng = Rng::new(args.seed);
    let n = if args.n > 0 { args.n } else { 100 };
    let mut trace = TraceWriter::create(args.out.as_ref().expect("--out"));
    let mut out = Outcome::new(
        args,
        "seeded random call sequences (capacity 1..=16, alphabet capacity..=20 items, 20..=200 calls, 80% insert / 20% contains) \
         on the real DeduplicationBuffer<Hash>; one event per call with result, content and sizes; distinct by (run, call)",
    );
    'runs: for run in 0..n {
        let cap = match rng.below(4) {
            0 => 1,
            1 => rng.range(2, 4),
            _ => rng.range(1, 16),
        } as usize;
        // alphabets just above the capacity produce the interesting mix of duplicates and evictions
        let alpha_n = (cap as u64 + rng.range(0, 6)).clamp(2, 20);
        let alphabet: Vec<String> = (0..alpha_n).map(|k| format!("i{k}")).collect();
        let calls = rng.range(20, 200);
        trace.event(json!({"ev": "Reset", "run": run, "cap": cap}));
        let mut buf = match catch(|| DeduplicationBuffer::<Hash>::new(cap)) {
            Ok(b) => b,
            Err(p) => {
                out.violation("C24", "dedup-panics", p, json!({"cap": cap}));
                continue;
            }
        };
        let mut script = Vec::new();
        for call in 0..calls {
            let x = rng.pick(&alphabet).clone();
            let insert = rng.chance(4, 5);
            script.push(json!([if insert { "insert" } else { "contains" }, x]));
            out.eval();
            let r = catch(|| if insert { buf.insert(item(&x)) } else { buf.contains(&item(&x)) });
            let res = match r {
                Ok(r) => r,
                Err(p) => {
                    out.violation("C24", "dedup-panics", p, json!({"cap": cap, "calls": script}));
                    continue 'runs;
                }
            };
            let (len, setlen, _) = buf.verif_sizes();
            if len > cap || setlen > cap {
                // reported here as well (the trace spec's invariant would catch it too)
                out.violation(
                    "C24",
                    "holds-more-than-capacity",
                    format!("after call {call}: ring holds {len}, set holds {setlen}, capacity {cap}"),
                    json!({"cap": cap, "calls": script}),
                );
            }
            out.mark_distinct(format!("{run}:{call}"));
            let has: Vec<String> = content(&buf, &alphabet).into_iter().collect();
            let ev = json!({
                "ev": if insert { "Insert" } else { "Contains" },
                "x": x, "res": if res { "true" } else { "false" },
                "has": has, "len": len, "setlen": setlen,
            });
            if call == 0 {
                out.sample(ev.clone());
            }
            trace.event(ev);
        }
    }
    large_capacities(&mut rng, &mut out);
    let (events, runs) = trace.finish();
    out.set_trace(events, runs);
    out.write(args);
}

/// Capacities far above the exhaustive bounds (around and above the default of 1024), checked
/// call by call against the window definition of spec/Dedup (the last `capacity` distinct items,
/// first in first out). These runs are too large for the trace spec's `has` binding, so the
/// window is kept here as a plain queue; the oracle is the same sentence as `Dedup!IsDuplicate`.
fn large_capacities(rng: &mut Rng, out: &mut Outcome) {
    use std::collections::{HashSet, VecDeque};
    for cap in [1023usize, 1024, 1025, 1500, 3000] {
        let mut buf = match catch(|| DeduplicationBuffer::<Hash>::new(cap)) {
            Ok(b) => b,
            Err(p) => {
                out.violation("C24", "dedup-panics", p, json!({"cap": cap}));
                continue;
            }
        };
        let mut window: VecDeque<u64> = VecDeque::new();
        let mut members: HashSet<u64> = HashSet::new();
        let mut next_fresh = 0u64;
        let calls = 3 * cap + 200;
        for call in 0..calls {
            // mostly fresh items, sometimes an item from anywhere in the recent past
            let x = if next_fresh > 0 && rng.chance(1, 4) {
                let back = rng.below((cap as u64 + 50).min(next_fresh));
                next_fresh - 1 - back
            } else {
                next_fresh += 1;
                next_fresh - 1
            };
            let expected_new = !members.contains(&x);
            out.eval();
            let name = format!("big{x}");
            let got = match catch(|| buf.insert(item(&name))) {
                Ok(r) => r,
                Err(p) => {
                    out.violation("C24", "dedup-panics", p, json!({"cap": cap, "call": call}));
                    break;
                }
            };
            if expected_new {
                if window.len() == cap {
                    let old = window.pop_front().unwrap();
                    members.remove(&old);
                }
                window.push_back(x);
                members.insert(x);
            }
            let (len, setlen, _) = buf.verif_sizes();
            if got != expected_new || len > cap || setlen > cap {
                out.violation(
                    "C24",
                    "large-capacity-window-differs",
                    format!(
                        "capacity {cap}, call {call}: insert({x}) returned {got}, the window of the last {cap} distinct items says {expected_new}; ring {len}, set {setlen}"
                    ),
                    json!({"cap": cap, "call": call, "x": x}),
                );
                break;
            }
        }
        out.count("large-capacity-runs");
    }
}
