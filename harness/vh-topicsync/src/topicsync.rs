//! TopicSync (C22, C23): real `TopicLogSync` sessions, the real `TopicSyncManager` and its
//! `ManagerEventStream` against spec/TopicSync.
//!
//! Sessions are real `run()` futures over harness-owned connection ends (`wire.rs`), a real
//! `SqliteStore` (behind `ProbeStore`) and the real broadcast / live-mode channels. The harness is
//! the scheduler: `Run(s)` = poll session s until it is blocked on its inputs, `Poll` = one
//! `poll_next` of the manager event stream by the consumer.
//!
//! replay: TLC-exported behaviours of the two machines of the spec ("lifecycle": one session with
//!         a scripted, possibly misbehaving remote and a failing sink; "live": several live
//!         sessions below one manager). After every step the observables (session: returned
//!         Ok/Err/still running, written messages, emitted events; consumer: items of the manager
//!         stream) must equal the spec's; where the spec is nondeterministic (unbiased select! in
//!         LogSync, SelectAll order) an observable from the step's `allowed` set makes the
//!         behaviour inapplicable to this execution (retried, then skipped - never a violation).
//! record: seeded random scenarios and schedules of both machines on the real code, one event per
//!         action, validated by TLC against Trace_TopicSync.tla.
use std::collections::BTreeMap;
use std::pin::Pin;
use std::task::Poll;

use futures_channel::mpsc;
use futures_util::Stream;
use p2panda_core::{Body, Topic};
use p2panda_sync::manager::TopicSyncManager;
use p2panda_sync::protocols::TopicLogSync;
use p2panda_sync::test_utils::Peer;
use p2panda_sync::traits::Manager as _;
use p2panda_sync::{FromSync, SessionConfig};
use tokio::runtime::Runtime;
use tokio::sync::broadcast;
use vh_common::{Args, Outcome, Rng, TraceWriter, Value, catch, json, read_ndjson, unknown};

use crate::probe::{Ext, LogId, ProbeStore};
use crate::session::{Ops, SessionDrv, SyncEvt, key_of, lifecycle_state, topic_of};
use crate::wire::count_waker;

type Manager = TopicSyncManager<Topic, ProbeStore, LogId, Ext>;
type ManagerStream = Pin<Box<dyn Stream<Item = FromSync<SyncEvt>> + Send>>;

pub fn run(args: &Args) {
    let rt = tokio::runtime::Builder::new_multi_thread().worker_threads(1).enable_all().build().expect("runtime");
    let _guard = rt.enter();
    match args.mode.as_str() {
        "replay" => replay(args, &rt),
        "record" => record(args, &rt),
        _ => unknown(args),
    }
}

// ------------------------------------------------------------------------------------------
// observables

/// Session observable, with the known defect "SessionStarted is never emitted" normalised away:
/// once the session has been scheduled, a missing leading SessionStarted is inserted (and
/// reported separately under its own signature) so that the rest of the lifecycle is compared
/// strictly.
fn session_obs(drv: &SessionDrv, ops: &Ops, scheduled: bool, lifecycle: bool) -> (Value, bool) {
    let mut obs = drv.obs(ops);
    let mut missing = false;
    if lifecycle && scheduled {
        let ev = obs["ev"].as_array().cloned().unwrap_or_default();
        if ev.first().map(|e| e["e"] != "SessionStarted").unwrap_or(true) {
            missing = true;
            let mut patched = vec![json!({"e": "SessionStarted", "x": "-"})];
            patched.extend(ev);
            obs["ev"] = Value::Array(patched);
        }
    }
    (obs, missing)
}

fn same_session(got: &Value, want: &Value) -> bool {
    got["res"] == want["res"] && got["sent"] == want["sent"] && got["ev"] == want["ev"]
}

enum Verdict {
    Match,
    /// differs from the exported behaviour but is another outcome the spec allows for this step
    AllowedOther,
    Mismatch(String, String),
}

/// Names the failure class of a session whose observable the spec does not allow.
fn classify_session(drv: &mut SessionDrv, got: &Value, want: &Value, lifecycle: bool) -> (String, String) {
    let ev = got["ev"].as_array().cloned().unwrap_or_default();
    let lc = if lifecycle { lifecycle_state(&ev, true) } else { "S4" };
    let (gr, wr) = (got["res"].as_str().unwrap_or("?"), want["res"].as_str().unwrap_or("?"));
    let detail = format!("real session: res={gr} events={} sent={}; spec: res={wr} events={} sent={}", got["ev"], got["sent"], want["ev"], want["sent"]);
    if let Some(p) = &drv.panicked {
        return ("session-panics".into(), format!("{p}; {detail}"));
    }
    if gr == "spin" {
        return ("spins-after-stream-closure-in-sync".into(), detail);
    }
    if lc == "dead" {
        return ("lifecycle-order-violated".into(), detail);
    }
    if lifecycle && (gr == "ok" || gr == "err") && lc != "T" {
        let sig = if drv.out.broken() {
            "no-terminal-event-when-sink-fails"
        } else if ev.len() <= 1 && drv.out.sent().is_empty() {
            "no-terminal-event-when-resolve-fails"
        } else {
            "no-terminal-event"
        };
        return (sig.into(), detail);
    }
    if gr == "run" && wr != "run" {
        // nothing in flight towards the session, not woken, no store call: it will never return
        let polls = drv.run_until_blocked();
        if !drv.over() {
            return ("session-hangs".into(), format!("still pending after {polls} more polls; {detail}"));
        }
    }
    // the same operation written twice to the remote (Sync Operation or Live) where the spec writes it once
    let dup_on_wire = |v: &Value| {
        let mut seen = std::collections::BTreeSet::new();
        v["sent"].as_array().map(|a| a.iter().filter(|m| m["k"] == "Op" || m["k"] == "Live").any(|m| !seen.insert(m["x"].as_str().unwrap_or("").to_string()))).unwrap_or(false)
    };
    if dup_on_wire(got) && !dup_on_wire(want) {
        return ("operation-on-wire-twice".into(), detail);
    }
    if gr != wr {
        return ("result-differs-from-spec".into(), detail);
    }
    if got["ev"] != want["ev"] {
        return ("events-differ-from-spec".into(), detail);
    }
    ("messages-differ-from-spec".into(), detail)
}

fn judge_session(drv: &mut SessionDrv, got: &Value, want: &Value, allowed: &Value, lifecycle: bool) -> Verdict {
    if same_session(got, want) {
        return Verdict::Match;
    }
    if allowed.as_array().map(|a| a.iter().any(|alt| same_session(got, alt))).unwrap_or(false) {
        return Verdict::AllowedOther;
    }
    let (sig, detail) = classify_session(drv, got, want, lifecycle);
    Verdict::Mismatch(sig, detail)
}

// ------------------------------------------------------------------------------------------
// machine 1: lifecycle

struct LcWorld {
    ops: Ops,
    drv: SessionDrv,
    scheduled: bool,
    _peer: Peer,
}

fn lc_setup(rt: &Runtime, cap: usize, live: bool, n: usize, fail_at: u64, store_fail: bool) -> LcWorld {
    let mut ops = Ops::new();
    let topic = topic_of("t1");
    let mut peer = rt.block_on(Peer::new(0));
    for k in 1..=n {
        let body = Body::new(format!("local operation {k}").as_bytes());
        let (header, bytes) = rt.block_on(peer.create_operation(&body, 0));
        ops.register(&format!("l{k}"), header, bytes, body);
    }
    let logs = BTreeMap::from([(peer.id(), vec![0usize])]);
    rt.block_on(peer.associate(&topic, &logs));
    let store = ProbeStore::new(peer.store.clone());
    store.set_fail_resolve(store_fail);
    let (event_tx, events_rx) = broadcast::channel(512);
    let (live_tx, live_rx) = mpsc::channel(512);
    let session = TopicLogSync::new_with_capacity(topic, store.clone(), if live { Some(live_rx) } else { None }, event_tx, cap);
    let drv = SessionDrv::new(session, events_rx, if live { Some(live_tx) } else { None }, store, fail_at);
    LcWorld { ops, drv, scheduled: false, _peer: peer }
}

impl LcWorld {
    fn step(&mut self, act: &str, m: &Value) {
        match act {
            "Give" => {
                let item = self.ops.item(m);
                self.drv.inb.give(item);
            }
            "End" => self.drv.inb.end(),
            "LiveGive" => {
                let it = self.ops.to_sync(m);
                self.drv.give_live(it);
            }
            "Run" => {
                self.drv.run_until_blocked();
                self.scheduled = true;
            }
            other => {
                eprintln!("unknown lifecycle action {other}");
                std::process::exit(2);
            }
        }
    }
}

enum RunResult {
    Ok { missing_start: bool },
    Inapplicable,
    Violation(String, String),
}

fn replay_lifecycle(rt: &Runtime, b: &Value) -> RunResult {
    let init = &b["init"]["s1"];
    let mut w = lc_setup(
        rt,
        b["cap"].as_u64().expect("cap") as usize,
        init["live"].as_bool().expect("live"),
        init["n"].as_u64().expect("n") as usize,
        init["failAt"].as_u64().expect("failAt"),
        init["storeFail"].as_bool().unwrap_or(false),
    );
    let mut missing_start = false;
    for (k, s) in b["steps"].as_array().expect("steps").iter().enumerate() {
        let act = s["act"].as_str().expect("act");
        w.step(act, &s["m"]);
        if w.drv.stalled {
            eprintln!("store did not answer within 60 s");
            std::process::exit(2);
        }
        let (got, missing) = session_obs(&w.drv, &w.ops, w.scheduled, true);
        missing_start |= missing;
        match judge_session(&mut w.drv, &got, &s["obs"]["ss"]["s1"], &s["allowed"], true) {
            Verdict::Match => {}
            Verdict::AllowedOther => return RunResult::Inapplicable,
            Verdict::Mismatch(sig, detail) => return RunResult::Violation(sig, format!("after step {k} ({act}): {detail}")),
        }
    }
    RunResult::Ok { missing_start }
}

// ------------------------------------------------------------------------------------------
// machine 2: live sessions below one manager

struct LiveWorld {
    ops: Ops,
    ids: Vec<String>,
    drv: BTreeMap<String, SessionDrv>,
    _manager: Manager,
    stream: ManagerStream,
    consumer: Vec<Value>,
    stream_closed: bool,
    _peer: Peer,
}

fn live_setup(rt: &Runtime, cap: usize, topics: &BTreeMap<String, String>, subscribe_first: bool) -> Result<LiveWorld, String> {
    let ops = Ops::new();
    let peer = rt.block_on(Peer::new(0));
    let store = ProbeStore::new(peer.store.clone());
    let mut manager = Manager::new(store.clone());
    let mut stream: Option<ManagerStream> = None;
    if subscribe_first {
        stream = Some(Box::pin(manager.subscribe()));
    }
    let mut drv = BTreeMap::new();
    let ids: Vec<String> = topics.keys().cloned().collect();
    for (k, id) in ids.iter().enumerate() {
        let config = SessionConfig { topic: topic_of(&topics[id]), remote: key_of(id).verifying_key(), live_mode: true };
        let mut session = rt.block_on(manager.session(k as u64 + 1, &config));
        session.buffer_capacity = cap;
        let events_rx = session.event_tx.subscribe();
        drv.insert(id.clone(), SessionDrv::new(session, events_rx, None, store.clone(), 0));
    }
    let stream = match stream {
        Some(s) => s,
        None => Box::pin(manager.subscribe()),
    };
    let mut w = LiveWorld { ops, ids, drv, _manager: manager, stream, consumer: vec![], stream_closed: false, _peer: peer };
    // honest, empty initial sync brings every session into live mode
    for id in w.ids.clone() {
        let d = w.drv.get_mut(&id).unwrap();
        d.inb.give(w.ops.item(&json!({"k": "Have", "x": "-"})));
        d.inb.give(w.ops.item(&json!({"k": "Done", "x": "-"})));
        d.run_until_blocked();
        let evs: Vec<String> = d.events.iter().map(|e| w.ops.evt_json(e)["e"].as_str().unwrap().to_string()).collect();
        let want_tail = ["SyncStarted", "SyncFinished", "LiveModeStarted"];
        if d.over() || evs.len() < 3 || evs[evs.len() - 3..] != want_tail {
            return Err(format!("session {id} did not reach live mode in the set-up: res={} events={evs:?}", d.res()));
        }
        d.mark_setup_done();
    }
    // the consumer drains the set-up events
    for _ in 0..64 {
        if !w.poll_consumer() {
            break;
        }
    }
    w.consumer.clear();
    Ok(w)
}

impl LiveWorld {
    /// One `poll_next` of the manager event stream. Returns whether an item was produced.
    fn poll_consumer(&mut self) -> bool {
        if self.stream_closed {
            return false;
        }
        let (_cw, waker) = count_waker();
        let mut cx = std::task::Context::from_waker(&waker);
        match self.stream.as_mut().poll_next(&mut cx) {
            Poll::Ready(Some(item)) => {
                let sid = self.ids.get(item.session_id as usize - 1).cloned().unwrap_or_else(|| format!("?{}", item.session_id));
                let e = self.ops.evt_json(&item.event);
                self.consumer.push(json!({"s": sid, "e": e["e"], "x": e["x"]}));
                true
            }
            Poll::Ready(None) => {
                self.stream_closed = true;
                false
            }
            Poll::Pending => false,
        }
    }

    fn step(&mut self, act: &str, s: &str, m: &Value) {
        match act {
            "Give" => {
                let item = self.ops.item(m);
                self.drv.get_mut(s).expect("session").inb.give(item);
            }
            "End" => self.drv.get_mut(s).expect("session").inb.end(),
            "Run" => {
                self.drv.get_mut(s).expect("session").run_until_blocked();
            }
            "Poll" => {
                self.poll_consumer();
            }
            other => {
                eprintln!("unknown live action {other}");
                std::process::exit(2);
            }
        }
    }

    fn obs(&self) -> Value {
        let mut ss = serde_json::Map::new();
        for (id, d) in &self.drv {
            ss.insert(id.clone(), session_obs(d, &self.ops, true, false).0);
        }
        json!({"ss": Value::Object(ss), "mgr": {"out": self.consumer}})
    }
}

fn replay_live(rt: &Runtime, b: &Value, variant: u64) -> RunResult {
    let topics: BTreeMap<String, String> =
        b["topics"].as_object().expect("topics").iter().map(|(k, v)| (k.clone(), v.as_str().unwrap().to_string())).collect();
    let mut w = match live_setup(rt, b["cap"].as_u64().expect("cap") as usize, &topics, variant % 2 == 0) {
        Ok(w) => w,
        Err(e) => return RunResult::Violation("live-setup-failed".into(), e),
    };
    for (k, s) in b["steps"].as_array().expect("steps").iter().enumerate() {
        let act = s["act"].as_str().expect("act");
        let sid = s["s"].as_str().unwrap_or("-");
        w.step(act, sid, &s["m"]);
        let got = w.obs();
        let want = &s["obs"];
        // sessions
        for id in w.ids.clone() {
            let allowed = if act == "Run" && id == sid { s["allowed"].clone() } else { json!([]) };
            let d = w.drv.get_mut(&id).unwrap();
            if d.stalled {
                eprintln!("store did not answer within 60 s");
                std::process::exit(2);
            }
            match judge_session(d, &got["ss"][&id], &want["ss"][&id], &allowed, false) {
                Verdict::Match => {}
                Verdict::AllowedOther => return RunResult::Inapplicable,
                Verdict::Mismatch(sig, detail) => {
                    return RunResult::Violation(format!("live-{sig}"), format!("after step {k} ({act} {sid}), session {id}: {detail}"));
                }
            }
        }
        // consumer
        if got["mgr"]["out"] != want["mgr"]["out"] {
            let alt = act == "Poll" && s["allowed"].as_array().map(|a| a.iter().any(|o| o["out"] == got["mgr"]["out"])).unwrap_or(false);
            if alt {
                return RunResult::Inapplicable;
            }
            let out = got["mgr"]["out"].as_array().cloned().unwrap_or_default();
            let mut seen = std::collections::BTreeSet::new();
            let dup = out.iter().filter(|i| i["e"] == "Op").any(|i| !seen.insert(i["x"].as_str().unwrap_or("").to_string()));
            let want_out = want["mgr"]["out"].as_array().cloned().unwrap_or_default();
            let missing_op = want_out.iter().filter(|i| i["e"] == "Op").any(|i| !out.contains(i));
            let sig = if dup {
                "consumer-sees-operation-twice"
            } else if missing_op {
                "operation-event-dropped-by-manager"
            } else {
                "consumer-stream-differs-from-spec"
            };
            return RunResult::Violation(sig.into(), format!("after step {k} ({act} {sid}): consumer saw {}, spec says {}", got["mgr"]["out"], want["mgr"]["out"]));
        }
    }
    RunResult::Ok { missing_start: false }
}

// ------------------------------------------------------------------------------------------

fn replay(args: &Args, rt: &Runtime) {
    let behaviours = read_ndjson(args.input.as_ref().expect("--in"));
    let mut out = Outcome::new(
        args,
        "every TLC-exported behaviour of the lifecycle machine (one real TopicLogSync session, scripted remote with wrong \
         messages / early stream end / failing k-th sink operation, live-mode channel items) and of the live machine (real \
         TopicSyncManager + ManagerEventStream + several live sessions) executed on the real code with the harness as \
         scheduler; observables compared after every step; non-trivial = the behaviour contains a fault (lifecycle) or an \
         operation that reaches the manager from a session (live); distinct by behaviour",
    );
    let retries = args.extra_usize("retries", 6);
    let property = args.extra.get("property").cloned().unwrap_or_else(|| "C22".into());
    for (idx, b) in behaviours.iter().enumerate() {
        out.eval();
        let kind = b["kind"].as_str().unwrap_or("?").to_string();
        let mut result = RunResult::Inapplicable;
        for attempt in 0..=retries {
            let r = catch(|| match kind.as_str() {
                "lifecycle" => replay_lifecycle(rt, b),
                "live" => replay_live(rt, b, idx as u64 + attempt as u64),
                other => {
                    eprintln!("unknown behaviour kind {other}");
                    std::process::exit(2);
                }
            });
            result = match r {
                Ok(r) => r,
                Err(p) => RunResult::Violation("harness-or-code-panics".into(), p),
            };
            if !matches!(result, RunResult::Inapplicable) {
                break;
            }
            out.count("retries_after_allowed_other_outcome");
        }
        let steps = b["steps"].as_array().expect("steps");
        let nontrivial = if kind == "lifecycle" {
            b["init"]["s1"]["failAt"] != 0
                || steps.iter().any(|s| s["act"] == "End")
                || steps.iter().any(|s| s["obs"]["ss"]["s1"]["ev"].as_array().map(|e| e.iter().any(|x| x["e"] == "Failed")).unwrap_or(false))
        } else {
            steps.last().map(|s| s["obs"]["mgr"]["out"].as_array().map(|o| o.iter().any(|i| i["e"] == "Op")).unwrap_or(false)).unwrap_or(false)
        };
        if nontrivial {
            out.mark_distinct(format!("{idx}"));
        }
        match result {
            RunResult::Ok { missing_start } => {
                out.count(&format!("{kind}_matched"));
                if missing_start {
                    out.count("session_started_missing");
                }
                if missing_start && out.counters.get("session_started_missing") == Some(&1) {
                    out.violation(
                        "C22",
                        "session-started-never-emitted",
                        "the session's first event is not SessionStarted (the event is emitted nowhere); rest of the lifecycle as specified".into(),
                        b.clone(),
                    );
                }
                out.sample(b.clone());
            }
            RunResult::Inapplicable => out.count(&format!("{kind}_skipped_other_allowed_outcome")),
            RunResult::Violation(sig, detail) => out.violation(&property, &sig, detail, b.clone()),
        }
    }
    out.write(args);
}

fn record(args: &Args, rt: &Runtime) {
    match args.extra.get("machine").map(|s| s.as_str()).unwrap_or("lifecycle") {
        "lifecycle" => record_lifecycle(args, rt),
        "live" => record_live(args, rt),
        _ => unknown(args),
    }
}

fn record_lifecycle(args: &Args, rt: &Runtime) {
    let mut rng = Rng::new(args.seed);
    let n_runs = if args.n > 0 { args.n } else { 100 };
    let mut trace = TraceWriter::create(args.out.as_ref().expect("--out"));
    let mut out = Outcome::new(
        args,
        "seeded random lifecycle scenarios on a real TopicLogSync session (0..2 local / 0..2 remote operations, live mode \
         on/off, ring capacity 1..3, sink failing at a random operation in 1/3 of the runs, remote misbehaving at a random \
         position in 1/2 of the runs) under a random schedule; one event per action; distinct by run",
    );
    let wrong = ["Have", "PreSync", "Done", "Op", "Live", "Close", "Bad"];
    let live_ops = ["r1", "x", "y"];
    for run in 0..n_runs {
        out.eval();
        let cap = rng.range(1, 3) as usize;
        let live = rng.chance(2, 3);
        let n = rng.below(3) as usize;
        let r = rng.below(3) as usize;
        let fail_at = if rng.chance(1, 3) { rng.range(1, 8) } else { 0 };
        let misbehave = rng.chance(1, 2);
        let store_fail = rng.chance(1, 12);
        let mut w = lc_setup(rt, cap, live, n, fail_at, store_fail);
        trace.event(json!({"ev": "Reset", "machine": "lifecycle", "run": run, "cap": cap, "live": live, "n": n, "r": r, "failAt": fail_at, "storeFail": store_fail}));
        // remote script state (mirrors NewRemote / HonestNext of the spec)
        let mut pos = "Have";
        let mut k = 0usize;
        let mut ended = false;
        let mut live_in = 0;
        let mut live_q = 0;
        let mut dirty = true;
        let mut missing_start = false;
        let mut steps = 0;
        while steps < 60 {
            steps += 1;
            if ended && (!dirty || w.drv.over()) {
                break;
            }
            // choose an action
            let mut choices: Vec<&str> = vec![];
            if dirty && !w.drv.over() {
                choices.extend(["Run", "Run", "Run"]);
            }
            if !ended {
                if matches!(pos, "Have" | "Second" | "Ops") {
                    choices.extend(["Honest", "Honest", "Honest"]);
                }
                if pos == "Live" && live_in < 3 {
                    choices.extend(["RLive", "RLive"]);
                }
                if pos == "Live" {
                    choices.push("RClose");
                }
                if misbehave && matches!(pos, "Have" | "Second" | "Ops" | "Live") && rng.chance(1, 4) {
                    choices.push("Wrong");
                }
                if (misbehave && rng.chance(1, 6)) || matches!(pos, "Closed" | "Faulted") || (pos == "Live" && !live) {
                    choices.push("End");
                }
                if pos == "Live" && live_in >= 3 {
                    choices.push("End");
                }
            }
            if live && !w.drv.over() && live_q < 3 {
                choices.push("LiveGive");
            }
            if choices.is_empty() {
                if !ended {
                    choices.push("End");
                } else {
                    break;
                }
            }
            let choice = *rng.pick(&choices);
            let (act, m) = match choice {
                "Run" => ("Run", json!({"k": "-", "x": "-"})),
                "Honest" => {
                    let m = match pos {
                        "Have" => {
                            pos = "Second";
                            json!({"k": "Have", "x": "-"})
                        }
                        "Second" => {
                            if r > 0 {
                                pos = "Ops";
                                json!({"k": "PreSync", "x": "-"})
                            } else {
                                pos = "Live";
                                json!({"k": "Done", "x": "-"})
                            }
                        }
                        _ => {
                            if k < r {
                                k += 1;
                                json!({"k": "Op", "x": format!("r{k}")})
                            } else {
                                pos = "Live";
                                json!({"k": "Done", "x": "-"})
                            }
                        }
                    };
                    ("Give", m)
                }
                "RLive" => {
                    live_in += 1;
                    ("Give", json!({"k": "Live", "x": *rng.pick(&live_ops)}))
                }
                "RClose" => {
                    pos = "Closed";
                    ("Give", json!({"k": "Close", "x": "-"}))
                }
                "Wrong" => {
                    let kind = *rng.pick(&wrong);
                    let x = match kind {
                        "Op" => "r1",
                        "Live" => "x",
                        _ => "-",
                    };
                    pos = "Faulted";
                    ("Give", json!({"k": kind, "x": x}))
                }
                "End" => {
                    ended = true;
                    ("End", json!({"k": "-", "x": "-"}))
                }
                _ => {
                    live_q += 1;
                    if rng.chance(1, 4) {
                        ("LiveGive", json!({"k": "Close", "x": "-"}))
                    } else {
                        ("LiveGive", json!({"k": "Payload", "x": *rng.pick(&["x", "y", "r1", "l1"])}))
                    }
                }
            };
            w.step(act, &m);
            dirty = act != "Run";
            if w.drv.stalled {
                eprintln!("store did not answer within 60 s");
                std::process::exit(2);
            }
            let (obs, missing) = session_obs(&w.drv, &w.ops, w.scheduled, true);
            missing_start |= missing;
            trace.event(json!({"ev": act, "s": "s1", "m": m, "obs": obs}));
            if let Some(p) = &w.drv.panicked {
                out.violation("C22", "session-panics", p.clone(), json!({"run": run, "seed": args.seed}));
                break;
            }
        }
        // direct judgement of the real event sequence (the trace spec's invariants see the same)
        let (obs, _) = session_obs(&w.drv, &w.ops, w.scheduled, true);
        let ev = obs["ev"].as_array().cloned().unwrap_or_default();
        let lc = lifecycle_state(&ev, true);
        let case = json!({"run": run, "seed": args.seed, "cap": cap, "live": live, "n": n, "r": r, "failAt": fail_at, "storeFail": store_fail, "final": obs});
        if w.drv.spun {
            out.violation("C22", "spins-after-stream-closure-in-sync", format!("run {run}: session spins, events {}", obs["ev"]), case.clone());
        } else if lc == "dead" {
            out.violation("C22", "lifecycle-order-violated", format!("run {run}: events {}", obs["ev"]), case.clone());
        } else if w.drv.result.is_some() && lc != "T" {
            let sig = if w.drv.out.broken() {
                "no-terminal-event-when-sink-fails"
            } else if ev.len() <= 1 && w.drv.out.sent().is_empty() {
                "no-terminal-event-when-resolve-fails"
            } else {
                "no-terminal-event"
            };
            out.violation("C22", sig, format!("run {run}: session returned {:?} with events {}", w.drv.result, obs["ev"]), case.clone());
        } else if ended && !w.drv.over() {
            w.drv.run_until_blocked();
            if !w.drv.over() {
                out.violation("C22", "session-hangs", format!("run {run}: stream ended, session still pending; events {}", obs["ev"]), case.clone());
            }
        }
        if missing_start {
            out.count("session_started_missing");
            if out.counters.get("session_started_missing") == Some(&1) {
                out.violation("C22", "session-started-never-emitted", "the session's first event is not SessionStarted (the event is emitted nowhere)".into(), case.clone());
            }
        }
        out.mark_distinct(format!("{run}"));
        out.count(&format!("end_{}", w.drv.res()));
        if run < 2 {
            out.sample(case);
        }
    }
    let (events, runs) = trace.finish();
    out.set_trace(events, runs);
    out.write(args);
}

fn record_live(args: &Args, rt: &Runtime) {
    let mut rng = Rng::new(args.seed);
    let n_runs = if args.n > 0 { args.n } else { 100 };
    let mut trace = TraceWriter::create(args.out.as_ref().expect("--out"));
    let mut out = Outcome::new(
        args,
        "seeded random live-mode flows on the real TopicSyncManager + ManagerEventStream with 2..3 live sessions on 1..2 \
         topics (ring capacity 1..3, 4 operations arriving repeatedly from several remotes, random interleaving of remote \
         messages, session scheduling and consumer polls, occasional Close / stream end); one event per action; distinct by run",
    );
    let names = ["a", "b", "c", "d"];
    for run in 0..n_runs {
        out.eval();
        let cap = rng.range(1, 3) as usize;
        let k = rng.range(2, 3) as usize;
        let two_topics = rng.chance(1, 3);
        let mut topics = BTreeMap::new();
        for i in 1..=k {
            topics.insert(format!("s{i}"), if two_topics && rng.chance(1, 2) { "t2".to_string() } else { "t1".to_string() });
        }
        let mut w = match live_setup(rt, cap, &topics, rng.chance(1, 2)) {
            Ok(w) => w,
            Err(e) => {
                out.violation("C23", "live-setup-failed", e, json!({"run": run, "seed": args.seed}));
                continue;
            }
        };
        trace.event(json!({"ev": "Reset", "machine": "live", "run": run, "cap": cap, "topics": topics}));
        let mut ended: BTreeMap<String, bool> = w.ids.iter().map(|i| (i.clone(), false)).collect();
        let steps = rng.range(10, 40);
        for step in 0..steps + 12 {
            let settle = step >= steps; // at the end: run everybody and poll until quiet
            let sid = rng.pick(&w.ids).clone();
            let (act, m) = if settle {
                if step % 2 == 0 { ("Run", json!({"k": "-", "x": "-"})) } else { ("Poll", json!({"k": "-", "x": "-"})) }
            } else {
                match rng.below(10) {
                    0..=3 if !ended[&sid] => ("Give", json!({"k": "Live", "x": *rng.pick(&names)})),
                    4..=6 => ("Run", json!({"k": "-", "x": "-"})),
                    7..=8 => ("Poll", json!({"k": "-", "x": "-"})),
                    _ if !ended[&sid] && rng.chance(1, 3) => {
                        ended.insert(sid.clone(), true);
                        if rng.chance(1, 2) { ("Give", json!({"k": "Close", "x": "-"})) } else { ("End", json!({"k": "-", "x": "-"})) }
                    }
                    _ => ("Poll", json!({"k": "-", "x": "-"})),
                }
            };
            if settle && act == "Run" {
                // everybody once
                for id in w.ids.clone() {
                    w.step("Run", &id, &m);
                    trace.event(json!({"ev": "Run", "s": id, "m": m, "obs": w.obs()}));
                }
                continue;
            }
            w.step(act, &sid, &m);
            trace.event(json!({"ev": act, "s": if act == "Poll" { "-".to_string() } else { sid.clone() }, "m": m, "obs": w.obs()}));
        }
        // direct judgement of the consumer stream
        let mut seen = std::collections::BTreeSet::new();
        for item in &w.consumer {
            if item["e"] == "Op" && !seen.insert(item["x"].as_str().unwrap_or("").to_string()) {
                out.violation("C23", "consumer-sees-operation-twice", format!("run {run}: consumer stream {}", json!(w.consumer)), json!({"run": run, "seed": args.seed}));
                break;
            }
        }
        for (id, d) in &w.drv {
            if let Some(p) = &d.panicked {
                out.violation("C23", "live-session-panics", format!("session {id}: {p}"), json!({"run": run, "seed": args.seed}));
            }
        }
        out.mark_distinct(format!("{run}"));
        out.count_by("consumer_ops", w.consumer.iter().filter(|i| i["e"] == "Op").count() as u64);
        if run < 2 {
            out.sample(json!({"run": run, "cap": cap, "topics": topics, "final": w.obs()}));
        }
    }
    let (events, runs) = trace.finish();
    out.set_trace(events, runs);
    out.write(args);
}
