//! Handshake (C25): the real `TopicHandshakeInitiator` / `TopicHandshakeAcceptor` against
//! spec/Handshake.
//!
//! Both real `Protocol::run` futures are held by the harness and polled by hand (one poll = one
//! `RunI` / `RunA` action of the spec); the two directions of the connection are harness-owned
//! queues (`wire.rs`) on which the adversary actions of the spec are performed literally
//! (deliver / substitute / truncate / teardown, k-th sink operation fails).
//!
//! replay: every schedule exported by TLC is executed; after every step both parties' result
//!         (still running / Ok / Err), the acceptor's output topic and the messages written so far
//!         are compared with the state TLC computed. "Hangs" = the model says the party has
//!         returned but the real future is still pending although nothing can wake it.
//! record: seeded random schedules with random faults on the real code, one event per action,
//!         validated by TLC against Trace_Handshake.tla.
use std::collections::{BTreeMap, VecDeque};
use std::future::Future;
use std::pin::Pin;
use std::sync::atomic::Ordering;
use std::task::Poll;

use futures_channel::mpsc;
use p2panda_core::{Hash, Topic};
use p2panda_sync::protocols::{
    TopicHandshakeAcceptor, TopicHandshakeEvent, TopicHandshakeInitiator, TopicHandshakeMessage,
};
use p2panda_sync::traits::Protocol;
use vh_common::{Args, Outcome, Rng, TraceWriter, Value, catch, json, read_ndjson, unknown};

use crate::wire::{Inbound, Outbound, count_waker, poll_once};

type Msg = TopicHandshakeMessage<Topic>;
type Evt = TopicHandshakeEvent<Topic>;

pub fn run(args: &Args) {
    match args.mode.as_str() {
        "replay" => replay(args),
        "record" => record(args),
        _ => unknown(args),
    }
}

struct Names {
    by_topic: BTreeMap<[u8; 32], String>,
}

impl Names {
    fn new() -> Self {
        Names { by_topic: BTreeMap::new() }
    }
    fn topic(&mut self, name: &str) -> Topic {
        let t = Topic::from(Hash::digest(name.as_bytes()));
        self.by_topic.insert(*t.as_bytes(), name.to_string());
        t
    }
    fn name(&self, t: &Topic) -> String {
        self.by_topic.get(t.as_bytes()).cloned().unwrap_or_else(|| format!("?{}", t.to_hex()))
    }
    fn msg_json(&self, m: &Msg) -> Value {
        match m {
            TopicHandshakeMessage::Topic(t) => json!({"k": "Topic", "t": self.name(t)}),
            TopicHandshakeMessage::Done => json!({"k": "Done", "t": "-"}),
        }
    }
    fn ev_json(&self, e: &Evt) -> Value {
        match e {
            TopicHandshakeEvent::Initiate(t) => json!({"e": "Initiate", "t": self.name(t)}),
            TopicHandshakeEvent::Accept => json!({"e": "Accept", "t": "-"}),
            TopicHandshakeEvent::TopicReceived(t) => json!({"e": "TopicReceived", "t": self.name(t)}),
            TopicHandshakeEvent::Done(t) => json!({"e": "Done", "t": self.name(t)}),
        }
    }
    /// spec message -> what the receiver's stream yields
    fn item_from_json(&mut self, m: &Value) -> Result<Msg, String> {
        match m["k"].as_str().expect("k") {
            "Topic" => Ok(TopicHandshakeMessage::Topic(self.topic(m["t"].as_str().expect("t")))),
            "Done" => Ok(TopicHandshakeMessage::Done),
            "Bad" => Err("undecodable frame".to_string()),
            other => panic!("unknown message kind {other}"),
        }
    }
}

type PartyFut = Pin<Box<dyn Future<Output = Result<Option<Topic>, String>>>>;

/// One real party with its connection ends.
struct Party {
    fut: PartyFut,
    /// `None` while running
    result: Option<Result<Option<Topic>, String>>,
    out: Outbound<Msg>,
    inb: Inbound<Msg>,
    events_rx: mpsc::Receiver<Evt>,
    events: Vec<Evt>,
    panicked: Option<String>,
}

impl Party {
    fn initiator(topic: Topic, fail_at: u64) -> Party {
        let out = Outbound::<Msg>::new(fail_at);
        let inb = Inbound::<Msg>::new();
        let (event_tx, events_rx) = mpsc::channel::<Evt>(64);
        let (mut sink, mut stream) = (out.clone(), inb.clone());
        let fut: PartyFut = Box::pin(async move {
            let protocol = TopicHandshakeInitiator::<Topic, Evt>::new(topic, event_tx);
            protocol.run(&mut sink, &mut stream).await.map(|()| None).map_err(|e| format!("{e:?}"))
        });
        Party { fut, result: None, out, inb, events_rx, events: vec![], panicked: None }
    }

    fn acceptor(fail_at: u64) -> Party {
        let out = Outbound::<Msg>::new(fail_at);
        let inb = Inbound::<Msg>::new();
        let (event_tx, events_rx) = mpsc::channel::<Evt>(64);
        let (mut sink, mut stream) = (out.clone(), inb.clone());
        let fut: PartyFut = Box::pin(async move {
            let protocol = TopicHandshakeAcceptor::<Topic, Evt>::new(event_tx);
            protocol.run(&mut sink, &mut stream).await.map(Some).map_err(|e| format!("{e:?}"))
        });
        Party { fut, result: None, out, inb, events_rx, events: vec![], panicked: None }
    }

    /// One poll of the real future. Returns the number of wake-ups the poll caused.
    fn poll(&mut self) -> u64 {
        if self.result.is_some() || self.panicked.is_some() {
            return 0;
        }
        let (cw, waker) = count_waker();
        self.inb.begin_poll();
        let fut = &mut self.fut;
        match catch(|| poll_once(fut, &waker)) {
            Ok(Poll::Ready(r)) => self.result = Some(r),
            Ok(Poll::Pending) => {}
            Err(p) => self.panicked = Some(p),
        }
        while let Ok(e) = self.events_rx.try_recv() {
            self.events.push(e);
        }
        cw.0.load(Ordering::SeqCst)
    }

    fn res(&self) -> &'static str {
        match &self.result {
            None => "run",
            Some(Ok(_)) => "ok",
            Some(Err(_)) => "err",
        }
    }

    fn obs(&self, names: &Names) -> Value {
        let out = match &self.result {
            Some(Ok(Some(t))) => names.name(t),
            _ => "-".to_string(),
        };
        json!({
            "res": self.res(),
            "out": out,
            "sent": self.out.sent().iter().map(|m| names.msg_json(m)).collect::<Vec<_>>(),
            "ev": self.events.iter().map(|e| names.ev_json(e)).collect::<Vec<_>>(),
        })
    }
}

/// The connection between the two real parties, under the harness' (= the adversary's) control.
struct World {
    names: Names,
    ini: Party,
    acc: Party,
    flight_ia: VecDeque<Msg>,
    flight_ai: VecDeque<Msg>,
    cut_ia: bool,
    cut_ai: bool,
    eos_to_acc: bool,
    eos_to_ini: bool,
    /// "input changed since the last poll" (a poll can make progress)
    dirty_i: bool,
    dirty_a: bool,
}

impl World {
    fn new(topic_name: &str, fail_i: u64, fail_a: u64) -> World {
        let mut names = Names::new();
        let topic = names.topic(topic_name);
        World {
            names,
            ini: Party::initiator(topic, fail_i),
            acc: Party::acceptor(fail_a),
            flight_ia: VecDeque::new(),
            flight_ai: VecDeque::new(),
            cut_ia: false,
            cut_ai: false,
            eos_to_acc: false,
            eos_to_ini: false,
            dirty_i: true,
            dirty_a: true,
        }
    }

    fn run_i(&mut self) {
        self.ini.poll();
        self.dirty_i = false;
        let new = self.ini.out.take_flight();
        if !self.cut_ia {
            self.flight_ia.extend(new);
        }
    }

    fn run_a(&mut self) {
        self.acc.poll();
        self.dirty_a = false;
        let new = self.acc.out.take_flight();
        if !self.cut_ai {
            self.flight_ai.extend(new);
        }
    }

    fn flight(&mut self, d: &str) -> &mut VecDeque<Msg> {
        if d == "ia" { &mut self.flight_ia } else { &mut self.flight_ai }
    }

    fn give(&mut self, d: &str, item: Result<Msg, String>) {
        if d == "ia" {
            self.acc.inb.give(item);
            self.dirty_a = true;
        } else {
            self.ini.inb.give(item);
            self.dirty_i = true;
        }
    }

    fn end_stream(&mut self, d: &str) {
        if d == "ia" {
            self.acc.inb.end();
            self.eos_to_acc = true;
            self.dirty_a = true;
        } else {
            self.ini.inb.end();
            self.eos_to_ini = true;
            self.dirty_i = true;
        }
    }

    fn deliver(&mut self, d: &str) -> Option<Msg> {
        let m = self.flight(d).pop_front()?;
        self.give(d, Ok(m.clone()));
        Some(m)
    }

    fn substitute(&mut self, d: &str, m: &Value) -> bool {
        if self.flight(d).pop_front().is_none() {
            return false;
        }
        let item = self.names.item_from_json(m);
        self.give(d, item);
        true
    }

    fn truncate(&mut self, d: &str) {
        if d == "ia" { self.cut_ia = true } else { self.cut_ai = true }
        self.flight(d).clear();
        self.end_stream(d);
    }

    fn obs(&self) -> Value {
        json!({"i": self.ini.obs(&self.names), "a": self.acc.obs(&self.names)})
    }

    /// The party is pending and nothing is left that could wake it: polling it again (several
    /// times) neither completes it nor triggers a wake-up.
    fn confirm_hang(party: &mut Party) -> bool {
        for _ in 0..3 {
            let wakes = party.poll();
            if party.result.is_some() || party.panicked.is_some() || wakes > 0 {
                return false;
            }
        }
        true
    }
}

/// Compares one party's observable with the spec's; returns (signature, detail) on mismatch.
fn compare_party(who: &str, got: &Value, want: &Value, party: &mut Party, out: &mut Outcome) -> Option<(String, String)> {
    if let Some(p) = &party.panicked {
        return Some((format!("{who}-panics"), p.clone()));
    }
    let (gr, wr) = (got["res"].as_str().unwrap(), want["res"].as_str().unwrap());
    if gr != wr {
        let sig = match (gr, wr) {
            ("run", _) => {
                if World::confirm_hang(party) {
                    format!("{who}-hangs")
                } else {
                    format!("{who}-result-differs-from-spec")
                }
            }
            ("ok", "err") => format!("{who}-no-error-on-fault"),
            ("err", "ok") => format!("{who}-spurious-error"),
            _ => format!("{who}-result-differs-from-spec"),
        };
        return Some((sig, format!("{who}: real run is '{gr}' ({:?}), spec says '{wr}'", party.result)));
    }
    if got["out"] != want["out"] {
        return Some((
            "acceptor-wrong-topic".to_string(),
            format!("{who}: real output topic {}, spec says {}", got["out"], want["out"]),
        ));
    }
    if got["sent"] != want["sent"] {
        return Some((
            format!("{who}-messages-differ-from-spec"),
            format!("{who}: wrote {}, spec says {}", got["sent"], want["sent"]),
        ));
    }
    if got["ev"] != want["ev"] {
        // events are not part of C25's statement: counted, not judged
        out.count(&format!("{who}_events_differ_from_spec"));
    }
    None
}

fn replay(args: &Args) {
    let behaviours = read_ndjson(args.input.as_ref().expect("--in"));
    let mut out = Outcome::new(
        args,
        "every TLC-exported schedule (polls of the two real run() futures interleaved with deliver / substitute / truncate / \
         teardown and sink failures) executed on the real TopicHandshakeInitiator/Acceptor<Topic>; result, output topic and \
         written messages of both parties compared after every step; non-trivial = at least one fault in the schedule; \
         distinct by schedule",
    );
    for b in &behaviours {
        out.eval();
        let steps = b["steps"].as_array().expect("steps");
        let fail_i = b["failI"].as_u64().expect("failI");
        let fail_a = b["failA"].as_u64().expect("failA");
        let mut w = World::new(b["topic"].as_str().expect("topic"), fail_i, fail_a);
        let mut faulty = fail_i != 0 || fail_a != 0;
        let mut failed = false;
        for (k, s) in steps.iter().enumerate() {
            let d = s["d"].as_str().unwrap_or("-").to_string();
            match s["act"].as_str().expect("act") {
                "RunI" => w.run_i(),
                "RunA" => w.run_a(),
                "Deliver" => {
                    if w.deliver(&d).is_none() {
                        out.violation("C25", "messages-differ-from-spec", format!("step {k}: spec delivers on {d} but the real party wrote nothing"), b.clone());
                        failed = true;
                        break;
                    }
                }
                "Substitute" => {
                    faulty = true;
                    if !w.substitute(&d, &s["m"]) {
                        out.violation("C25", "messages-differ-from-spec", format!("step {k}: spec substitutes on {d} but the real party wrote nothing"), b.clone());
                        failed = true;
                        break;
                    }
                }
                "Truncate" => {
                    faulty = true;
                    w.truncate(&d)
                }
                "Teardown" => w.end_stream(&d),
                other => {
                    eprintln!("unknown action {other}");
                    std::process::exit(2);
                }
            }
            let got = w.obs();
            let want = &s["obs"];
            let mut mismatch = compare_party("initiator", &got["i"], &want["i"], &mut w.ini, &mut out);
            if mismatch.is_none() {
                mismatch = compare_party("acceptor", &got["a"], &want["a"], &mut w.acc, &mut out);
            }
            if let Some((sig, detail)) = mismatch {
                out.violation("C25", &sig, format!("after step {k} ({}): {detail}", s["act"]), b.clone());
                failed = true;
                break;
            }
        }
        if faulty {
            out.mark_distinct(steps.iter().map(|s| format!("{}{}{}", s["act"].as_str().unwrap(), s["d"].as_str().unwrap(), s["m"]["k"].as_str().unwrap_or(""))).collect::<Vec<_>>().join(",") + &format!("|{}|{fail_i}|{fail_a}", b["topic"]));
        }
        if !failed {
            out.count(&format!("end_i_{}_a_{}", w.ini.res(), w.acc.res()));
            out.sample(b.clone());
        }
    }
    out.write(args);
}

fn record(args: &Args) {
    let mut rng = Rng::new(args.seed);
    let n = if args.n > 0 { args.n } else { 200 };
    let mut trace = TraceWriter::create(args.out.as_ref().expect("--out"));
    let mut out = Outcome::new(
        args,
        "seeded random schedules on the real handshake parties (random topic of 10, random sink-failure positions, at every \
         step a random enabled action incl. substitution/truncation with probability 1/6 each); one event per action with both \
         parties' observables; distinct by run",
    );
    let kinds = ["Done", "Bad", "Topic"];
    for run in 0..n {
        out.eval();
        let topic = format!("t{}", rng.below(10));
        let fail_i = if rng.chance(1, 6) { rng.range(1, 3) } else { 0 };
        let fail_a = if rng.chance(1, 6) { rng.range(1, 2) } else { 0 };
        let mut w = World::new(&topic, fail_i, fail_a);
        trace.event(json!({"ev": "Reset", "run": run, "topic": topic, "failI": fail_i, "failA": fail_a}));
        let mut steps = 0;
        loop {
            steps += 1;
            if steps > 60 {
                break;
            }
            // enabled actions, mirroring the guards of the spec
            let mut enabled: Vec<(&str, &str)> = vec![];
            if w.ini.result.is_none() && w.dirty_i {
                enabled.push(("RunI", "-"));
            }
            if w.acc.result.is_none() && w.dirty_a {
                enabled.push(("RunA", "-"));
            }
            for d in ["ia", "ai"] {
                let (flight_len, cut, recv_eos, sender_done) = if d == "ia" {
                    (w.flight_ia.len(), w.cut_ia, w.eos_to_acc, w.ini.result.is_some())
                } else {
                    (w.flight_ai.len(), w.cut_ai, w.eos_to_ini, w.acc.result.is_some())
                };
                if flight_len > 0 {
                    enabled.push(("Deliver", d));
                    enabled.push(("Deliver", d));
                    enabled.push(("Deliver", d));
                    enabled.push(("Deliver", d));
                    enabled.push(("Substitute", d));
                }
                if !cut && !recv_eos && rng.chance(1, 6) {
                    enabled.push(("Truncate", d));
                }
                if sender_done && flight_len == 0 && !recv_eos {
                    enabled.push(("Teardown", d));
                }
            }
            if enabled.is_empty() {
                break;
            }
            let (act, d) = *rng.pick(&enabled);
            let mut ev = json!({"ev": act, "d": d});
            match act {
                "RunI" => w.run_i(),
                "RunA" => w.run_a(),
                "Deliver" => {
                    let m = w.deliver(d).expect("flight non-empty");
                    ev["m"] = w.names.msg_json(&m);
                }
                "Substitute" => {
                    let head_msg = w.flight(d).front().expect("flight non-empty").clone();
                    let head = w.names.msg_json(&head_msg);
                    // any message other than the one in flight
                    let m = loop {
                        let k = *rng.pick(&kinds);
                        let t = if k == "Topic" { format!("t{}", rng.below(10)) } else { "-".to_string() };
                        let m = json!({"k": k, "t": t});
                        if m != head {
                            break m;
                        }
                    };
                    w.substitute(d, &m);
                    ev["m"] = m;
                }
                "Truncate" => w.truncate(d),
                "Teardown" => w.end_stream(d),
                _ => unreachable!(),
            }
            let obs = w.obs();
            ev["i"] = obs["i"].clone();
            ev["a"] = obs["a"].clone();
            trace.event(ev);
            for (who, p) in [("initiator", &w.ini), ("acceptor", &w.acc)] {
                if let Some(msg) = &p.panicked {
                    out.violation("C25", &format!("{who}-panics"), msg.clone(), json!({"run": run, "seed": args.seed}));
                }
            }
            if w.ini.panicked.is_some() || w.acc.panicked.is_some() {
                break;
            }
        }
        // quiescent: nobody may be left pending (hang) - reported here, and the trace spec's
        // NoHang invariant sees the same state
        for (who, p) in [("initiator", &mut w.ini), ("acceptor", &mut w.acc)] {
            if p.result.is_none() && p.panicked.is_none() && steps <= 60 && World::confirm_hang(p) {
                out.violation("C25", &format!("{who}-hangs"), format!("run {run}: quiescent but {who} still pending"), json!({"run": run, "seed": args.seed}));
            }
        }
        out.mark_distinct(format!("{run}"));
        out.count(&format!("end_i_{}_a_{}", w.ini.res(), w.acc.res()));
        if run < 2 {
            out.sample(json!({"run": run, "topic": topic, "failI": fail_i, "failA": fail_a, "final": w.obs()}));
        }
    }
    let (events, runs) = trace.finish();
    out.set_trace(events, runs);
    out.write(args);
}
