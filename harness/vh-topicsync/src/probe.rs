//! `ProbeStore`: the real `SqliteStore` behind a delegating wrapper that counts the store calls
//! currently in flight. The harness polls session futures by hand; a future that returns
//! `Pending` while a store call is in flight is waiting for SQLite (poll again), one that returns
//! `Pending` with no store call in flight is blocked on the inputs the harness controls.
use std::collections::BTreeMap;
use std::sync::Arc;
use std::sync::atomic::{AtomicBool, AtomicUsize, Ordering};

use p2panda_core::{Hash, Operation, SeqNum, Topic, VerifyingKey};
use p2panda_store::SqliteStore;
use p2panda_store::logs::LogStore;
use p2panda_store::topics::TopicStore;

pub type Ext = usize;
pub type LogId = usize;
type Op = Operation<Ext>;
type Err = <SqliteStore as LogStore<Op, VerifyingKey, LogId, SeqNum, Hash>>::Error;
type TErr = <SqliteStore as TopicStore<Topic, VerifyingKey, LogId>>::Error;

#[derive(Clone)]
pub struct ProbeStore {
    pub inner: SqliteStore,
    busy: Arc<AtomicUsize>,
    /// fault injection: `TopicStore::resolve` answers with an error
    fail_resolve: Arc<AtomicBool>,
}

struct Busy(Arc<AtomicUsize>);
impl Busy {
    fn enter(c: &Arc<AtomicUsize>) -> Busy {
        c.fetch_add(1, Ordering::SeqCst);
        Busy(c.clone())
    }
}
impl Drop for Busy {
    fn drop(&mut self) {
        self.0.fetch_sub(1, Ordering::SeqCst);
    }
}

impl ProbeStore {
    pub fn new(inner: SqliteStore) -> Self {
        ProbeStore { inner, busy: Arc::new(AtomicUsize::new(0)), fail_resolve: Arc::new(AtomicBool::new(false)) }
    }
    pub fn set_fail_resolve(&self, on: bool) {
        self.fail_resolve.store(on, Ordering::SeqCst);
    }
    pub fn busy(&self) -> usize {
        self.busy.load(Ordering::SeqCst)
    }
    fn store(&self) -> &SqliteStore {
        &self.inner
    }
}

impl LogStore<Op, VerifyingKey, LogId, SeqNum, Hash> for ProbeStore {
    type Error = Err;

    async fn get_latest_entry(&self, author: &VerifyingKey, log_id: &LogId) -> Result<Option<Op>, Err> {
        let _b = Busy::enter(&self.busy);
        LogStore::<Op, VerifyingKey, LogId, SeqNum, Hash>::get_latest_entry(self.store(), author, log_id).await
    }

    async fn get_latest_entry_tx(&self, author: &VerifyingKey, log_id: &LogId) -> Result<Option<Op>, Err> {
        let _b = Busy::enter(&self.busy);
        LogStore::<Op, VerifyingKey, LogId, SeqNum, Hash>::get_latest_entry_tx(self.store(), author, log_id).await
    }

    async fn get_log_heights(&self, author: &VerifyingKey, logs: &[LogId]) -> Result<Option<BTreeMap<LogId, SeqNum>>, Err> {
        let _b = Busy::enter(&self.busy);
        LogStore::<Op, VerifyingKey, LogId, SeqNum, Hash>::get_log_heights(self.store(), author, logs).await
    }

    async fn get_log_size(
        &self,
        author: &VerifyingKey,
        log_id: &LogId,
        after: Option<SeqNum>,
        until: Option<SeqNum>,
    ) -> Result<Option<(u32, u32)>, Err> {
        let _b = Busy::enter(&self.busy);
        LogStore::<Op, VerifyingKey, LogId, SeqNum, Hash>::get_log_size(self.store(), author, log_id, after, until).await
    }

    async fn get_log_entries(
        &self,
        author: &VerifyingKey,
        log_id: &LogId,
        after: Option<SeqNum>,
        until: Option<SeqNum>,
    ) -> Result<Option<Vec<(Op, Vec<u8>)>>, Err> {
        let _b = Busy::enter(&self.busy);
        LogStore::<Op, VerifyingKey, LogId, SeqNum, Hash>::get_log_entries(self.store(), author, log_id, after, until).await
    }

    async fn prune_entries(&self, author: &VerifyingKey, log_id: &LogId, until: &SeqNum) -> Result<u64, Err> {
        let _b = Busy::enter(&self.busy);
        LogStore::<Op, VerifyingKey, LogId, SeqNum, Hash>::prune_entries(self.store(), author, log_id, until).await
    }
}

impl TopicStore<Topic, VerifyingKey, LogId> for ProbeStore {
    type Error = TErr;

    async fn associate(&self, topic: &Topic, author: &VerifyingKey, data_id: &LogId) -> Result<bool, TErr> {
        let _b = Busy::enter(&self.busy);
        TopicStore::<Topic, VerifyingKey, LogId>::associate(self.store(), topic, author, data_id).await
    }

    async fn remove(&self, topic: &Topic, author: &VerifyingKey, data_id: &LogId) -> Result<bool, TErr> {
        let _b = Busy::enter(&self.busy);
        TopicStore::<Topic, VerifyingKey, LogId>::remove(self.store(), topic, author, data_id).await
    }

    async fn resolve(&self, topic: &Topic) -> Result<BTreeMap<VerifyingKey, Vec<LogId>>, TErr> {
        let _b = Busy::enter(&self.busy);
        if self.fail_resolve.load(Ordering::SeqCst) {
            return Err(TErr::TransactionMissing);
        }
        TopicStore::<Topic, VerifyingKey, LogId>::resolve(self.store(), topic).await
    }
}
