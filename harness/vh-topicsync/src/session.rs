//! Driving real `TopicLogSync` sessions by hand: named operations, message/event projections and
//! `SessionDrv` (one real `run()` future with harness-owned connection ends, polled until it is
//! blocked on its inputs).
use std::collections::HashMap;
use std::future::Future;
use std::pin::Pin;
use std::task::Poll;
use std::time::{Duration, Instant};

use futures_channel::mpsc;
use p2panda_core::{Body, Hash, Header, Operation, SigningKey, Topic};
use p2panda_sync::ToSync;
use p2panda_sync::protocols::{LogSyncMessage, TopicLogSync, TopicLogSyncEvent, TopicLogSyncMessage};
use p2panda_sync::test_utils::create_operation;
use p2panda_sync::traits::Protocol;
use tokio::sync::broadcast;
use vh_common::{Value, catch, json};

use crate::probe::{Ext, LogId, ProbeStore};
use crate::wire::{Inbound, Outbound, SPIN_MARK, count_waker, poll_once};

pub type SyncMsg = TopicLogSyncMessage<LogId, Ext>;
pub type SyncEvt = TopicLogSyncEvent<Ext>;
pub type Session = TopicLogSync<Topic, ProbeStore, LogId, Ext>;
pub type Op = Operation<Ext>;

pub fn topic_of(name: &str) -> Topic {
    Topic::from(Hash::digest(format!("topic:{name}").as_bytes()))
}

pub fn key_of(name: &str) -> SigningKey {
    SigningKey::from_bytes(Hash::digest(format!("key:{name}").as_bytes()).as_bytes())
}

/// Real signed operations behind the abstract names of the specification.
pub struct Ops {
    by_name: HashMap<String, (Op, Vec<u8>)>,
    by_hash: HashMap<Hash, String>,
}

impl Ops {
    pub fn new() -> Ops {
        Ops { by_name: HashMap::new(), by_hash: HashMap::new() }
    }

    pub fn register(&mut self, name: &str, header: Header<Ext>, header_bytes: Vec<u8>, body: Body) {
        let hash = header.hash();
        self.by_hash.insert(hash, name.to_string());
        self.by_name.insert(name.to_string(), (Operation { hash, header, body: Some(body) }, header_bytes));
    }

    /// Any name that is not registered yet becomes the first operation of an author of its own.
    pub fn get(&mut self, name: &str) -> (Op, Vec<u8>) {
        if !self.by_name.contains_key(name) {
            let body = Body::new(format!("body of {name}").as_bytes());
            let (header, bytes) = create_operation(&key_of(name), &body, 0, None, 0);
            self.register(name, header, bytes, body);
        }
        self.by_name[name].clone()
    }

    pub fn name(&self, hash: &Hash) -> String {
        self.by_hash.get(hash).cloned().unwrap_or_else(|| format!("?{}", hash.to_hex()))
    }

    /// specification message -> item of the session's inbound stream
    pub fn item(&mut self, m: &Value) -> Result<SyncMsg, String> {
        let x = m["x"].as_str().unwrap_or("-");
        Ok(match m["k"].as_str().expect("k") {
            "Have" => SyncMsg::Sync(LogSyncMessage::Have(Default::default())),
            "PreSync" => SyncMsg::Sync(LogSyncMessage::PreSync { total_operations: 1, total_bytes: 1 }),
            "Done" => SyncMsg::Sync(LogSyncMessage::Done),
            "Op" => {
                let (op, bytes) = self.get(x);
                SyncMsg::Sync(LogSyncMessage::Operation(bytes, op.body.map(|b| b.to_bytes())))
            }
            "Live" => {
                let (op, _) = self.get(x);
                SyncMsg::Live(op.header, op.body)
            }
            "Close" => SyncMsg::Close,
            "Bad" => return Err("undecodable frame".to_string()),
            other => panic!("unknown message kind {other}"),
        })
    }

    pub fn to_sync(&mut self, it: &Value) -> ToSync<Op> {
        match it["k"].as_str().expect("k") {
            "Payload" => ToSync::Payload(self.get(it["x"].as_str().expect("x")).0),
            "Close" => ToSync::Close,
            other => panic!("unknown live item {other}"),
        }
    }

    pub fn msg_json(&self, m: &SyncMsg) -> Value {
        match m {
            SyncMsg::Sync(LogSyncMessage::Have(_)) => json!({"k": "Have", "x": "-"}),
            SyncMsg::Sync(LogSyncMessage::PreSync { .. }) => json!({"k": "PreSync", "x": "-"}),
            SyncMsg::Sync(LogSyncMessage::Done) => json!({"k": "Done", "x": "-"}),
            SyncMsg::Sync(LogSyncMessage::Operation(bytes, _)) => {
                let name = p2panda_core::cbor::decode_cbor::<Header<Ext>, _>(&bytes[..])
                    .map(|h| self.name(&h.hash()))
                    .unwrap_or_else(|_| "?undecodable".into());
                json!({"k": "Op", "x": name})
            }
            SyncMsg::Live(header, _) => json!({"k": "Live", "x": self.name(&header.hash())}),
            SyncMsg::Close => json!({"k": "Close", "x": "-"}),
        }
    }

    pub fn evt_json(&self, e: &SyncEvt) -> Value {
        match e {
            TopicLogSyncEvent::SessionStarted => json!({"e": "SessionStarted", "x": "-"}),
            TopicLogSyncEvent::SyncStarted { .. } => json!({"e": "SyncStarted", "x": "-"}),
            TopicLogSyncEvent::SyncFinished { .. } => json!({"e": "SyncFinished", "x": "-"}),
            TopicLogSyncEvent::LiveModeStarted => json!({"e": "LiveModeStarted", "x": "-"}),
            TopicLogSyncEvent::OperationReceived { operation, .. } => json!({"e": "Op", "x": self.name(&operation.hash)}),
            TopicLogSyncEvent::SessionFinished { .. } => json!({"e": "SessionFinished", "x": "-"}),
            TopicLogSyncEvent::Failed { .. } => json!({"e": "Failed", "x": "-"}),
        }
    }
}

type SessionFut = Pin<Box<dyn Future<Output = Result<(), String>>>>;

/// One real session with its connection ends.
pub struct SessionDrv {
    fut: Option<SessionFut>,
    pub result: Option<Result<(), String>>,
    pub spun: bool,
    pub panicked: Option<String>,
    pub out: Outbound<SyncMsg>,
    pub inb: Inbound<SyncMsg>,
    events_rx: broadcast::Receiver<SyncEvt>,
    pub events: Vec<SyncEvt>,
    pub live_tx: Option<mpsc::Sender<ToSync<Op>>>,
    store: ProbeStore,
    /// observables before these offsets belong to the set-up phase and are not reported
    pub sent_offset: usize,
    pub ev_offset: usize,
    /// the harness gave up waiting for the store (tool problem, not a verdict)
    pub stalled: bool,
}

impl SessionDrv {
    pub fn new(
        session: Session,
        events_rx: broadcast::Receiver<SyncEvt>,
        live_tx: Option<mpsc::Sender<ToSync<Op>>>,
        store: ProbeStore,
        fail_at: u64,
    ) -> SessionDrv {
        let out = Outbound::<SyncMsg>::new(fail_at);
        let inb = Inbound::<SyncMsg>::new();
        let (mut sink, mut stream) = (out.clone(), inb.clone());
        let fut: SessionFut = Box::pin(async move { session.run(&mut sink, &mut stream).await.map_err(|e| format!("{e:?}")) });
        SessionDrv {
            fut: Some(fut),
            result: None,
            spun: false,
            panicked: None,
            out,
            inb,
            events_rx,
            events: vec![],
            live_tx,
            store,
            sent_offset: 0,
            ev_offset: 0,
            stalled: false,
        }
    }

    pub fn over(&self) -> bool {
        self.result.is_some() || self.spun || self.panicked.is_some()
    }

    /// Polls the real future until it has returned or is blocked on the inputs the harness
    /// controls (pending, no store call in flight, not woken). Returns the number of polls.
    pub fn run_until_blocked(&mut self) -> u64 {
        let mut polls = 0;
        let started = Instant::now();
        while !self.over() {
            let Some(fut) = self.fut.as_mut() else { break };
            let (cw, waker) = count_waker();
            self.inb.begin_poll();
            polls += 1;
            match catch(|| poll_once(fut, &waker)) {
                Ok(Poll::Ready(r)) => {
                    self.result = Some(r);
                    self.fut = None; // drops the session (its live-mode receiver, its event sender)
                }
                Ok(Poll::Pending) => {
                    let woken = cw.0.load(std::sync::atomic::Ordering::SeqCst) > 0;
                    if self.store.busy() == 0 && !woken {
                        break;
                    }
                    if started.elapsed() > Duration::from_secs(60) {
                        self.stalled = true;
                        break;
                    }
                    if !woken {
                        std::thread::sleep(Duration::from_micros(50));
                    }
                }
                Err(p) => {
                    if p.contains(SPIN_MARK) {
                        self.spun = true;
                    } else {
                        self.panicked = Some(p);
                    }
                    // the future is poisoned by the unwind: never poll it again; leak it instead of
                    // dropping half-unwound state
                    if let Some(f) = self.fut.take() {
                        std::mem::forget(f);
                    }
                }
            }
        }
        self.drain_events();
        polls
    }

    pub fn drain_events(&mut self) {
        loop {
            match self.events_rx.try_recv() {
                Ok(e) => self.events.push(e),
                Err(broadcast::error::TryRecvError::Lagged(_)) => continue,
                Err(_) => break,
            }
        }
    }

    pub fn res(&self) -> &'static str {
        if self.spun {
            return "spin";
        }
        match &self.result {
            None => "run",
            Some(Ok(())) => "ok",
            Some(Err(_)) => "err",
        }
    }

    pub fn give_live(&mut self, item: ToSync<Op>) -> bool {
        match self.live_tx.as_mut() {
            Some(tx) => tx.try_send(item).is_ok(),
            None => false,
        }
    }

    pub fn obs(&self, ops: &Ops) -> Value {
        let sent = self.out.sent();
        json!({
            "res": self.res(),
            "sent": sent[self.sent_offset.min(sent.len())..].iter().map(|m| ops.msg_json(m)).collect::<Vec<_>>(),
            "ev": self.events[self.ev_offset.min(self.events.len())..].iter().map(|e| ops.evt_json(e)).collect::<Vec<_>>(),
        })
    }

    /// Marks everything observed so far as set-up.
    pub fn mark_setup_done(&mut self) {
        self.sent_offset = self.out.sent().len();
        self.ev_offset = self.events.len();
    }
}

/// The documented lifecycle as an automaton over event kinds (same table as `LcNext` in
/// TopicSync.tla). `skip_session_started`: start in S1 when the first event is not SessionStarted.
pub fn lifecycle_state(events: &[Value], tolerate_missing_start: bool) -> &'static str {
    let mut st = "S0";
    for (k, e) in events.iter().enumerate() {
        let kind = e["e"].as_str().unwrap_or("?");
        if k == 0 && tolerate_missing_start && kind != "SessionStarted" {
            st = "S1";
        }
        st = match (st, kind) {
            ("S0", "SessionStarted") => "S1",
            ("S1", "SyncStarted") => "S2",
            ("S2", "Op") => "S2",
            ("S2", "SyncFinished") => "S3",
            ("S3", "LiveModeStarted") => "S4",
            ("S4", "Op") => "S4",
            ("S3" | "S4", "SessionFinished") => "T",
            ("S1" | "S2" | "S3" | "S4", "Failed") => "T",
            _ => "dead",
        };
        if st == "dead" {
            break;
        }
    }
    st
}
