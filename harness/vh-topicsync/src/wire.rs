//! Harness-owned in-memory connection ends (leaf collaborators of the protocols under test).
//!
//! * `Outbound<M>`: a `Sink<M>` that appends to a queue the harness drains ("in flight"), never
//!   returns `Pending`, counts the operations performed on it (send / explicit flush / close) and
//!   fails from the configured operation on (fault injection driven by the TLC behaviour).
//! * `Inbound<M>`: a `Stream<Item = Result<M, String>>` fed by the harness; `Pending` while the
//!   inbox is empty and the stream is open, `None` once it was ended. It counts polls after
//!   end-of-stream inside one task poll: a consumer that keeps polling an ended stream without
//!   ever yielding (busy spin) is turned into a panic (`SPIN_MARK`) instead of hanging the harness
//!   - a deterministic judgement, no clock involved.
//! * `poll_once`: polls a future exactly once with a waker that records whether it was woken.
use std::collections::VecDeque;
use std::future::Future;
use std::pin::Pin;
use std::sync::atomic::{AtomicU64, Ordering};
use std::sync::{Arc, Mutex};
use std::task::{Context, Poll, Wake, Waker};

use futures_util::{Sink, Stream};

pub const SPIN_MARK: &str = "VERIF-SPIN";
pub const SPIN_LIMIT: u64 = 100_000;

#[derive(Debug)]
pub struct OutState<M> {
    /// written by the protocol, not yet taken by the harness
    pub flight: VecDeque<M>,
    /// everything ever written (history)
    pub sent: Vec<M>,
    /// operations so far: each send, each explicit flush, each close
    pub ops: u64,
    /// the operation that fails (0 = never); once failed the sink stays broken
    pub fail_at: u64,
    pub broken: bool,
    pub closed: bool,
    dirty: bool,
    ready_reserved: bool,
}

pub struct Outbound<M>(pub Arc<Mutex<OutState<M>>>);

impl<M> Clone for Outbound<M> {
    fn clone(&self) -> Self {
        Outbound(self.0.clone())
    }
}

impl<M: Clone> Outbound<M> {
    pub fn new(fail_at: u64) -> Self {
        Outbound(Arc::new(Mutex::new(OutState {
            flight: VecDeque::new(),
            sent: Vec::new(),
            ops: 0,
            fail_at,
            broken: false,
            closed: false,
            dirty: false,
            ready_reserved: false,
        })))
    }

    pub fn take_flight(&self) -> Vec<M> {
        self.0.lock().unwrap().flight.drain(..).collect()
    }

    pub fn sent(&self) -> Vec<M> {
        self.0.lock().unwrap().sent.clone()
    }

    pub fn ops(&self) -> u64 {
        self.0.lock().unwrap().ops
    }

    pub fn closed(&self) -> bool {
        self.0.lock().unwrap().closed
    }

    pub fn broken(&self) -> bool {
        self.0.lock().unwrap().broken
    }
}

impl<M: Clone> Sink<M> for Outbound<M> {
    type Error = String;

    fn poll_ready(self: Pin<&mut Self>, _cx: &mut Context<'_>) -> Poll<Result<(), String>> {
        let mut s = self.0.lock().unwrap();
        if s.broken {
            return Poll::Ready(Err("sink broken".into()));
        }
        if s.closed {
            return Poll::Ready(Err("sink closed".into()));
        }
        if !s.ready_reserved {
            // this poll_ready opens the next send operation
            if s.fail_at != 0 && s.ops + 1 == s.fail_at {
                s.ops += 1;
                s.broken = true;
                return Poll::Ready(Err(format!("injected failure at sink operation {}", s.ops)));
            }
            s.ready_reserved = true;
        }
        Poll::Ready(Ok(()))
    }

    fn start_send(self: Pin<&mut Self>, item: M) -> Result<(), String> {
        let mut s = self.0.lock().unwrap();
        if s.broken || s.closed {
            return Err("sink broken".into());
        }
        s.ready_reserved = false;
        s.ops += 1;
        s.flight.push_back(item.clone());
        s.sent.push(item);
        s.dirty = true;
        Ok(())
    }

    fn poll_flush(self: Pin<&mut Self>, _cx: &mut Context<'_>) -> Poll<Result<(), String>> {
        let mut s = self.0.lock().unwrap();
        if s.broken {
            return Poll::Ready(Err("sink broken".into()));
        }
        if s.dirty {
            // the flush that belongs to a `send`
            s.dirty = false;
            return Poll::Ready(Ok(()));
        }
        // explicit flush: an operation of its own
        s.ops += 1;
        if s.fail_at != 0 && s.ops == s.fail_at {
            s.broken = true;
            return Poll::Ready(Err(format!("injected failure at sink operation {}", s.ops)));
        }
        Poll::Ready(Ok(()))
    }

    fn poll_close(self: Pin<&mut Self>, _cx: &mut Context<'_>) -> Poll<Result<(), String>> {
        let mut s = self.0.lock().unwrap();
        if s.broken {
            return Poll::Ready(Err("sink broken".into()));
        }
        s.dirty = false;
        s.ops += 1;
        if s.fail_at != 0 && s.ops == s.fail_at {
            s.broken = true;
            return Poll::Ready(Err(format!("injected failure at sink operation {}", s.ops)));
        }
        s.closed = true;
        Poll::Ready(Ok(()))
    }
}

#[derive(Debug)]
pub struct InState<M> {
    pub inbox: VecDeque<Result<M, String>>,
    pub eos: bool,
    /// items handed to the consumer so far
    pub consumed: u64,
    /// the consumer has been told `None`
    pub saw_end: bool,
    polls_after_end: u64,
    waker: Option<Waker>,
}

pub struct Inbound<M>(pub Arc<Mutex<InState<M>>>);

impl<M> Clone for Inbound<M> {
    fn clone(&self) -> Self {
        Inbound(self.0.clone())
    }
}

impl<M> Inbound<M> {
    pub fn new() -> Self {
        Inbound(Arc::new(Mutex::new(InState {
            inbox: VecDeque::new(),
            eos: false,
            consumed: 0,
            saw_end: false,
            polls_after_end: 0,
            waker: None,
        })))
    }

    pub fn give(&self, item: Result<M, String>) {
        let mut s = self.0.lock().unwrap();
        s.inbox.push_back(item);
        if let Some(w) = s.waker.take() {
            w.wake();
        }
    }

    pub fn end(&self) {
        let mut s = self.0.lock().unwrap();
        s.eos = true;
        if let Some(w) = s.waker.take() {
            w.wake();
        }
    }

    pub fn pending_items(&self) -> usize {
        self.0.lock().unwrap().inbox.len()
    }

    pub fn consumed(&self) -> u64 {
        self.0.lock().unwrap().consumed
    }

    /// Called by the harness before each poll of the consuming task.
    pub fn begin_poll(&self) {
        self.0.lock().unwrap().polls_after_end = 0;
    }
}

impl<M> Stream for Inbound<M> {
    type Item = Result<M, String>;

    fn poll_next(self: Pin<&mut Self>, cx: &mut Context<'_>) -> Poll<Option<Self::Item>> {
        let mut s = self.0.lock().unwrap();
        if let Some(item) = s.inbox.pop_front() {
            s.consumed += 1;
            return Poll::Ready(Some(item));
        }
        if s.eos {
            s.saw_end = true;
            s.polls_after_end += 1;
            if s.polls_after_end > SPIN_LIMIT {
                drop(s);
                panic!("{SPIN_MARK}: ended stream polled more than {SPIN_LIMIT} times inside one task poll (busy spin, the task never yields)");
            }
            return Poll::Ready(None);
        }
        s.waker = Some(cx.waker().clone());
        Poll::Pending
    }
}

/// Waker that counts wake-ups.
pub struct CountWaker(pub AtomicU64);

impl Wake for CountWaker {
    fn wake(self: Arc<Self>) {
        self.0.fetch_add(1, Ordering::SeqCst);
    }
    fn wake_by_ref(self: &Arc<Self>) {
        self.0.fetch_add(1, Ordering::SeqCst);
    }
}

pub fn count_waker() -> (Arc<CountWaker>, Waker) {
    let cw = Arc::new(CountWaker(AtomicU64::new(0)));
    let waker = Waker::from(cw.clone());
    (cw, waker)
}

/// Polls `fut` exactly once.
pub fn poll_once<T>(fut: &mut Pin<Box<dyn Future<Output = T> + '_>>, waker: &Waker) -> Poll<T> {
    let mut cx = Context::from_waker(waker);
    fut.as_mut().poll(&mut cx)
}
