//! Conformance harness binary `vh-topicsync`: one module per TLA+ specification (see /verif/spec).
mod topicsync;
mod wire;
mod probe;
mod session;
mod dedup;
mod handshake;

fn main() {
    let args = vh_common::Args::parse();
    vh_common::quiet_panics();
    match args.module.as_str() {
        "topicsync" => topicsync::run(&args),
        "dedup" => dedup::run(&args),
        "handshake" => handshake::run(&args),
        _ => vh_common::unknown(&args),
    }
}
