//! Conformance harness binary `vh-ephemeral`: one module per TLA+ specification (see /verif/spec).
mod ephemeral;

fn main() {
    let args = vh_common::Args::parse();
    vh_common::quiet_panics();
    match args.module.as_str() {
        "ephemeral" => ephemeral::run(&args),
        _ => vh_common::unknown(&args),
    }
}
