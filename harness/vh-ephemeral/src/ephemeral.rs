//! Ephemeral (C17, tampering half of C16): the real `EphemeralStreamSubscription` /
//! `EphemeralStreamPublisher` of p2panda over a real `GossipHandle`, against spec/Ephemeral.
//!
//! No network: a harness-owned probe actor stands in for the gossip manager and answers
//! `ToGossipManager::Subscribe` with channels the harness created (hook `Gossip::verif_new`), so
//! `Gossip::stream` returns a real `GossipHandle` whose broadcast sender (network -> subscription)
//! and mpsc receiver (publisher -> network) the harness holds. The streams are built by
//! `p2panda::verif_api::verif_ephemeral_stream` (the crate-private `ephemeral_stream`).
//!
//! The subscription is polled BY HAND with a counting waker, and only the way an executor would
//! poll a task `while let Some(m) = rx.next().await {..}`: first once, again after a yielded
//! item, otherwise only after the waker was woken. All polling happens outside a tokio task so
//! that tokio's cooperative budget never interferes. Production clock (this package does not
//! enable `p2panda-core/test_utils`).
//!
//! Bytes: every item class of the specification is concretised from bytes the REAL publisher
//! produced (captured on the mpsc side), modified field by field through their CBOR form.
use std::collections::{BTreeMap, BTreeSet};
use std::future::Future;
use std::pin::Pin;
use std::sync::Arc;
use std::sync::atomic::{AtomicBool, AtomicU64, Ordering};
use std::task::{Context, Poll, Wake, Waker};

use ciborium::Value as Cbor;
use futures_util::Stream;
use p2panda::streams::{EphemeralMessage, EphemeralStreamPublisher, EphemeralStreamSubscription};
use p2panda::verif_api::{OperationForge, verif_ephemeral_stream};
use p2panda_core::{SigningKey, Topic, VerifyingKey};
use p2panda_net::AddressBook;
use p2panda_net::gossip::{Gossip, GossipConfig, ToGossipManager};
use p2panda_store::SqliteStore;
use ractor::{Actor, ActorProcessingErr, ActorRef};
use tokio::runtime::Runtime;
use tokio::sync::{broadcast, mpsc};
use vh_common::{Args, Outcome, Rng, TraceWriter, Value, catch, json, read_ndjson, unknown};

pub fn run(args: &Args) {
    match args.mode.as_str() {
        "replay" => replay(args),
        "record" => record(args),
        _ => unknown(args),
    }
}

// ------------------------------------------------------------------------------------------------
// rig: real gossip handle + ephemeral stream over harness-owned channels

type Channels = (mpsc::Sender<Vec<u8>>, broadcast::Sender<Vec<u8>>);

/// Stand-in for the gossip manager actor: answers the (one) `Subscribe` with the prepared channels
/// and keeps no clone of them, so that the harness controls when the last sender goes away.
struct Probe;

impl Actor for Probe {
    type Msg = ToGossipManager;
    type State = Option<Channels>;
    type Arguments = Channels;

    async fn pre_start(&self, _me: ActorRef<Self::Msg>, args: Channels) -> Result<Self::State, ActorProcessingErr> {
        Ok(Some(args))
    }

    async fn handle(
        &self,
        _me: ActorRef<Self::Msg>,
        message: Self::Msg,
        state: &mut Self::State,
    ) -> Result<(), ActorProcessingErr> {
        if let ToGossipManager::Subscribe(_topic, _nodes, reply) = message
            && let Some(channels) = state.take()
        {
            let _ = reply.send(channels);
        }
        Ok(())
    }
}

pub struct Env {
    rt: Runtime,
    address_book: AddressBook,
    store: SqliteStore,
    topics: AtomicU64,
}

impl Env {
    pub fn new() -> Env {
        let rt = tokio::runtime::Builder::new_current_thread().enable_all().build().expect("runtime");
        let (address_book, store) = rt.block_on(async {
            (
                AddressBook::builder().spawn().await.expect("address book"),
                SqliteStore::temporary().await,
            )
        });
        Env { rt, address_book, store, topics: AtomicU64::new(1) }
    }

    /// A fresh topic with its own probe, `Gossip`, handle, publisher and subscription.
    pub fn stream(&self, key: &SigningKey, cap: usize) -> EphStream {
        let n = self.topics.fetch_add(1, Ordering::SeqCst);
        let mut t = [0u8; 32];
        t[..8].copy_from_slice(&n.to_be_bytes());
        let topic = Topic::from(t);
        let (to_tx, to_rx) = mpsc::channel::<Vec<u8>>(1024);
        let (from_tx, from_rx0) = broadcast::channel::<Vec<u8>>(cap);
        drop(from_rx0);
        let forge = OperationForge::from_signing_key(key.clone(), self.store.clone());
        let (gossip, publisher, sub) = self.rt.block_on(async {
            let (actor, _join) = Actor::spawn(None, Probe, (to_tx, from_tx.clone())).await.expect("spawn probe");
            let gossip = Gossip::verif_new(actor, key.verifying_key(), self.address_book.clone(), GossipConfig::default());
            let handle = gossip.stream(topic).await.expect("gossip stream");
            let (publisher, sub) = verif_ephemeral_stream::<String>(topic, forge, handle);
            (gossip, publisher, sub)
        });
        EphStream {
            topic,
            gossip: Some(gossip),
            publisher: Some(publisher),
            sub: Box::pin(sub),
            from_tx: Some(from_tx),
            to_rx,
            flag: Arc::new(WakeFlag::default()),
            woken_by_env: false,
            done: false,
        }
    }
}

#[derive(Default)]
pub struct WakeFlag {
    woken: AtomicBool,
    count: AtomicU64,
}

impl Wake for WakeFlag {
    fn wake(self: Arc<Self>) {
        self.wake_by_ref()
    }
    fn wake_by_ref(self: &Arc<Self>) {
        self.woken.store(true, Ordering::SeqCst);
        self.count.fetch_add(1, Ordering::SeqCst);
    }
}

pub enum Turn {
    Yield(EphemeralMessage<String>),
    Parked,
    Done,
    /// poll_next kept returning Pending while waking itself (never seen; guards the harness loop)
    Spinning,
}

pub struct EphStream {
    pub topic: Topic,
    gossip: Option<Gossip>,
    publisher: Option<EphemeralStreamPublisher<String>>,
    sub: Pin<Box<EphemeralStreamSubscription<String>>>,
    from_tx: Option<broadcast::Sender<Vec<u8>>>,
    to_rx: mpsc::Receiver<Vec<u8>>,
    flag: Arc<WakeFlag>,
    woken_by_env: bool,
    pub done: bool,
}

impl EphStream {
    /// The real publisher signs and publishes `body`; returns the bytes it handed to gossip.
    pub fn publish(&mut self, env: &Env, body: &str) -> Vec<u8> {
        let publisher = self.publisher.as_ref().expect("publisher alive");
        env.rt.block_on(publisher.publish(body.to_string())).expect("publish");
        self.to_rx.try_recv().expect("published bytes on the gossip channel")
    }

    /// The network delivers `bytes` to the subscription. Returns whether the task was woken.
    pub fn send(&mut self, bytes: Vec<u8>) -> bool {
        let before = self.flag.count.load(Ordering::SeqCst);
        let _ = self.from_tx.as_ref().expect("not closed").send(bytes);
        self.flag.count.load(Ordering::SeqCst) > before
    }

    /// Every sender of the broadcast channel is dropped.
    pub fn close(&mut self) -> bool {
        let before = self.flag.count.load(Ordering::SeqCst);
        self.publisher = None; // GossipHandle (holds a sender)
        self.gossip = None; // `senders` map of the Gossip API object
        self.from_tx = None;
        self.flag.count.load(Ordering::SeqCst) > before
    }

    pub fn closed(&self) -> bool {
        self.from_tx.is_none()
    }

    /// Hands the subscription to a real executor; the rest keeps the channel open.
    #[allow(clippy::type_complexity)]
    pub fn into_parts(
        self,
    ) -> (Pin<Box<EphemeralStreamSubscription<String>>>, broadcast::Sender<Vec<u8>>, (Option<Gossip>, Option<EphemeralStreamPublisher<String>>)) {
        (self.sub, self.from_tx.expect("open"), (self.gossip, self.publisher))
    }

    /// Would an executor poll the task now?
    pub fn runnable(&self) -> bool {
        !self.done && (self.woken_by_env || self.flag.woken.load(Ordering::SeqCst))
    }

    pub fn mark_spawned(&mut self) {
        self.woken_by_env = true; // a freshly spawned task is polled once
    }

    /// One call of the real `poll_next` with the counting waker.
    pub fn poll_once(&mut self) -> Poll<Option<EphemeralMessage<String>>> {
        self.woken_by_env = false;
        self.flag.woken.store(false, Ordering::SeqCst);
        let waker = Waker::from(self.flag.clone());
        let mut cx = Context::from_waker(&waker);
        let r = self.sub.as_mut().poll_next(&mut cx);
        match &r {
            Poll::Ready(Some(_)) => self.woken_by_env = true, // the consumer loop calls next() again
            Poll::Ready(None) => self.done = true,
            Poll::Pending => {}
        }
        r
    }

    /// One executor turn of the consumer task: poll; while the call returns Pending but woke its own
    /// waker, poll again. Ends with an item, the end of the stream, or the task parked.
    pub fn turn(&mut self) -> Turn {
        for _ in 0..100_000 {
            match self.poll_once() {
                Poll::Ready(Some(m)) => return Turn::Yield(m),
                Poll::Ready(None) => return Turn::Done,
                Poll::Pending => {
                    if !self.flag.woken.load(Ordering::SeqCst) {
                        return Turn::Parked;
                    }
                }
            }
        }
        Turn::Spinning
    }
}

// ------------------------------------------------------------------------------------------------
// byte-level concretisation of the item classes

fn cbor_fields(bytes: &[u8]) -> Vec<Cbor> {
    match ciborium::from_reader::<Cbor, _>(bytes).expect("publisher bytes are CBOR") {
        Cbor::Array(v) => v,
        other => panic!("publisher bytes are not a CBOR array: {other:?}"),
    }
}

fn cbor_bytes(v: &Cbor) -> Vec<u8> {
    let mut out = Vec::new();
    ciborium::into_writer(v, &mut out).expect("encode");
    out
}

fn enc(fields: &[Cbor]) -> Vec<u8> {
    cbor_bytes(&Cbor::Array(fields.to_vec()))
}

fn as_u64(v: &Cbor) -> u64 {
    match v {
        Cbor::Integer(i) => u64::try_from(*i).expect("u64"),
        other => panic!("not an integer: {other:?}"),
    }
}

fn as_bytes(v: &Cbor) -> Vec<u8> {
    match v {
        Cbor::Bytes(b) => b.clone(),
        other => panic!("not bytes: {other:?}"),
    }
}

fn flip(bytes: &[u8], bit: usize) -> Vec<u8> {
    let mut b = bytes.to_vec();
    b[bit / 8] ^= 1 << (bit % 8);
    b
}

/// Field indices of the wrapped message tuple (ephemeral_stream.rs:31-40).
const F_VERSION: usize = 0;
const F_KEY: usize = 1;
const F_SIG: usize = 2;
const F_TS: usize = 3;
const F_LOGICAL: usize = 4;
const F_BODY: usize = 5;

/// What the signature covers (ephemeral_stream.rs:141-152): (version, key, timestamp, logical, body).
fn signed_payload(f: &[Cbor]) -> Vec<u8> {
    enc(&[f[F_VERSION].clone(), f[F_KEY].clone(), f[F_TS].clone(), f[F_LOGICAL].clone(), f[F_BODY].clone()])
}

pub struct Mint {
    key_a: SigningKey,
    key_b: SigningKey,
    a: EphStream,
    b: EphStream,
}

/// Who must be reported as author if the item is yielded.
#[derive(Clone, Copy, PartialEq, Eq, Debug)]
pub enum Author {
    A,
    B,
}

pub struct Item {
    pub variant: String,
    pub bytes: Vec<u8>,
}

/// Flips inside the first byte (the CBOR header of the tuple: array of 6). What the decoder makes
/// of a wrong element count is its own business (ciborium accepts a LONGER declared array and
/// ignores the rest; a shorter one or another major type fails); the specification gives no
/// verdict for these, they are judged by the property alone: if something is yielded, it must
/// carry exactly the signed fields.
pub fn header_flips(orig: &[u8]) -> Vec<Item> {
    (0..8).map(|bit| Item { variant: format!("header-bit-{bit}"), bytes: flip(orig, bit) }).collect()
}

impl Mint {
    pub fn new(env: &Env) -> Mint {
        let key_a = SigningKey::from_bytes(&[0xA1; 32]);
        let key_b = SigningKey::from_bytes(&[0xB2; 32]);
        let a = env.stream(&key_a, 4);
        let b = env.stream(&key_b, 4);
        Mint { key_a, key_b, a, b }
    }

    pub fn key(&self, who: Author) -> VerifyingKey {
        match who {
            Author::A => self.key_a.verifying_key(),
            Author::B => self.key_b.verifying_key(),
        }
    }

    pub fn body(id: u64) -> String {
        format!("m{id}: now playing")
    }

    /// All byte-level variants of one item class for the message with id `id`. `limit` caps the
    /// number of bit-flip / prefix variants (None = all).
    pub fn variants(&mut self, env: &Env, cls: &str, id: u64, rng: &mut Rng, limit: Option<usize>) -> (Vec<u8>, Vec<Item>) {
        let body = Mint::body(id);
        let orig = self.a.publish(env, &body);
        let f = cbor_fields(&orig);
        assert_eq!(enc(&f), orig, "harness CBOR re-encoding must be byte-identical for untouched fields");
        let mut out: Vec<Item> = Vec::new();
        let mut push = |name: String, bytes: Vec<u8>| out.push(Item { variant: name, bytes });
        let with = |idx: usize, v: Cbor| {
            let mut g = f.clone();
            g[idx] = v;
            enc(&g)
        };
        let sample = |n: usize, rng: &mut Rng| -> Vec<usize> {
            match limit {
                Some(l) if l < n => {
                    let mut s: BTreeSet<usize> = BTreeSet::new();
                    s.insert(0);
                    s.insert(n - 1);
                    while s.len() < l {
                        s.insert(rng.below(n as u64) as usize);
                    }
                    s.into_iter().collect()
                }
                _ => (0..n).collect(),
            }
        };
        let key_b_bytes = self.key_b.verifying_key().as_bytes().to_vec();
        match cls {
            "intact" => push("as-published".into(), orig.clone()),
            "trailing_bytes" => {
                for extra in [vec![0u8], vec![0xff], b"garbage after the message".to_vec(), orig.clone()] {
                    let mut b = orig.clone();
                    b.extend_from_slice(&extra);
                    push(format!("plus-{}-bytes", extra.len()), b);
                }
                // a seventh array element after the six fields is ignored in the same way
                let mut seven = f.clone();
                seven.push(Cbor::Integer(0u64.into()));
                push("seventh-array-element".into(), enc(&seven));
            }
            "foreign_intact" => {
                let bytes = self.b.publish(env, &body);
                push("published-by-foreign-key".into(), bytes);
                // the foreign key holder copies the publisher's timestamp and body and signs them himself
                let mut g = f.clone();
                g[F_KEY] = Cbor::Bytes(key_b_bytes.clone());
                let sig = self.key_b.sign(&signed_payload(&g));
                g[F_SIG] = Cbor::Bytes(sig.to_bytes().to_vec());
                push("resigned-copy-own-author".into(), enc(&g));
            }
            "flip_version" => {
                for v in [0u64, 2, 3, 255, u64::MAX] {
                    push(format!("version={v}"), with(F_VERSION, Cbor::Integer(v.into())));
                }
            }
            "version2_signed" => {
                for (name, key) in [("own-key", self.key_a.clone()), ("foreign-key", self.key_b.clone())] {
                    let mut g = f.clone();
                    g[F_VERSION] = Cbor::Integer(2u64.into());
                    g[F_KEY] = Cbor::Bytes(key.verifying_key().as_bytes().to_vec());
                    let sig = key.sign(&signed_payload(&g));
                    g[F_SIG] = Cbor::Bytes(sig.to_bytes().to_vec());
                    push(format!("v2-signed-by-{name}"), enc(&g));
                }
            }
            "swap_key" => {
                push("foreign-key".into(), with(F_KEY, Cbor::Bytes(key_b_bytes.clone())));
                push(
                    "fresh-key".into(),
                    with(F_KEY, Cbor::Bytes(SigningKey::from_bytes(&[id as u8 ^ 0x5c; 32]).verifying_key().as_bytes().to_vec())),
                );
                push("all-zero-key".into(), with(F_KEY, Cbor::Bytes(vec![0; 32])));
                push("all-ff-key".into(), with(F_KEY, Cbor::Bytes(vec![0xff; 32])));
                push("short-key".into(), with(F_KEY, Cbor::Bytes(vec![1; 31])));
                let key = as_bytes(&f[F_KEY]);
                for bit in sample(256, rng) {
                    push(format!("key-bit-{bit}"), with(F_KEY, Cbor::Bytes(flip(&key, bit))));
                }
            }
            "flip_sig" => {
                let sig = as_bytes(&f[F_SIG]);
                for bit in sample(512, rng) {
                    push(format!("sig-bit-{bit}"), with(F_SIG, Cbor::Bytes(flip(&sig, bit))));
                }
                push("all-zero-sig".into(), with(F_SIG, Cbor::Bytes(vec![0; 64])));
                push("short-sig".into(), with(F_SIG, Cbor::Bytes(sig[..63].to_vec())));
                // signature of ANOTHER message of the same author
                let other = cbor_fields(&self.a.publish(env, "another message"));
                push("sig-of-other-message".into(), with(F_SIG, other[F_SIG].clone()));
            }
            "flip_ts" => {
                let ts = as_u64(&f[F_TS]);
                for bit in sample(64, rng) {
                    push(format!("ts-bit-{bit}"), with(F_TS, Cbor::Integer((ts ^ (1u64 << bit)).into())));
                }
                for v in [0, ts - 1, ts + 1, u64::MAX] {
                    push(format!("ts={v}"), with(F_TS, Cbor::Integer(v.into())));
                }
            }
            "flip_logical" => {
                let l = as_u64(&f[F_LOGICAL]);
                for bit in sample(64, rng) {
                    push(format!("logical-bit-{bit}"), with(F_LOGICAL, Cbor::Integer((l ^ (1u64 << bit)).into())));
                }
                for v in [l + 1, l + 2, u64::MAX] {
                    push(format!("logical={v}"), with(F_LOGICAL, Cbor::Integer(v.into())));
                }
            }
            "flip_body" => {
                let bb = body.as_bytes();
                for bit in sample(bb.len() * 8, rng) {
                    let flipped = flip(bb, bit);
                    match String::from_utf8(flipped.clone()) {
                        Ok(s) => push(format!("body-bit-{bit}"), with(F_BODY, Cbor::Text(s))),
                        // not UTF-8 any more: only expressible on the raw bytes (decode fails -> rejected too)
                        Err(_) => {
                            let pos = orig.len() - bb.len() + bit / 8;
                            push(format!("body-bit-{bit}-raw"), flip(&orig, pos * 8 + bit % 8));
                        }
                    }
                }
                push("empty-body".into(), with(F_BODY, Cbor::Text(String::new())));
                push("appended".into(), with(F_BODY, Cbor::Text(format!("{body}!"))));
                // body of ANOTHER message of the same author under this message's signature
                push("body-of-other-message".into(), with(F_BODY, Cbor::Text("another message".into())));
            }
            "foreign_sig_keep_author" => {
                // the attack C16 is about: a foreign key signs exactly the fields that name A as author
                let sig = self.key_b.sign(&signed_payload(&f));
                push("same-fields".into(), with(F_SIG, Cbor::Bytes(sig.to_bytes().to_vec())));
                let mut g = f.clone();
                g[F_BODY] = Cbor::Text("forged in A's name".into());
                let sig = self.key_b.sign(&signed_payload(&g));
                g[F_SIG] = Cbor::Bytes(sig.to_bytes().to_vec());
                push("forged-body".into(), enc(&g));
                // a complete foreign message with only the author field swapped back to A
                let mut h = cbor_fields(&self.b.publish(env, &body));
                h[F_KEY] = f[F_KEY].clone();
                push("foreign-message-author-swapped".into(), enc(&h));
            }
            "truncated" => {
                for n in sample(orig.len(), rng) {
                    push(format!("prefix-{n}"), orig[..n].to_vec());
                }
            }
            "garbage" => {
                push("empty".into(), vec![]);
                push("one-byte".into(), vec![0x42]);
                push("random".into(), rng.bytes(orig.len()));
                push("five-fields".into(), enc(&f[..5]));
                push("map".into(), cbor_bytes(&Cbor::Map(vec![(Cbor::Text("version".into()), Cbor::Integer(1u64.into()))])));
                push("text".into(), cbor_bytes(&Cbor::Text("hello".into())));
                push("fields-reordered".into(), enc(&[f[1].clone(), f[0].clone(), f[2].clone(), f[3].clone(), f[4].clone(), f[5].clone()]));
            }
            "wrong_body_type" => {
                push("body-int".into(), with(F_BODY, Cbor::Integer(7u64.into())));
                push("body-bytes".into(), with(F_BODY, Cbor::Bytes(body.as_bytes().to_vec())));
                push("body-array".into(), with(F_BODY, Cbor::Array(vec![Cbor::Text(body.clone())])));
                push("body-null".into(), with(F_BODY, Cbor::Null));
                push("key-as-text".into(), with(F_KEY, Cbor::Text(self.key_a.verifying_key().to_hex())));
                push("ts-as-text".into(), with(F_TS, Cbor::Text("12".into())));
                push("version-negative".into(), with(F_VERSION, Cbor::Integer((-1i64).into())));
            }
            "bitflip_any" => {
                // every bit after the tuple header byte (see `header_flips` for that one)
                for bit in sample(orig.len() * 8 - 8, rng) {
                    push(format!("bit-{}", bit + 8), flip(&orig, bit + 8));
                }
            }
            other => {
                eprintln!("unknown item class {other}");
                std::process::exit(2);
            }
        }
        drop(push);
        (orig, out)
    }

    /// Sanity of the harness's own forging: the signature the harness computes in ITS rendering of
    /// the signed payload with A's key equals the one the real publisher produced.
    pub fn forging_format_is_right(&mut self, env: &Env) -> bool {
        let orig = self.a.publish(env, "format probe");
        let f = cbor_fields(&orig);
        self.key_a.sign(&signed_payload(&f)).to_bytes().to_vec() == as_bytes(&f[F_SIG])
    }

    /// One variant of the class (seeded choice) for use inside a scheduled behaviour.
    pub fn one(&mut self, env: &Env, cls: &str, id: u64, rng: &mut Rng) -> (Vec<u8>, Item) {
        let (orig, mut v) = self.variants(env, cls, id, rng, Some(6));
        let k = rng.below(v.len() as u64) as usize;
        (orig, v.swap_remove(k))
    }
}

fn authentic_author(cls: &str) -> Option<Author> {
    match cls {
        "intact" | "trailing_bytes" => Some(Author::A),
        "foreign_intact" => Some(Author::B),
        _ => None,
    }
}

/// Do the delivered bytes decode (as generic CBOR) to a tuple whose first six fields differ from the
/// original's? (Not decodable, or the same six fields = only the framing was touched.)
fn semantic_change(bytes: &[u8], orig: &[u8]) -> bool {
    match ciborium::from_reader::<Cbor, _>(bytes) {
        Ok(Cbor::Array(f)) if f.len() >= 6 => f[..6] != cbor_fields(orig)[..6],
        _ => false,
    }
}

/// What the harness knows about an item it delivered.
struct Entry {
    cls: String,
    variant: String,
    /// the delivered bytes
    bytes: Vec<u8>,
    /// the bytes publisher A really produced for this id (what the tampering started from)
    orig: Vec<u8>,
}

#[derive(Default)]
struct Ledger {
    items: BTreeMap<u64, Entry>,
}

enum Judged {
    /// the reported author, timestamp and body are those of an authentic delivered item
    Authentic,
    /// a non-authentic CLASS was yielded, but with exactly the fields publisher A signed: the
    /// modification did not touch the message (an encoding variant), nothing forged was yielded
    SameFieldsAsSigned,
    /// C16 broken: (signature, detail)
    Forged(String, String),
}

impl Ledger {
    fn add(&mut self, id: u64, cls: &str, orig: Vec<u8>, item: &Item) {
        self.items.insert(id, Entry { cls: cls.to_string(), variant: item.variant.clone(), bytes: item.bytes.clone(), orig });
    }

    /// Identify a yielded message and judge it on the property's own terms (C16).
    fn judge(&self, mint: &Mint, topic: Topic, m: &EphemeralMessage<String>) -> (u64, Judged) {
        let id = m
            .body()
            .strip_prefix('m')
            .and_then(|r| r.split(':').next())
            .and_then(|n| n.parse::<u64>().ok())
            .unwrap_or(0);
        let Some(e) = self.items.get(&id).filter(|_| *m.body() == Mint::body(id)) else {
            // a body nobody signed; find the item it came from for the report
            return (
                id,
                Judged::Forged(
                    "tampered-message-yielded".into(),
                    format!("yielded author {} ts {} body {:?}: no authentic item carries this body", m.author().to_hex(), m.timestamp(), m.body()),
                ),
            );
        };
        let same = |bytes: &[u8], author: Author| {
            let f = cbor_fields(bytes);
            m.author() == mint.key(author) && m.timestamp() == as_u64(&f[F_TS]) && m.topic() == topic
        };
        match authentic_author(&e.cls) {
            Some(author) if same(&e.bytes, author) => (id, Judged::Authentic),
            Some(author) => (
                id,
                Judged::Forged(
                    "yielded-fields-differ".into(),
                    format!(
                        "item {id} ({}/{}) yielded with author {} ts {} body {:?}; the delivered authentic bytes say author {author:?} ts {}",
                        e.cls,
                        e.variant,
                        m.author().to_hex(),
                        m.timestamp(),
                        m.body(),
                        as_u64(&cbor_fields(&e.bytes)[F_TS])
                    ),
                ),
            ),
            // visible fields are the signed ones; the logical part of the timestamp and the signature are
            // not visible through the API, so look at the delivered bytes too: if they decode to six
            // fields of which any differs from what A signed, a forged message was accepted
            None if same(&e.orig, Author::A) && !semantic_change(&e.bytes, &e.orig) => (id, Judged::SameFieldsAsSigned),
            None => (
                id,
                Judged::Forged(
                    "tampered-message-yielded".into(),
                    format!(
                        "item {id} of class {} (variant {}) was yielded: author {} ts {} body {:?}",
                        e.cls,
                        e.variant,
                        m.author().to_hex(),
                        m.timestamp(),
                        m.body()
                    ),
                ),
            ),
        }
    }
}

// ------------------------------------------------------------------------------------------------
// replay

fn replay(args: &Args) {
    let behaviours = read_ndjson(args.input.as_ref().expect("--in"));
    let mut out = Outcome::new(
        args,
        "sub: every exported schedule of deliveries / closes / executor turns executed on the real EphemeralStreamSubscription with \
         real bytes per item class, polled only when woken (non-trivial = contains a rejected or lagged item before a later valid one; \
         distinct by schedule); class: every byte-level variant of every item class through a real subscription (distinct by class x variant)",
    );
    let env = Env::new();
    let mut mint = Mint::new(&env);
    if !mint.forging_format_is_right(&env) {
        eprintln!("harness forging format differs from the publisher's signed payload");
        std::process::exit(2);
    }
    let mut rng = Rng::new(args.seed);
    let limit = if args.thorough() { None } else { Some(48) };
    for (bi, b) in behaviours.iter().enumerate() {
        match b["kind"].as_str() {
            Some("sub") => {
                let mut brng = Rng::new(args.seed ^ (bi as u64).wrapping_mul(0x9E37_79B9));
                match catch(|| replay_sub(&env, &mut mint, &mut out, b, &mut brng)) {
                    Ok(()) => {}
                    Err(p) => out.violation("*", "subscription-panics", p, b.clone()),
                }
            }
            Some("class") => match catch(|| {
                replay_class(&env, &mut mint, &mut out, b, &mut rng, limit);
                tokio_pass(&env, &mut mint, &mut out, b["cls"].as_str().unwrap(), b["accept"].as_bool().unwrap(), &mut rng);
            }) {
                Ok(()) => {}
                Err(p) => out.violation("*", "subscription-panics", p, b.clone()),
            },
            Some("flood") => match catch(|| replay_flood(&env, &mut mint, &mut out, b, &mut rng)) {
                Ok(()) => {}
                Err(p) => out.violation("*", "subscription-panics", p, b.clone()),
            },
            _ => {
                eprintln!("unknown behaviour kind: {b}");
                std::process::exit(2);
            }
        }
    }
    out.write(args);
}

/// A long run of items the subscription has to skip, all queued before the task is polled, with one
/// valid message behind them (and, with `over` > 0, more deliveries than the channel holds: the
/// receiver sees Lagged first). The task is then run exactly as an executor would run it.
fn replay_flood(env: &Env, mint: &mut Mint, out: &mut Outcome, b: &Value, rng: &mut Rng) {
    let cls = b["cls"].as_str().unwrap();
    let cap = b["cap"].as_u64().unwrap() as usize;
    let n = b["n"].as_u64().unwrap() as usize;
    let over = b["over"].as_u64().unwrap() as usize;
    let me = SigningKey::from_bytes(&[0xC3; 32]);
    for parked_first in [false, true] {
        out.eval();
        out.mark_distinct(format!("{cls}/{n}/{over}/{parked_first}"));
        out.count(&format!("flood:n={n}{}", if over > 0 { "+lag" } else { "" }));
        let mut s = env.stream(&me, cap);
        s.mark_spawned();
        if parked_first {
            let _ = s.turn(); // parks on the empty channel, wake-up registered
        }
        let _ = inner_polls();
        let junk_id = 7000;
        let valid_id = 7001;
        let (jorig, junk) = mint.variants(env, cls, junk_id, rng, Some(12));
        let (vorig, mut valid) = mint.variants(env, "intact", valid_id, rng, None);
        let valid = valid.remove(0);
        let mut ledger = Ledger::default();
        ledger.add(junk_id, cls, jorig, &junk[0]);
        ledger.add(valid_id, "intact", vorig, &valid);
        // the network is faster than the executor: everything is delivered before the task runs again
        for k in 0..(over + n) {
            s.send(junk[k % junk.len()].bytes.clone());
        }
        s.send(valid.bytes.clone());
        let got = run_task(&mut s);
        let polls = inner_polls();
        out.count_by("flood-inner-polls", polls as u64);
        let case = json!({"kind": "flood", "cls": cls, "cap": cap, "n": n, "over": over, "yielded": b["yielded"], "parked_first": parked_first});
        let mut seen = false;
        for m in &got {
            match ledger.judge(mint, s.topic, m) {
                (id, Judged::Authentic) if id == valid_id => seen = true,
                (_, Judged::Forged(sig, detail)) => out.violation("C16", &sig, detail, case.clone()),
                _ => {}
            }
        }
        if !seen {
            out.violation(
                "C17",
                "valid-message-never-yielded",
                format!(
                    "{n} items of class {cls}{} were queued in front of a valid message (channel capacity {cap}); the task ran until it \
                     parked (runnable={}, done={}, {polls} inner polls) and the valid message was never yielded",
                    if over > 0 { format!(" after {over} overwritten ones (Lagged)") } else { String::new() },
                    s.runnable(),
                    s.done
                ),
                case,
            );
            continue;
        }
        if got.len() != 1 {
            out.violation("C17", "subscription-differs-from-spec", format!("flood yielded {} messages, specification says 1", got.len()), case.clone());
        }
        // and the subscription is still alive afterwards
        let (porig, mut probe) = mint.variants(env, "intact", valid_id + 1, rng, None);
        let probe = probe.remove(0);
        let mut pl = Ledger::default();
        pl.add(valid_id + 1, "intact", porig, &probe);
        s.send(probe.bytes);
        if !run_task(&mut s).iter().any(|m| matches!(pl.judge(mint, s.topic, m), (_, Judged::Authentic))) {
            out.violation(
                "C17",
                "valid-message-never-yielded",
                format!("after a flood of {n} x {cls} and the valid message behind it, the next valid message was never yielded"),
                case,
            );
        } else {
            out.sample(case);
        }
    }
}

/// (result, id) of a spec call: "yield" id | "parked" | "done"
fn spec_calls(steps: &[Value]) -> BTreeMap<usize, (String, u64)> {
    // index of the step that starts a poll_next call -> result of the call's last inner poll
    let mut calls = BTreeMap::new();
    let mut cur: Option<usize> = None;
    for (i, s) in steps.iter().enumerate() {
        if s["ev"] != "Poll" {
            continue;
        }
        if s["start"].as_bool().unwrap() {
            cur = Some(i);
        }
        let res = match s["res"].as_str().unwrap() {
            "yield" => "yield",
            "empty" => "parked",
            "closed" => "done",
            _ => "inside", // reject / lagged: the call goes on
        };
        if let Some(c) = cur {
            calls.insert(c, (res.to_string(), s["id"].as_u64().unwrap_or(0)));
        }
    }
    calls
}

fn take(t: Turn, mint: &Mint, s: &EphStream, ledger: &Ledger, yielded: &mut Vec<u64>, c16: &mut Option<(String, String)>) -> (String, u64) {
    match t {
        Turn::Yield(m) => {
            let (id, verdict) = ledger.judge(mint, s.topic, &m);
            if let Judged::Forged(sig, detail) = verdict {
                c16.get_or_insert((sig, detail));
            }
            yielded.push(id);
            ("yield".to_string(), id)
        }
        Turn::Parked => ("parked".to_string(), 0),
        Turn::Done => ("done".to_string(), 0),
        Turn::Spinning => ("spinning".to_string(), 0),
    }
}

fn replay_sub(env: &Env, mint: &mut Mint, out: &mut Outcome, b: &Value, rng: &mut Rng) {
    out.eval();
    let cap = b["cap"].as_u64().unwrap() as usize;
    let steps = b["steps"].as_array().expect("steps");
    let calls = spec_calls(steps);
    let me = SigningKey::from_bytes(&[0xC3; 32]);
    let mut s = env.stream(&me, cap);
    s.mark_spawned();
    let mut ledger = Ledger::default();
    let mut yielded: Vec<u64> = Vec::new();
    let mut skipped_then_valid = false;
    let mut seen_skip = false;
    let mut diverged: Option<(String, String)> = None; // first conformance failure (signature, detail)
    let mut c16: Option<(String, String)> = None;

    for (i, step) in steps.iter().enumerate() {
        match step["ev"].as_str().unwrap() {
            "Send" => {
                let cls = step["cls"].as_str().unwrap();
                let id = step["id"].as_u64().unwrap();
                let (orig, item) = mint.one(env, cls, id, rng);
                ledger.add(id, cls, orig, &item);
                out.count(&format!("sent:{cls}"));
                let woke = s.send(item.bytes);
                if woke != step["woke"].as_bool().unwrap() && diverged.is_none() {
                    diverged = Some((
                        "subscription-differs-from-spec".into(),
                        format!("step {i}: delivery of item {id} woke the task: {woke}, specification says {}", step["woke"]),
                    ));
                }
            }
            "Close" => {
                let woke = s.close();
                if woke != step["woke"].as_bool().unwrap() && diverged.is_none() {
                    diverged = Some((
                        "subscription-differs-from-spec".into(),
                        format!("step {i}: closing the channel woke the task: {woke}, specification says {}", step["woke"]),
                    ));
                }
            }
            "Poll" => {
                match step["res"].as_str().unwrap() {
                    "reject" | "lagged" => seen_skip = true,
                    "yield" if seen_skip => skipped_then_valid = true,
                    _ => {}
                }
                let Some((exp_res, exp_id)) = calls.get(&i) else { continue }; // inside a call
                if diverged.is_some() {
                    continue;
                }
                if !s.runnable() {
                    diverged = Some((
                        "pending-without-wakeup".into(),
                        format!(
                            "step {i}: the specification's task is runnable (expects {exp_res} {exp_id}) but the real task returned \
                             Poll::Pending earlier and its waker was never woken; yielded so far {yielded:?}"
                        ),
                    ));
                    continue;
                }
                let got = take(s.turn(), mint, &s, &ledger, &mut yielded, &mut c16);
                out.count(&format!("turn:{}", got.0));
                if got != (exp_res.clone(), *exp_id) {
                    let sig = if got.0 == "parked" && exp_res != "parked" {
                        "pending-without-wakeup"
                    } else {
                        "subscription-differs-from-spec"
                    };
                    diverged = Some((
                        sig.into(),
                        format!("step {i}: executor turn on the real subscription ended with {got:?}, specification says ({exp_res:?}, {exp_id})"),
                    ));
                }
            }
            other => {
                eprintln!("unknown step {other}");
                std::process::exit(2);
            }
        }
    }
    // let the real task run for as long as an executor would run it
    let mut guard = 0;
    while s.runnable() && guard < 10_000 {
        guard += 1;
        let _ = take(s.turn(), mint, &s, &ledger, &mut yielded, &mut c16);
    }
    let exp_yielded: Vec<u64> = b["yielded"].as_array().unwrap().iter().map(|v| v.as_u64().unwrap()).collect();
    let missing: Vec<u64> = exp_yielded.iter().copied().filter(|id| !yielded.contains(id)).collect();
    if skipped_then_valid {
        out.mark_distinct(b["steps"].to_string() + &cap.to_string());
    }
    if let Some((sig, detail)) = c16 {
        out.violation("C16", &sig, detail, b.clone());
    }
    if !missing.is_empty() {
        // property level (C17): a valid message was available, the executor has nothing left to run, never yielded
        out.violation(
            "C17",
            "valid-message-never-yielded",
            format!(
                "valid items {missing:?} were delivered and not overwritten by the channel, the task is parked (runnable={}, done={}) \
                 and they were never yielded; yielded {yielded:?}; first divergence: {diverged:?}",
                s.runnable(),
                s.done
            ),
            b.clone(),
        );
    } else if let Some((sig, detail)) = diverged {
        out.violation("C17", &sig, detail, b.clone());
    } else if yielded != exp_yielded || s.done != b["done"].as_bool().unwrap() {
        out.violation(
            "C17",
            "subscription-differs-from-spec",
            format!("yielded {yielded:?} done={}, specification says {exp_yielded:?} done={}", s.done, b["done"]),
            b.clone(),
        );
    } else {
        out.sample(b.clone());
    }
}

/// Runs the real task the way an executor would until it parks / ends; returns what it yielded.
fn run_task(s: &mut EphStream) -> Vec<EphemeralMessage<String>> {
    let mut got = Vec::new();
    let mut guard = 0;
    while s.runnable() && guard < 1000 {
        guard += 1;
        if let Turn::Yield(m) = s.turn() {
            got.push(m);
        }
    }
    got
}

fn replay_class(env: &Env, mint: &mut Mint, out: &mut Outcome, b: &Value, rng: &mut Rng, limit: Option<usize>) {
    let cls = b["cls"].as_str().unwrap();
    let accept = b["accept"].as_bool().unwrap();
    let me = SigningKey::from_bytes(&[0xC3; 32]);
    let fresh = |env: &Env| {
        let mut s = env.stream(&me, 16);
        s.mark_spawned();
        // park the task on the empty channel first, so that every delivery has to wake it
        let _ = s.turn();
        s
    };
    let mut s = fresh(env);
    let id = 1000;
    let (orig, mut items) = mint.variants(env, cls, id, rng, limit);
    let with_verdict = items.len();
    if cls == "bitflip_any" {
        items.extend(header_flips(&orig));
    }
    for (k, item) in items.into_iter().enumerate() {
        let verdict_free = k >= with_verdict;
        out.eval();
        out.mark_distinct(format!("{cls}/{}", item.variant));
        out.count(&format!("class:{cls}"));
        let mut ledger = Ledger::default();
        ledger.add(id, cls, orig.clone(), &item);
        let case = json!({"kind": "class", "cls": cls, "accept": accept, "variant": item.variant, "bytes": hex(&item.bytes)});
        s.send(item.bytes.clone());
        let got = run_task(&mut s);
        match (got.first(), accept) {
            (Some(m), _) => match ledger.judge(mint, s.topic, m).1 {
                Judged::Authentic => out.sample(case.clone()),
                Judged::SameFieldsAsSigned => out.count(&format!("accepted-encoding-variant:{cls}/{}", item.variant)),
                Judged::Forged(sig, detail) => out.violation("C16", &sig, detail, case.clone()),
            },
            (None, _) if verdict_free => out.count("header-flip-rejected"),
            (None, true) => out.violation(
                "C16",
                "authentic-message-not-yielded",
                format!("class {cls} variant {}: not yielded (task runnable={}, done={})", item.variant, s.runnable(), s.done),
                case.clone(),
            ),
            (None, false) => out.sample(case.clone()),
        }
        // C17 on every single variant: whatever was delivered, the next intact message must come out
        let probe_id = id + 1;
        let (porig, mut probe) = mint.variants(env, "intact", probe_id, rng, None);
        let probe = probe.remove(0);
        let mut pl = Ledger::default();
        pl.add(probe_id, "intact", porig, &probe);
        s.send(probe.bytes);
        let reached = run_task(&mut s).iter().any(|m| matches!(pl.judge(mint, s.topic, m), (pid, Judged::Authentic) if pid == probe_id));
        if !reached {
            out.count("stuck-after-item");
            out.violation(
                "C17",
                "valid-message-never-yielded",
                format!(
                    "after an item of class {cls} (variant {}) the next intact message was delivered but never yielded: \
                     the task is parked (runnable={}) and no wake-up is registered",
                    item.variant,
                    s.runnable()
                ),
                case,
            );
            s = fresh(env);
        }
    }
}

/// The same per-variant question on a REAL executor: the subscription is consumed by a tokio task
/// (`while let Some(m) = sub.next().await`), the harness task delivers a variant and then an intact
/// message and yields until the runtime is idle. No timing: on the current-thread runtime `yield_now`
/// runs every woken task; a task that is not woken stays parked for good.
fn tokio_pass(env: &Env, mint: &mut Mint, out: &mut Outcome, cls: &str, accept: bool, rng: &mut Rng) {
    use futures_util::StreamExt;
    let me = SigningKey::from_bytes(&[0xC3; 32]);
    let id = 5000;
    let (orig, mut items) = mint.variants(env, cls, id, rng, Some(10));
    items.truncate(12);
    for item in items {
        out.eval();
        out.count("tokio-executor-variants");
        let (porig, mut probe) = mint.variants(env, "intact", id + 1, rng, None);
        let probe = probe.remove(0);
        let s = env.stream(&me, 16);
        let topic = s.topic;
        let (mut sub, tx, _keep) = s.into_parts();
        let got: Arc<std::sync::Mutex<Vec<EphemeralMessage<String>>>> = Arc::default();
        let sink = got.clone();
        env.rt.block_on(async {
            let consumer = tokio::spawn(async move {
                while let Some(m) = sub.next().await {
                    sink.lock().unwrap().push(m);
                }
            });
            let settle = || async {
                for _ in 0..32 {
                    tokio::task::yield_now().await;
                }
            };
            settle().await; // the consumer parks on the empty channel
            let _ = tx.send(item.bytes.clone());
            settle().await;
            let _ = tx.send(probe.bytes.clone());
            settle().await;
            consumer.abort();
            let _ = consumer.await;
        });
        let mut ledger = Ledger::default();
        ledger.add(id, cls, orig.clone(), &item);
        ledger.add(id + 1, "intact", porig, &probe);
        let got = got.lock().unwrap();
        let case = json!({"kind": "class", "cls": cls, "accept": accept, "variant": item.variant, "executor": "tokio", "bytes": hex(&item.bytes)});
        let mut probe_seen = false;
        for m in got.iter() {
            match ledger.judge(mint, topic, m) {
                (pid, Judged::Authentic) if pid == id + 1 => probe_seen = true,
                (_, Judged::Forged(sig, detail)) => out.violation("C16", &sig, format!("(tokio executor) {detail}"), case.clone()),
                _ => {}
            }
        }
        if !probe_seen {
            out.violation(
                "C17",
                "valid-message-never-yielded",
                format!(
                    "(tokio executor) after an item of class {cls} (variant {}) the intact message delivered next was never received by \
                     the consuming task although the runtime is idle",
                    item.variant
                ),
                case,
            );
        }
    }
}

fn hex(b: &[u8]) -> String {
    b.iter().map(|x| format!("{x:02x}")).collect()
}

// ------------------------------------------------------------------------------------------------
// record

const INNER_POLL: &str = "ephemeral.sub.inner_poll";

/// Number of inner polls (`GossipSubscription::poll_next`) since the last call.
fn inner_polls() -> usize {
    p2panda_core::verif::drain().iter().filter(|(_, e)| e == INNER_POLL).count()
}

const ALL_CLASSES: &[&str] = &[
    "intact", "intact", "intact", "foreign_intact", "trailing_bytes", "flip_version", "version2_signed", "swap_key", "flip_sig",
    "flip_ts", "flip_logical", "flip_body", "foreign_sig_keep_author", "truncated", "garbage", "wrong_body_type", "bitflip_any",
];

fn record(args: &Args) {
    let mut rng = Rng::new(args.seed);
    let n = if args.n > 0 { args.n } else { 50 };
    let mut trace = TraceWriter::create(args.out.as_ref().expect("--out"));
    let mut out = Outcome::new(
        args,
        "seeded random runs: channel capacity 1/2/4/8, random deliveries over all item classes (real bytes), closes and executor turns \
         on the real subscription; one trace event per delivery / close / inner poll / return of poll_next",
    );
    let env = Env::new();
    let mut mint = Mint::new(&env);
    let me = SigningKey::from_bytes(&[0xC3; 32]);
    for run in 0..n {
        // every sixth run is a flood run: a big channel and long runs of skipped items, delivered while
        // the executor does not get to run
        let flood_run = run % 6 == 5;
        let cap = if flood_run { *rng.pick(&[64usize, 128, 256]) } else { *rng.pick(&[1usize, 2, 4, 8]) };
        trace.event(json!({"ev": "Reset", "run": run, "cap": cap}));
        let mut s = env.stream(&me, cap);
        s.mark_spawned();
        let _ = inner_polls();
        let mut ledger = Ledger::default();
        let mut id = 0u64;
        let steps = rng.range(6, 30);
        let burst = rng.range(1, 4); // how eager the network is compared to the executor
        let mut step = 0;
        let mut broken = false;
        // deliveries still to make before the task may run again
        let mut flood_left = 0usize;
        let mut flood_cls: Option<&str> = None;
        let mut floods = if flood_run { rng.range(1, 2) } else { 0 };
        while step < steps || flood_left > 0 || (s.runnable() && !broken) {
            step += 1;
            if step > 2000 {
                break;
            }
            if flood_left == 0 && floods > 0 && !s.closed() && (step >= steps || rng.chance(1, 4)) {
                floods -= 1;
                let lens = [1usize, 31, 32, 33, 100, cap - 1, cap + 5];
                flood_left = *rng.pick(&lens) + 1; // + the valid message behind the run
                // one class for the whole run, or a different one per item
                flood_cls = if rng.chance(2, 3) { Some(*rng.pick(&ALL_CLASSES[5..])) } else { None };
                out.count(&format!("flood-run:{}", flood_left - 1));
            }
            if flood_left > 0 {
                flood_left -= 1;
                id += 1;
                let cls = if flood_left == 0 { "intact" } else { flood_cls.unwrap_or_else(|| *rng.pick(&ALL_CLASSES[5..])) };
                let (orig, item) = mint.one(&env, cls, id, &mut rng);
                ledger.add(id, cls, orig, &item);
                out.count(&format!("sent:{cls}"));
                let woke = s.send(item.bytes);
                trace.event(json!({"ev": "Send", "cls": cls, "id": id, "woke": woke}));
                continue;
            }
            let act_net = step <= steps && !s.closed() && rng.below(burst + 1) > 0;
            if act_net {
                if rng.chance(1, 25) {
                    let woke = s.close();
                    trace.event(json!({"ev": "Close", "woke": woke}));
                } else {
                    id += 1;
                    let cls = *rng.pick(ALL_CLASSES);
                    let (orig, item) = mint.one(&env, cls, id, &mut rng);
                    ledger.add(id, cls, orig, &item);
                    out.count(&format!("sent:{cls}"));
                    let woke = s.send(item.bytes);
                    trace.event(json!({"ev": "Send", "cls": cls, "id": id, "woke": woke}));
                }
                continue;
            }
            if !s.runnable() {
                continue;
            }
            // one real poll_next call
            out.eval();
            let r = match catch(|| s.poll_once()) {
                Ok(r) => r,
                Err(p) => {
                    out.violation("*", "subscription-panics", p, json!({"run": run}));
                    broken = true;
                    break;
                }
            };
            let inner = inner_polls();
            for _ in 1..inner {
                trace.event(json!({"ev": "InnerSkip"}));
            }
            match r {
                Poll::Ready(Some(m)) => {
                    let (mid, verdict) = ledger.judge(&mint, s.topic, &m);
                    if let Judged::Forged(sig, detail) = verdict {
                        out.violation("C16", &sig, detail, json!({"run": run, "id": mid}));
                    }
                    out.mark_distinct(format!("{run}:{mid}"));
                    trace.event(json!({"ev": "InnerLast", "ret": "yield", "id": mid}));
                }
                Poll::Ready(None) => trace.event(json!({"ev": "InnerLast", "ret": "none", "id": 0})),
                Poll::Pending => trace.event(json!({"ev": "InnerLast", "ret": "pending", "id": 0})),
            }
            // what the executor knows after the call: parked = Pending and nobody woke the waker
            let parked = !s.done && !s.runnable();
            trace.event(json!({"ev": "Return", "parked": parked, "done": s.done}));
        }
        // property-level end check of the run (C17): everything valid that the channel did not overwrite was yielded
        // is left to the trace specification (ParkedOnlyWhenDrained on the final state).
    }
    let (events, runs) = trace.finish();
    out.set_trace(events, runs);
    out.write(args);
}

// keep the unused-import lint quiet for items only used in type positions
#[allow(dead_code)]
fn _types(_: &dyn Future<Output = ()>) {}
