//! Conformance harness binary `vh-net`: one module per TLA+ specification (see /verif/spec).
mod framing;
mod addressbook;
mod backoff;

fn main() {
    let args = vh_common::Args::parse();
    // panics of the code under test are data; VH_LOUD=1 keeps the default hook for debugging the harness
    if std::env::var_os("VH_LOUD").is_none() {
        vh_common::quiet_panics();
    }
    match args.module.as_str() {
        "framing" => framing::run(&args),
        "addressbook" => addressbook::run(&args),
        "backoff" => backoff::run(&args),
        _ => vh_common::unknown(&args),
    }
}
