//! Conformance harness binary `vh-net`: one module per TLA+ specification (see /verif/spec).
mod framing;
mod addressbook;
mod backoff;

fn main() {
    let args = vh_common::Args::parse();
    vh_common::quiet_panics();
    match args.module.as_str() {
        "framing" => framing::run(&args),
        "addressbook" => addressbook::run(&args),
        "backoff" => backoff::run(&args),
        _ => vh_common::unknown(&args),
    }
}
