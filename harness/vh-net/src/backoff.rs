//! Backoff (C28): `p2panda_net::discovery::Backoff` (private module, hook H3) against spec/Backoff.
//!
//! The two random draws of the type come from a concrete `ChaCha20Rng`, so a behaviour of the
//! specification (which fixes the draws) cannot be forced onto the code. Instead:
//!
//! replay: TLC exports EVERY behaviour of a small configuration (all draws = all seeds of the
//!   model). Behaviours are grouped by schedule (the sequence of calls); for every schedule the real
//!   type is run with many real seeds and after every call its observable (`value`, `reset_after`)
//!   must be one the specification allows at that point (a child in the trie of exported
//!   behaviours). A run that leaves the trie did something no seed of the model can do. The
//!   property itself (initial <= value <= max; reset once the interval has elapsed) is also
//!   asserted directly on the real values.
//!   Time: the code reads `Instant::now()` itself. The specification's clock is mapped lazily: when
//!   the exported step says "interval elapsed" the harness really sleeps until
//!   `since_last_reset > reset_after` (strictly longer, cannot flake); when it says "not elapsed"
//!   the harness does not wait at all, and a run in which the machine stalled long enough for the
//!   interval to elapse anyway is discarded as inconclusive (measured with the same monotonic
//!   clock), never reported.
//! record: seeded random runs (default configuration and random millisecond configurations,
//!   increments, resets, real waits past the interval) with one event per call; every `Increment`
//!   is preceded by a `Tick{lo,hi}` bracketing the time since the last reset as the call saw it.
use std::collections::BTreeMap;
use std::sync::Mutex;
use std::sync::atomic::{AtomicUsize, Ordering};
use std::time::{Duration, Instant};

use p2panda_net::discovery::{Backoff, BackoffConfig};
use rand::SeedableRng;
use rand_chacha::ChaCha20Rng;
use vh_common::{Args, Outcome, Rng, TraceWriter, Value, catch, json, read_ndjson, unknown};

pub fn run(args: &Args) {
    match args.mode.as_str() {
        "replay" => replay(args),
        "record" => record(args),
        _ => unknown(args),
    }
}

fn ms(x: u64) -> Duration {
    Duration::from_millis(x)
}

#[derive(Clone, Debug, PartialEq, Eq, PartialOrd, Ord)]
struct Cfg {
    initial: u64,
    min_inc: u64,
    max_inc: u64,
    max_value: u64,
    min_reset: u64,
    max_reset: u64,
}

impl Cfg {
    fn from_json(v: &Value) -> Cfg {
        let g = |k: &str| v[k].as_u64().unwrap_or_else(|| panic!("cfg.{k}"));
        Cfg {
            initial: g("initial"),
            min_inc: g("minInc"),
            max_inc: g("maxInc"),
            max_value: g("maxValue"),
            min_reset: g("minReset"),
            max_reset: g("maxReset"),
        }
    }

    fn json(&self) -> Value {
        json!({"initial": self.initial, "minInc": self.min_inc, "maxInc": self.max_inc,
               "maxValue": self.max_value, "minReset": self.min_reset, "maxReset": self.max_reset})
    }

    /// The real configuration: value/increments in ms as in the spec, reset range scaled by `unit` ms.
    fn real(&self, unit: u64) -> BackoffConfig {
        BackoffConfig::verif_new(
            ms(self.initial),
            ms(self.min_inc),
            ms(self.max_inc),
            ms(self.max_value),
            ms(self.min_reset * unit),
            ms(self.max_reset * unit),
        )
    }
}

fn seeded(seed: u64) -> ChaCha20Rng {
    ChaCha20Rng::seed_from_u64(seed)
}

// ------------------------------------------------------------------------------------------------
// Replay: trie of exported behaviours per (cfg, schedule)

#[derive(Default)]
struct Node {
    /// observation (value, resetAfter) -> subtree
    children: BTreeMap<(u64, u64), Node>,
    /// "interval elapsed" flag of the step leading to the children (Increment steps)
    next_elapsed: Option<bool>,
}

impl Node {
    fn leaves(&self) -> u64 {
        if self.children.is_empty() { 1 } else { self.children.values().map(|c| c.leaves()).sum() }
    }
}

type Schedule = Vec<(String, u64)>;

struct Group {
    cfg: Cfg,
    schedule: Schedule,
    root: Node,
    behaviours: usize,
    sample: Value,
}

struct RunResult {
    /// observation path, if the run stayed inside the trie to the end
    realised: Option<Vec<(u64, u64)>>,
    inconclusive: bool,
    elapsed_resets: u64,
    saturated: bool,
    violation: Option<(String, String, Value)>,
}

fn walk(g: &Group, seed: u64, unit: u64) -> RunResult {
    let mut res = RunResult { realised: None, inconclusive: false, elapsed_resets: 0, saturated: false, violation: None };
    let case = |path: &Vec<(u64, u64)>| json!({"kind": "backoff-run", "cfg": g.cfg.json(), "seed": seed, "unit": unit,
        "schedule": g.schedule.iter().map(|(a, dt)| json!({"a": a, "dt": dt})).collect::<Vec<_>>(),
        "observed": path.iter().map(|(v, r)| json!([v, r])).collect::<Vec<_>>()});
    let t_new_start = Instant::now();
    let mut b = Backoff::new(g.cfg.real(unit), seeded(seed));
    let observe = |b: &Backoff| (b.verif_value().as_millis() as u64, b.verif_reset_after().as_millis() as u64 / unit);
    let mut path = vec![observe(&b)];
    if path[0].0 < g.cfg.initial || path[0].0 > g.cfg.max_value {
        let sig = if path[0].0 < g.cfg.initial { "value-below-initial" } else { "value-above-max" };
        res.violation = Some((sig.into(), format!("Backoff::new starts with value = {} ms, configured initial = {} ms, max = {} ms (seed {seed})", path[0].0, g.cfg.initial, g.cfg.max_value), case(&path)));
        return res;
    }
    let mut node = match g.root.children.get(&path[0]) {
        Some(n) => n,
        None => {
            res.violation = Some(("outcome-not-in-spec".into(), format!("Backoff::new gives (value, reset_after/unit) = {:?}, not an initial state of the specification", path[0]), case(&path)));
            return res;
        }
    };
    // The harness's OWN bracket of the instant of the last reset (it does not trust the type's
    // `last_reset_at`): the reset happened somewhere inside the call that performed it.
    let mut reset_lo = t_new_start; // earliest possible instant of the last reset
    let mut reset_hi = Instant::now(); // latest possible instant
    for (k, (a, _dt)) in g.schedule.iter().enumerate().skip(1) {
        let before = *path.last().unwrap();
        let mut definitely_elapsed = false;
        match a.as_str() {
            "Advance" => {} // the specification's clock; real time is arranged at the next Increment
            "Reset" => {
                let t0 = Instant::now();
                b.reset();
                reset_lo = t0;
                reset_hi = Instant::now();
            }
            "Increment" => {
                let want_elapsed = node.next_elapsed.expect("elapsed flag");
                let reset_after = b.verif_reset_after();
                if want_elapsed {
                    // strictly longer than the interval, counted from the LATEST instant the last
                    // reset can have happened: the code must see the interval as elapsed
                    while reset_hi.elapsed() <= reset_after {
                        std::thread::sleep(reset_after.saturating_sub(reset_hi.elapsed()) + Duration::from_millis(1));
                    }
                    definitely_elapsed = true;
                    let t0 = Instant::now();
                    b.increment();
                    reset_lo = t0;
                    reset_hi = Instant::now();
                    res.elapsed_resets += 1;
                } else {
                    // Not elapsed according to the specification: the harness does not wait. If even
                    // after the call less than reset_after has passed since the EARLIEST instant
                    // the last reset can have happened, the code cannot have seen it elapsed.
                    // Otherwise the machine stalled and the run says nothing.
                    b.increment();
                    if reset_lo.elapsed() >= reset_after {
                        res.inconclusive = true;
                    }
                }
            }
            other => panic!("unknown action {other}"),
        }
        let obs = observe(&b);
        path.push(obs);
        // ---- the property, directly on the real values ----
        if obs.0 > g.cfg.max_value {
            res.violation = Some(("value-above-max".into(),
                format!("call #{k} ({a}) left value = {} ms above max_value = {} ms (seed {seed})", obs.0, g.cfg.max_value), case(&path)));
            return res;
        }
        if obs.0 < g.cfg.initial {
            res.violation = Some(("value-below-initial".into(),
                format!("call #{k} ({a}) left value = {} ms below initial_value = {} ms (seed {seed})", obs.0, g.cfg.initial), case(&path)));
            return res;
        }
        if definitely_elapsed && obs.0 != g.cfg.initial {
            res.violation = Some(("no-reset-after-interval".into(),
                format!("increment #{k} was called more than reset_after after the last reset but value = {} ms, initial = {} ms (seed {seed})", obs.0, g.cfg.initial), case(&path)));
            return res;
        }
        if obs.0 == g.cfg.max_value && before.0 < g.cfg.max_value {
            res.saturated = true;
        }
        if res.inconclusive {
            return res;
        }
        // ---- conformance: is this outcome one the specification allows here? ----
        match node.children.get(&obs) {
            Some(n) => node = n,
            None => {
                res.violation = Some(("outcome-not-in-spec".into(),
                    format!("after call #{k} ({a}) the real Backoff shows (value, reset_after/unit) = {obs:?}; from {before:?} the specification allows only {:?} (seed {seed})",
                        node.children.keys().collect::<Vec<_>>()), case(&path)));
                return res;
            }
        }
    }
    res.realised = Some(path);
    res
}

fn replay(args: &Args) {
    let behaviours = read_ndjson(args.input.as_ref().expect("--in"));
    let seeds = args.extra_usize("seeds", 200) as u64;
    let unit = args.extra_usize("unit", 10) as u64;
    let threads = args.extra_usize("threads", 16);
    let mut out = Outcome::new(
        args,
        "every schedule (call sequence) of the TLC-exported behaviours run on the real Backoff with real ChaCha20Rng seeds; \
         after each call the real (value, reset_after) must be an outcome the specification allows there, and the bounds / reset-after-interval \
         are asserted on the real values; evaluations = (schedule, seed) runs; distinct = distinct exported observation paths realised by some seed; \
         non-trivial = the path saturates at the maximum or contains a reset caused by elapsed time",
    );

    // a single failing run (bin/check --replay): kind = "backoff-run"
    let mut groups: Vec<Group> = Vec::new();
    let mut index: BTreeMap<(Cfg, Schedule), usize> = BTreeMap::new();
    let mut single_runs: Vec<(Cfg, Schedule, u64, u64)> = Vec::new();
    for b in &behaviours {
        let cfg = Cfg::from_json(&b["cfg"]);
        if b["kind"] == "backoff-run" {
            let schedule: Schedule = b["schedule"].as_array().unwrap().iter().map(|s| (s["a"].as_str().unwrap().to_string(), s["dt"].as_u64().unwrap_or(0))).collect();
            single_runs.push((cfg, schedule, b["seed"].as_u64().unwrap(), b["unit"].as_u64().unwrap_or(unit)));
            continue;
        }
        let steps = b["steps"].as_array().expect("steps");
        let schedule: Schedule = steps.iter().map(|s| (s["a"].as_str().unwrap().to_string(), s["dt"].as_u64().unwrap_or(0))).collect();
        let gi = *index.entry((cfg.clone(), schedule.clone())).or_insert_with(|| {
            groups.push(Group { cfg: cfg.clone(), schedule: schedule.clone(), root: Node::default(), behaviours: 0, sample: b.clone() });
            groups.len() - 1
        });
        let g = &mut groups[gi];
        g.behaviours += 1;
        let mut node = &mut g.root;
        for s in steps {
            if s["a"] == "Increment" {
                let e = s["elapsed"].as_bool().unwrap();
                assert!(node.next_elapsed.is_none_or(|x| x == e), "harness: elapsed flag not a function of the observation prefix");
                node.next_elapsed = Some(e);
            }
            let obs = (s["value"].as_u64().unwrap(), s["resetAfter"].as_u64().unwrap());
            node = node.children.entry(obs).or_default();
        }
    }

    if !single_runs.is_empty() {
        // re-run of reported cases: the property-level assertions only (no trie available)
        for (cfg, schedule, seed, unit) in single_runs {
            out.eval();
            let g = Group { cfg, schedule, root: Node::default(), behaviours: 0, sample: Value::Null };
            // a trie-less walk reports "outcome-not-in-spec" at once; run the calls by hand instead
            let r = catch(|| {
                let mut b = Backoff::new(g.cfg.real(unit), seeded(seed));
                let mut worst = None;
                for (k, (a, _)) in g.schedule.iter().enumerate().skip(1) {
                    match a.as_str() {
                        "Increment" => b.increment(),
                        "Reset" => b.reset(),
                        _ => {}
                    }
                    let v = b.verif_value().as_millis() as u64;
                    if v > g.cfg.max_value && worst.is_none() {
                        worst = Some((k, v));
                    }
                }
                worst
            });
            match r {
                Ok(Some((k, v))) => out.violation("C28", "value-above-max", format!("call #{k} left value = {v} ms above max_value = {} ms (seed {seed})", g.cfg.max_value), json!(null)),
                Ok(None) => {}
                Err(p) => out.violation("C28", "backoff-panics", p, json!(null)),
            }
        }
        out.write(args);
        return;
    }

    // jobs: every (group, seed)
    let jobs: Vec<(usize, u64)> = (0..groups.len()).flat_map(|g| (0..seeds).map(move |s| (g, s))).collect();
    let next = AtomicUsize::new(0);
    let results: Mutex<Vec<(usize, u64, Result<RunResult, String>)>> = Mutex::new(Vec::new());
    std::thread::scope(|scope| {
        for _ in 0..threads {
            scope.spawn(|| {
                let mut local = Vec::new();
                loop {
                    let i = next.fetch_add(1, Ordering::Relaxed);
                    if i >= jobs.len() {
                        break;
                    }
                    let (gi, seed) = jobs[i];
                    let r = catch(|| walk(&groups[gi], seed, unit));
                    local.push((gi, seed, r));
                }
                results.lock().unwrap().extend(local);
            });
        }
    });
    let mut results = results.into_inner().unwrap();
    results.sort_by_key(|(g, s, _)| (*g, *s));
    let exported: usize = groups.iter().map(|g| g.behaviours).sum();
    out.count_by("behaviours_exported", exported as u64);
    out.count_by("schedules", groups.len() as u64);
    out.count_by("observation_paths_exported", groups.iter().map(|g| g.root.leaves()).sum());
    let mut realised_paths: std::collections::BTreeSet<(usize, Vec<(u64, u64)>)> = Default::default();
    let mut realised_runs = 0u64;
    for (gi, seed, r) in results {
        out.eval();
        match r {
            Err(p) => out.violation("C28", "backoff-panics", format!("seed {seed}: {p}"), groups[gi].sample.clone()),
            Ok(r) => {
                if r.inconclusive {
                    out.count("runs_timing_inconclusive");
                }
                out.count_by("resets_after_real_wait", r.elapsed_resets);
                if let Some((sig, detail, case)) = r.violation {
                    out.violation("C28", &sig, detail, case);
                } else if let Some(path) = r.realised {
                    realised_runs += 1;
                    realised_paths.insert((gi, path.clone()));
                    if r.saturated || r.elapsed_resets > 0 {
                        out.mark_distinct(format!("{gi}|{path:?}"));
                    }
                    if seed == 0 {
                        out.sample(json!({"cfg": groups[gi].cfg.json(), "seed": seed, "schedule": groups[gi].schedule.iter().map(|(a, _)| a.clone()).collect::<Vec<_>>(), "observed": path.iter().map(|(v, r)| json!([v, r])).collect::<Vec<_>>()}));
                    }
                }
            }
        }
    }
    out.count_by("runs_realising_an_exported_behaviour", realised_runs);
    out.count_by("observation_paths_realised", realised_paths.len() as u64);
    if realised_runs == 0 && out.violations_total == 0 {
        eprintln!("vacuous: no run realised an exported behaviour");
        std::process::exit(2);
    }
    out.write(args);
}

// ------------------------------------------------------------------------------------------------
// Record

fn random_cfg(rng: &mut Rng) -> Cfg {
    let initial = *rng.pick(&[0u64, 0, 1, 7]);
    let min_inc = rng.range(0, 4);
    let max_inc = min_inc + rng.range(1, 9);
    let max_value = initial + rng.range(0, 40);
    let min_reset = rng.range(15, 40);
    let max_reset = min_reset + rng.range(1, 30);
    Cfg { initial, min_inc, max_inc, max_value, min_reset, max_reset }
}

fn record(args: &Args) {
    let mut rng = Rng::new(args.seed);
    let n = if args.n > 0 { args.n } else { 60 };
    let mut trace = TraceWriter::create(args.out.as_ref().expect("--out"));
    let mut out = Outcome::new(
        args,
        "seeded runs of the real Backoff: the default configuration (seconds) and random millisecond configurations, real ChaCha20Rng seeds, \
         random increment / reset calls and real waits past reset_after; one event per call, each Increment preceded by a Tick bracketing \
         the time since the last reset; non-trivial = the run saturates or resets after a real wait; distinct by run",
    );
    let default_cfg = Cfg { initial: 0, min_inc: 1000, max_inc: 5000, max_value: 30000, min_reset: 60000, max_reset: 180000 };
    let t_start = Instant::now();
    for run in 0..n {
        let use_default = run % 3 == 0;
        let cfg = if use_default { default_cfg.clone() } else { random_cfg(&mut rng) };
        let seed = rng.next_u64() % 1_000_000;
        let real = if use_default { BackoffConfig::default() } else { cfg.real(1) };
        let calls = if use_default { rng.range(20, 120) } else { rng.range(5, 60) };
        // at most two real waits per run, and none once the recording has taken long
        let mut waits_left = if use_default || t_start.elapsed() > Duration::from_secs(60) { 0 } else { 2 };
        let r = catch(|| {
            let mut events = Vec::new();
            // own bracket [reset_lo, reset_hi] of the instant of the last reset (see `walk`)
            let mut reset_lo = Instant::now();
            let mut b = Backoff::new(real, seeded(seed));
            let mut reset_hi = Instant::now();
            let obs = |b: &Backoff| (b.verif_value().as_millis() as u64, b.verif_reset_after().as_millis() as u64);
            let (v, r) = obs(&b);
            events.push(json!({"ev": "Reset", "run": run, "seed": seed, "cfg": cfg.json(), "value": v, "resetAfter": r}));
            let mut nontrivial = false;
            let mut waited = 0u64;
            for _ in 0..calls {
                let what = rng.below(20);
                if what == 0 {
                    let t0 = Instant::now();
                    b.reset();
                    reset_lo = t0;
                    reset_hi = Instant::now();
                    let (v, r) = obs(&b);
                    events.push(json!({"ev": "BackoffReset", "value": v, "resetAfter": r}));
                    continue;
                }
                if what == 1 && waits_left > 0 {
                    waits_left -= 1;
                    // really wait until the interval has elapsed (strictly longer, from the latest
                    // instant the last reset can have happened)
                    let reset_after = b.verif_reset_after();
                    while reset_hi.elapsed() <= reset_after {
                        std::thread::sleep(reset_after.saturating_sub(reset_hi.elapsed()) + Duration::from_millis(1));
                    }
                    nontrivial = true;
                    waited += 1;
                } else if what == 2 && !use_default {
                    std::thread::sleep(Duration::from_millis(rng.range(1, 4)));
                }
                // bracket of "time since the last reset" as the call can have seen it, in ms:
                // at least (call start - latest reset instant), at most (call end - earliest reset instant)
                let (v0, r0) = obs(&b);
                let t0 = Instant::now();
                let lo = t0.saturating_duration_since(reset_hi).as_millis() as u64;
                b.increment();
                let t1 = Instant::now();
                let hi = t1.saturating_duration_since(reset_lo).as_millis() as u64 + 1;
                let (v, r) = obs(&b);
                // did this call reset? certain if the interval was re-drawn or the value fell back;
                // impossible if the value is not the initial one; otherwise unknown (bracket widens)
                if v == cfg.initial && (r != r0 || v < v0) {
                    reset_lo = t0;
                    reset_hi = t1;
                } else if v == cfg.initial {
                    reset_hi = t1;
                }
                if v == cfg.max_value && cfg.max_value > cfg.initial {
                    nontrivial = true;
                }
                events.push(json!({"ev": "Tick", "lo": lo, "hi": hi}));
                events.push(json!({"ev": "Increment", "value": v, "resetAfter": r}));
            }
            (events, nontrivial, waited)
        });
        out.eval();
        match r {
            Err(p) => out.violation("C28", "backoff-panics", p, json!({"cfg": cfg.json(), "seed": seed})),
            Ok((events, nontrivial, waited)) => {
                out.count_by("real_waits_past_reset_after", waited);
                out.count(if use_default { "runs_default_config" } else { "runs_ms_config" });
                if nontrivial {
                    out.mark_distinct(format!("run{run}"));
                }
                if run < 2 {
                    out.sample(json!({"cfg": cfg.json(), "seed": seed, "events": events.len()}));
                }
                for e in events {
                    trace.event(e);
                }
            }
        }
    }
    let (events, runs) = trace.finish();
    out.set_trace(events, runs);
    out.write(args);
}
