//! AddressBook (C27): `NodeInfo::update_transports` and the real address-book actor
//! (`AddressBook::builder().spawn()` + `insert_transport_info` / `insert_node_info` / `node_info`)
//! against spec/AddressBook.
//!
//! The specification's records are classes `[id, node, ts, kind, forge]`; this file makes each of
//! them a real `TransportInfo`: real Ed25519 keys per node, real signatures, real
//! `HybridTimestamp`s, real iroh endpoint addresses, and for every forgery class the real
//! manipulation (signed by another key, timestamp / addresses changed after signing, an address
//! naming another node).
use std::collections::BTreeMap;
use std::net::SocketAddr;

use p2panda_core::{Signature, SigningKey};
use p2panda_core::timestamp::{HybridTimestamp, LamportTimestamp, Timestamp};
use p2panda_net::addrs::{
    NodeInfo, NodeTransportInfo, TransportAddress, TransportInfo, TrustedTransportInfo, UnsignedTransportInfo,
};
use p2panda_net::utils::from_verifying_key;
use p2panda_net::{AddressBook, NodeId};
use vh_common::{Args, Outcome, Rng, TraceWriter, Value, json, read_ndjson, unknown};

pub fn run(args: &Args) {
    match args.mode.as_str() {
        "replay" => replay(args),
        "record" => record(args),
        _ => unknown(args),
    }
}

const T0: u64 = 1_700_000_000_000_000;

/// Abstract timestamp -> real hybrid timestamp, order preserving. Two encodings so that both the
/// wall-clock part and the logical part decide comparisons.
fn hybrid(ts: u64, encoding: u64) -> HybridTimestamp {
    match encoding % 2 {
        0 => HybridTimestamp::from_parts(Timestamp::new(T0 + ts), LamportTimestamp::new(0)),
        _ => HybridTimestamp::from_parts(Timestamp::new(T0 + ts / 2), LamportTimestamp::new(ts % 2)),
    }
}

/// Inverse for recorded traces: a small integer with the same order as the real timestamp.
fn rank(t: HybridTimestamp) -> i64 {
    let (wall, logical) = t.to_parts();
    let wall: u64 = wall.into();
    let logical: u64 = logical.to_string().parse().expect("lamport timestamp prints as a number");
    (wall as i64 - T0 as i64) * 4 + logical as i64
}

struct Keys {
    salt: u64,
    cache: BTreeMap<String, SigningKey>,
}

impl Keys {
    fn new(salt: u64) -> Keys {
        Keys { salt, cache: BTreeMap::new() }
    }

    fn key(&mut self, name: &str) -> SigningKey {
        let salt = self.salt;
        self.cache
            .entry(name.to_string())
            .or_insert_with(|| {
                let mut bytes = [0u8; 32];
                bytes[..8].copy_from_slice(&salt.to_le_bytes());
                for (i, b) in name.bytes().enumerate().take(16) {
                    bytes[8 + i] = b;
                }
                bytes[31] = 0x5a;
                SigningKey::from_bytes(&bytes)
            })
            .clone()
    }

    fn id(&mut self, name: &str) -> NodeId {
        self.key(name).verifying_key()
    }
}

fn address(owner: NodeId, tag: u64) -> TransportAddress {
    let sock: SocketAddr = format!("10.{}.{}.{}:{}", (tag >> 16) & 0xff, (tag >> 8) & 0xff, tag & 0xff, 2000 + (tag % 1000)).parse().unwrap();
    TransportAddress::Iroh(iroh_base::EndpointAddr::new(from_verifying_key(owner)).with_ip_addr(sock))
}

fn tag_of(id: &str) -> u64 {
    id.bytes().fold(7u64, |h, b| h.wrapping_mul(131).wrapping_add(b as u64)) & 0xff_ffff
}

/// The real transport info of an abstract record.
fn concretise(rec: &Value, keys: &mut Keys, encoding: u64) -> (NodeId, TransportInfo) {
    let id = rec["id"].as_str().expect("rec.id");
    let node = rec["node"].as_str().expect("rec.node");
    let ts = rec["ts"].as_u64().expect("rec.ts");
    let kind = rec["kind"].as_str().expect("rec.kind");
    let forge = rec["forge"].as_str().expect("rec.forge");
    let addrs = rec["addrs"].as_u64().expect("rec.addrs");
    let node_id = keys.id(node);
    let other = keys.id("__other__");
    let tag = tag_of(id);
    let timestamp = hybrid(ts, encoding);
    // the address list the record finally carries: none ("I am not reachable") or one
    let list = |n: u64, owner: NodeId, tag: u64| -> Vec<TransportAddress> { (0..n).map(|i| address(owner, tag + i)).collect() };
    let signed_by = |key: &SigningKey, timestamp: HybridTimestamp, addresses: Vec<TransportAddress>| {
        UnsignedTransportInfo { timestamp, addresses }.sign(key).expect("sign")
    };
    let info = match (kind, forge) {
        ("auth", "none") => TransportInfo::Authenticated(signed_by(&keys.key(node), timestamp, list(addrs, node_id, tag))),
        ("auth", "wrong_signer") => TransportInfo::Authenticated(signed_by(&keys.key("__other__"), timestamp, list(addrs, node_id, tag))),
        ("auth", "bad_sig") => {
            let mut signed = signed_by(&keys.key(node), timestamp, list(addrs, node_id, tag));
            let mut bytes = signed.signature.to_bytes();
            bytes[(tag % 64) as usize] ^= 0x01;
            signed.signature = Signature::from_bytes(&bytes);
            TransportInfo::Authenticated(signed)
        }
        ("auth", "tampered_ts") => {
            // genuinely signed with an OLD timestamp, then post-dated to `ts`
            let mut signed = signed_by(&keys.key(node), hybrid(0, encoding), list(addrs, node_id, tag));
            signed.timestamp = timestamp;
            TransportInfo::Authenticated(signed)
        }
        ("auth", "addr_removed") => {
            assert_eq!(addrs, 0, "addr_removed ends without addresses");
            let mut signed = signed_by(&keys.key(node), timestamp, list(1, node_id, tag));
            signed.addresses.clear();
            TransportInfo::Authenticated(signed)
        }
        ("auth", "addr_added") => {
            assert_eq!(addrs, 1, "addr_added ends with one address");
            let mut signed = signed_by(&keys.key(node), timestamp, vec![]);
            signed.addresses.push(address(node_id, tag));
            TransportInfo::Authenticated(signed)
        }
        ("auth", "addr_changed") => {
            assert_eq!(addrs, 1, "addr_changed keeps one address");
            let mut signed = signed_by(&keys.key(node), timestamp, list(1, node_id, tag));
            signed.addresses = vec![address(node_id, tag ^ 0x55)];
            TransportInfo::Authenticated(signed)
        }
        ("trusted", "none") => TransportInfo::Trusted(TrustedTransportInfo { timestamp, addresses: list(addrs, node_id, tag) }),
        ("trusted", "id_mismatch") => {
            assert_eq!(addrs, 1, "id_mismatch needs an address");
            TransportInfo::Trusted(TrustedTransportInfo { timestamp, addresses: vec![address(other, tag)] })
        }
        other => panic!("unknown record class {other:?}"),
    };
    assert_eq!(info.len() as u64, addrs, "harness: record {id} carries the modelled number of addresses");
    (node_id, info)
}

fn reply_of<E>(r: &Result<bool, E>) -> &'static str {
    match r {
        Ok(true) => "newer",
        Ok(false) => "older",
        Err(_) => "error",
    }
}

/// Which abstract record is stored (by equality with the concrete infos handed in so far).
/// `known`: (record id, node it was inserted for, concrete info). Only records handed in for THIS
/// node are candidates: an info without addresses has no node-specific content, so equal values can
/// exist for different nodes.
fn stored_id(node: &str, info: Option<&TransportInfo>, known: &[(String, String, TransportInfo)]) -> String {
    match info {
        None => "none".into(),
        Some(t) => known.iter().find(|(_, n, k)| n == node && k == t).map(|(id, _, _)| id.clone()).unwrap_or_else(|| "unknown".into()),
    }
}

fn runtime() -> tokio::runtime::Runtime {
    tokio::runtime::Builder::new_current_thread().enable_all().build().expect("runtime")
}

// ------------------------------------------------------------------------------------------------
// Replay

fn replay(args: &Args) {
    let behaviours = read_ndjson(args.input.as_ref().expect("--in"));
    let mut out = Outcome::new(
        args,
        "every TLC-exported arrival order executed (1) on NodeInfo::update_transports and (2) on the real address-book actor \
         (insert_transport_info / insert_node_info, state read back with node_info) with real keys, signatures and hybrid timestamps; \
         reply and stored record of every node compared after every call; non-trivial = a forged record or an older record arrives \
         while something is stored; distinct by behaviour",
    );
    let rt = runtime();
    let per_book = args.extra_usize("per_book", 200);
    let mut book: Option<AddressBook> = None;
    for (bi, b) in behaviours.iter().enumerate() {
        out.eval();
        let steps = b["steps"].as_array().expect("steps");
        let encoding = bi as u64;
        let mut keys = Keys::new(args.seed.wrapping_mul(1_000_003).wrapping_add(bi as u64));
        let node_names: Vec<String> = steps
            .first()
            .and_then(|s| s["stored"].as_object())
            .map(|o| o.keys().cloned().collect())
            .unwrap_or_default();
        let nontrivial = steps.iter().any(|s| s["reply"] == "error" || s["reply"] == "older");
        if nontrivial {
            out.mark_distinct(b["steps"].to_string());
        }

        // ---- (1) NodeInfo::update_transports, no actor -----------------------------------------
        let only_arrivals = steps.iter().all(|s| s["call"] == "InsertTransportInfo");
        if only_arrivals {
            let mut infos: BTreeMap<String, NodeInfo> = node_names.iter().map(|n| (n.clone(), NodeInfo::new(keys.id(n)))).collect();
            let mut known: Vec<(String, String, TransportInfo)> = Vec::new();
            for (k, s) in steps.iter().enumerate() {
                let (_, info) = concretise(&s["rec"], &mut keys, encoding);
                known.push((s["rec"]["id"].as_str().unwrap().to_string(), s["rec"]["node"].as_str().unwrap().to_string(), info.clone()));
                let node = s["rec"]["node"].as_str().unwrap();
                let r = vh_common::catch(|| infos.get_mut(node).unwrap().update_transports(info));
                let r = match r {
                    Ok(r) => r,
                    Err(p) => {
                        out.violation("C27", "update-transports-panics", p, b.clone());
                        break;
                    }
                };
                let got_reply = reply_of(&r);
                let want_reply = s["reply"].as_str().unwrap();
                let mut bad = None;
                if got_reply != want_reply {
                    bad = Some(format!("step {k}: update_transports({}) replied {got_reply}, spec says {want_reply}", s["rec"]["id"]));
                }
                for n in &node_names {
                    let got = stored_id(n, infos[n].transports.as_ref(), &known);
                    let want = s["stored"][n].as_str().unwrap();
                    if got != want && bad.is_none() {
                        bad = Some(format!("step {k}: after update_transports({}) node {n} holds {got}, spec says {want}", s["rec"]["id"]));
                    }
                }
                if let Some(detail) = bad {
                    let sig = classify(s, &detail);
                    out.violation("C27", &format!("nodeinfo:{sig}"), detail, b.clone());
                    break;
                }
            }
            out.count("ran_on_nodeinfo");
        }

        // ---- (2) the real actor -------------------------------------------------------------------
        if book.is_none() || bi % per_book == 0 {
            book = Some(rt.block_on(async { AddressBook::builder().spawn().await.expect("spawn address book") }));
            out.count("address_books_spawned");
        }
        let ab = book.as_ref().unwrap();
        let res: Result<Option<(String, String)>, String> = rt.block_on(async {
            let mut known: Vec<(String, String, TransportInfo)> = Vec::new();
            for (k, s) in steps.iter().enumerate() {
                let (node_id, info) = concretise(&s["rec"], &mut keys, encoding);
                known.push((s["rec"]["id"].as_str().unwrap().to_string(), s["rec"]["node"].as_str().unwrap().to_string(), info.clone()));
                let call = s["call"].as_str().unwrap();
                let got_reply = match call {
                    "InsertTransportInfo" => reply_of(&ab.insert_transport_info(node_id, info).await).to_string(),
                    "InsertNodeInfo" => {
                        let mut ni = NodeInfo::new(node_id);
                        ni.bootstrap = s["flag"].as_bool().unwrap();
                        ni.transports = Some(info);
                        match ab.insert_node_info(ni).await {
                            Ok(_) => "ok".to_string(),
                            Err(_) => "error".to_string(),
                        }
                    }
                    other => panic!("unknown call {other}"),
                };
                let want_reply = s["reply"].as_str().unwrap();
                if got_reply != want_reply {
                    let detail = format!("step {k}: {call}({}) replied {got_reply}, spec says {want_reply}", s["rec"]["id"]);
                    return Ok(Some((classify(s, &detail), detail)));
                }
                for n in &node_names {
                    let ni = ab.node_info(keys.id(n)).await.map_err(|e| format!("node_info failed: {e}"))?;
                    let got = stored_id(n, ni.as_ref().and_then(|x| x.transports.as_ref()), &known);
                    let want = s["stored"][n].as_str().unwrap();
                    if got != want {
                        let detail = format!("step {k}: after {call}({}) the book holds {got} for {n}, spec says {want}", s["rec"]["id"]);
                        return Ok(Some((classify(s, &detail), detail)));
                    }
                    let got_boot = ni.as_ref().map(|x| x.bootstrap).unwrap_or(false);
                    let want_boot = s["boot"][n].as_bool().unwrap();
                    if got_boot != want_boot {
                        let detail = format!("step {k}: after {call}({}) bootstrap flag of {n} is {got_boot}, spec says {want_boot}", s["rec"]["id"]);
                        return Ok(Some(("local-data-changed".into(), detail)));
                    }
                }
            }
            Ok(None)
        });
        // ---- (3) the same arrivals issued CONCURRENTLY (fresh node ids): the mailbox decides the
        // order; with distinct timestamps the final stored record does not depend on it ----------
        let distinct_ts = {
            // every two different records of a node carry different timestamps (repeats are fine)
            let mut ts = std::collections::BTreeSet::new();
            let mut ids = std::collections::BTreeSet::new();
            steps.iter().all(|s| {
                let fresh_id = ids.insert(s["rec"]["id"].to_string());
                !fresh_id || ts.insert((s["rec"]["node"].to_string(), s["rec"]["ts"].to_string()))
            })
        };
        if only_arrivals && distinct_ts && res == Ok(None) && !steps.is_empty() {
            let mut ckeys = Keys::new(args.seed.wrapping_mul(1_000_003).wrapping_add(bi as u64) ^ 0xC0C0_C0C0);
            let concrete: Vec<(String, NodeId, TransportInfo)> = steps
                .iter()
                .map(|s| {
                    let (id, info) = concretise(&s["rec"], &mut ckeys, encoding);
                    (s["rec"]["id"].as_str().unwrap().to_string(), id, info)
                })
                .collect();
            let known: Vec<(String, String, TransportInfo)> = concrete.iter().zip(steps.iter()).map(|((i, _, t), s)| (i.clone(), s["rec"]["node"].as_str().unwrap().to_string(), t.clone())).collect();
            let finals = steps.last().unwrap()["stored"].clone();
            let r: Result<Option<String>, String> = rt.block_on(async {
                let calls = concrete.iter().map(|(_, id, info)| ab.insert_transport_info(*id, info.clone()));
                let _ = futures_util::future::join_all(calls).await;
                for n in &node_names {
                    let ni = ab.node_info(ckeys.id(n)).await.map_err(|e| format!("node_info failed: {e}"))?;
                    let got = stored_id(n, ni.as_ref().and_then(|x| x.transports.as_ref()), &known);
                    let want = finals[n].as_str().unwrap();
                    if got != want {
                        return Ok(Some(format!("after {} concurrent insert_transport_info calls the book holds {got} for {n}, the newest authentic record is {want}", concrete.len())));
                    }
                }
                Ok(None)
            });
            out.count("ran_concurrently");
            match r {
                Ok(None) => {}
                Ok(Some(detail)) => out.violation("C27", "actor:concurrent-arrivals-not-newest", detail, b.clone()),
                Err(e) => {
                    eprintln!("address book unusable: {e}");
                    std::process::exit(2);
                }
            }
        }
        match res {
            Ok(None) => {}
            Ok(Some((sig, detail))) => out.violation("C27", &format!("actor:{sig}"), detail, b.clone()),
            Err(e) => {
                eprintln!("address book unusable: {e}");
                std::process::exit(2);
            }
        }
        out.sample(b.clone());
    }
    out.write(args);
}

/// Stable failure class from the step the implementation disagreed on.
fn classify(step: &Value, _detail: &str) -> String {
    let forged = step["rec"]["forge"] != "none";
    if forged {
        // a forged record must be answered with an error and must never be held
        "forged-record-accepted".into()
    } else if step["reply"] == "older" {
        "older-record-replaced-newer".into()
    } else if step["reply"] == "newer" {
        "newer-authentic-record-not-stored".into()
    } else {
        "differs-from-spec".into()
    }
}

// ------------------------------------------------------------------------------------------------
// Record

fn rec_json(id: &str, node: &str, info: &TransportInfo, kind: &str, forge: &str) -> Value {
    json!({"id": id, "node": node, "ts": rank(info.timestamp()), "kind": kind, "addrs": info.len(), "forge": forge})
}

fn record(args: &Args) {
    let mut rng = Rng::new(args.seed);
    let n = if args.n > 0 { args.n } else { 40 };
    let mut trace = TraceWriter::create(args.out.as_ref().expect("--out"));
    let mut out = Outcome::new(
        args,
        "seeded random histories on the real address-book actor: up to 3 nodes, up to 12 records per node with random (also equal) \
         timestamps, all forgery classes, repeated arrivals, occasional local overwrites (insert_node_info); one event per call with \
         reply and the stored record / bootstrap flag of every node read back through node_info; non-trivial = run contains a forged \
         and an out-of-order arrival; distinct by run",
    );
    let rt = runtime();
    for run in 0..n {
        let ab = rt.block_on(async { AddressBook::builder().spawn().await.expect("spawn address book") });
        let mut keys = Keys::new(args.seed.wrapping_mul(7919).wrapping_add(run as u64));
        let node_names: Vec<String> = (1..=rng.range(1, 3)).map(|i| format!("n{i}")).collect();
        let encoding = rng.below(2);
        let with_overwrites = rng.chance(1, 3);
        trace.event(json!({"ev": "Reset", "run": run, "nodes": node_names}));
        // pool
        let mut pool: Vec<Value> = Vec::new();
        for node in &node_names {
            for i in 0..rng.range(2, 12) {
                // (kind, forge, addresses): every forgery class with and without addresses where it can
                let (kind, forge, addrs) = match rng.below(24) {
                    0 => ("auth", "wrong_signer", 1),
                    1 => ("auth", "wrong_signer", 0),
                    2 => ("auth", "tampered_ts", 1),
                    3 => ("auth", "tampered_ts", 0),
                    4 => ("auth", "bad_sig", 1),
                    5 => ("auth", "bad_sig", 0),
                    6 => ("auth", "addr_removed", 0),
                    7 => ("auth", "addr_added", 1),
                    8 => ("auth", "addr_changed", 1),
                    9 => ("trusted", "id_mismatch", 1),
                    10 | 11 | 12 => ("trusted", "none", 1),
                    13 => ("trusted", "none", 0),
                    14 | 15 | 16 => ("auth", "none", 0),
                    _ => ("auth", "none", 1),
                };
                // forged records tend to claim the newest timestamps
                let ts = if forge != "none" && rng.chance(1, 2) { rng.range(10, 16) } else { rng.range(1, 14) };
                // records without addresses have no content besides the timestamp: keep genuine ones
                // of a node distinguishable (the stored record is identified by equality)
                let mut ts = ts;
                while addrs == 0 && forge == "none" && pool.iter().any(|p: &Value| p["node"] == node.as_str() && p["kind"] == kind && p["addrs"] == 0 && p["forge"] == "none" && p["ts"] == ts) {
                    ts += 1;
                }
                pool.push(json!({"id": format!("{node}r{i}"), "node": node, "ts": ts, "kind": kind, "addrs": addrs, "forge": forge}));
            }
        }
        let calls = rng.range(pool.len() as u64, pool.len() as u64 * 2);
        let mut known: Vec<(String, String, TransportInfo)> = Vec::new();
        let mut saw_forged = false;
        let mut saw_older = false;
        let ok: Result<(), String> = rt.block_on(async {
            for _ in 0..calls {
                let r = rng.pick(&pool).clone();
                let (node_id, info) = concretise(&r, &mut keys, encoding);
                let id = r["id"].as_str().unwrap().to_string();
                if !known.iter().any(|(k, _, _)| *k == id) {
                    known.push((id.clone(), r["node"].as_str().unwrap().to_string(), info.clone()));
                }
                let rec = rec_json(&id, r["node"].as_str().unwrap(), &info, r["kind"].as_str().unwrap(), r["forge"].as_str().unwrap());
                out.eval();
                let overwrite = with_overwrites && rng.chance(1, 8);
                let (call, reply, flag) = if overwrite {
                    let flag = rng.chance(1, 2);
                    let mut ni = NodeInfo::new(node_id);
                    ni.bootstrap = flag;
                    ni.transports = Some(info);
                    let reply = match ab.insert_node_info(ni).await {
                        Ok(_) => "ok",
                        Err(_) => "error",
                    };
                    ("InsertNodeInfo", reply, flag)
                } else {
                    let reply = reply_of(&ab.insert_transport_info(node_id, info).await);
                    ("InsertTransportInfo", reply, false)
                };
                saw_forged |= reply == "error";
                saw_older |= reply == "older";
                let mut stored = serde_json::Map::new();
                let mut boot = serde_json::Map::new();
                for n in &node_names {
                    let ni = ab.node_info(keys.id(n)).await.map_err(|e| format!("node_info failed: {e}"))?;
                    stored.insert(n.clone(), json!(stored_id(n, ni.as_ref().and_then(|x| x.transports.as_ref()), &known)));
                    boot.insert(n.clone(), json!(ni.as_ref().map(|x| x.bootstrap).unwrap_or(false)));
                }
                trace.event(json!({"ev": call, "rec": rec, "flag": flag, "reply": reply, "stored": stored, "boot": boot}));
            }
            Ok(())
        });
        if let Err(e) = ok {
            eprintln!("address book unusable: {e}");
            std::process::exit(2);
        }
        if saw_forged && saw_older {
            out.mark_distinct(format!("run{run}"));
        }
        if run < 2 {
            out.sample(json!({"nodes": node_names, "pool": pool.len(), "calls": calls, "overwrites": with_overwrites}));
        }
    }
    let (events, runs) = trace.finish();
    out.set_trace(events, runs);
    out.write(args);
}
