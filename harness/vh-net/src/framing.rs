//! Framing (C26): `p2panda_net::codec::Codec` against spec/Framing.
//!
//! The specification talks about a byte stream as a sequence of tokens (one per byte) and about
//! messages as (content id, postcard size).  Everything that is *bytes* is this file's part:
//!
//! * every abstract message `(c, n)` is realised by a real message value whose postcard encoding has
//!   exactly `n` bytes ("families" below: real `TopicLogSyncMessage`, `LogSyncMessage`,
//!   `TopicHandshakeMessage`, `String`, real signed operations, and a raw n-byte tuple type that
//!   also reaches `n = 0`), so one token = one real byte and `max_frame_len` is used literally;
//! * the bytes appended by `encode` are compared with `be32(n) ++ postcard(msg)` (byte fidelity),
//! * a decoded value is compared with the encoded one through its postcard bytes.
//!
//! replay: each behaviour exported by TLC is run (A) by direct `encode`/`decode`/`decode_eof` calls
//! on the real `Codec`, step by step, (B) through the real `FramedRead` over an `AsyncRead` that
//! yields exactly the behaviour's chunks, (W) through the real `FramedWrite`.
//! record: a seeded random driver (sender, chunking reader, connection cuts, random limits) runs the
//! real `FramedRead`; a delegating `Decoder` wrapper logs every `decode` / `decode_eof` call the
//! library makes, so the trace has one event per spec action.
use std::cell::RefCell;
use std::collections::{BTreeMap, VecDeque};
use std::pin::Pin;
use std::rc::Rc;
use std::task::{Context, Poll};

use futures_util::{FutureExt, SinkExt, Stream, StreamExt};
use p2panda_core::{Body, Header, SigningKey};
use p2panda_net::codec::{Codec, CodecError};
use p2panda_sync::protocols::{LogSyncMessage, TopicHandshakeMessage, TopicLogSyncMessage};
use serde::de::{DeserializeOwned, SeqAccess, Visitor};
use serde::ser::SerializeTuple;
use serde::{Deserialize, Serialize};
use tokio::io::{AsyncRead, ReadBuf};
use tokio_util::bytes::BytesMut;
use tokio_util::codec::{Decoder, Encoder, FramedRead, FramedWrite};
use vh_common::{Args, Outcome, Rng, TraceWriter, Value, catch, json, read_ndjson, unknown};

pub fn run(args: &Args) {
    match args.mode.as_str() {
        "replay" => replay(args),
        "record" => record(args),
        _ => unknown(args),
    }
}

// ------------------------------------------------------------------------------------------------
// Message families: abstract (content id, postcard size) -> real message value

trait Family {
    type M: Serialize + DeserializeOwned + Clone + std::fmt::Debug + 'static;
    const NAME: &'static str;
    /// A message whose postcard encoding has exactly `n` bytes (None: this family has none).
    fn make(n: usize, c: u64) -> Option<Self::M>;
}

/// `len` content bytes derived from the content id (different ids give different bytes).
fn fill(c: u64, len: usize) -> Vec<u8> {
    (0..len).map(|j| (c.wrapping_mul(37).wrapping_add(j as u64 * 11).wrapping_add(1)) as u8).collect()
}

/// Length L of a byte vector such that `fixed + varint(L) + L == n`, if any.
fn vec_len_for(n: usize, fixed: usize) -> Option<usize> {
    for varint in 1..=3usize {
        let l = n.checked_sub(fixed + varint)?;
        let need = if l < 128 {
            1
        } else if l < 16384 {
            2
        } else {
            3
        };
        if need == varint {
            return Some(l);
        }
    }
    None
}

/// Harness-owned message type whose postcard encoding is exactly its bytes (a tuple of u8 without
/// length prefix). The only way to put a zero-length frame through `Codec<M>` with varying sizes.
#[derive(Clone, Debug, PartialEq)]
struct Raw(Vec<u8>);

impl Serialize for Raw {
    fn serialize<S: serde::Serializer>(&self, s: S) -> Result<S::Ok, S::Error> {
        let mut t = s.serialize_tuple(self.0.len())?;
        for b in &self.0 {
            t.serialize_element(b)?;
        }
        t.end()
    }
}

impl<'de> Deserialize<'de> for Raw {
    fn deserialize<D: serde::Deserializer<'de>>(d: D) -> Result<Self, D::Error> {
        struct V;
        impl<'de> Visitor<'de> for V {
            type Value = Raw;
            fn expecting(&self, f: &mut std::fmt::Formatter) -> std::fmt::Result {
                f.write_str("raw bytes until the end of the frame")
            }
            fn visit_seq<A: SeqAccess<'de>>(self, mut seq: A) -> Result<Raw, A::Error> {
                let mut v = Vec::new();
                // reads until the frame's bytes are exhausted (postcard reports "unexpected end")
                while let Ok(Some(b)) = seq.next_element::<u8>() {
                    v.push(b);
                }
                Ok(Raw(v))
            }
        }
        d.deserialize_tuple(usize::MAX, V)
    }
}

struct RawFam;
impl Family for RawFam {
    type M = Raw;
    const NAME: &'static str = "raw";
    fn make(n: usize, c: u64) -> Option<Raw> {
        Some(Raw(fill(c, n)))
    }
}

type TopicMsg = TopicLogSyncMessage<u64, ()>;

struct TopicFam;
impl Family for TopicFam {
    type M = TopicMsg;
    const NAME: &'static str = "topic_log_sync";
    fn make(n: usize, c: u64) -> Option<TopicMsg> {
        Some(match n {
            0 => return None,
            1 => TopicLogSyncMessage::Close,
            2 => TopicLogSyncMessage::Sync(LogSyncMessage::Done),
            3 => TopicLogSyncMessage::Sync(LogSyncMessage::Have(BTreeMap::new())),
            4 => TopicLogSyncMessage::Sync(LogSyncMessage::PreSync {
                total_operations: (c % 128) as u32,
                total_bytes: ((c / 128) % 128) as u32,
            }),
            // variant(1) + variant(1) + varint(L) + L + option tag(1)
            _ if c % 2 == 0 => {
                TopicLogSyncMessage::Sync(LogSyncMessage::Operation(fill(c, vec_len_for(n, 3)?), None))
            }
            // ... + Some(1) + varint(0) for an empty body = 5 fixed
            _ => match vec_len_for(n, 5) {
                Some(l) if n >= 6 => TopicLogSyncMessage::Sync(LogSyncMessage::Operation(fill(c, l), Some(vec![]))),
                _ => TopicLogSyncMessage::Sync(LogSyncMessage::Operation(fill(c, vec_len_for(n, 3)?), None)),
            },
        })
    }
}

struct LogSyncFam;
impl Family for LogSyncFam {
    type M = LogSyncMessage<u64>;
    const NAME: &'static str = "log_sync";
    fn make(n: usize, c: u64) -> Option<Self::M> {
        Some(match n {
            0 => return None,
            1 => LogSyncMessage::Done,
            2 => LogSyncMessage::Have(BTreeMap::new()),
            3 if c % 2 == 0 => LogSyncMessage::PreSync {
                total_operations: (c % 128) as u32,
                total_bytes: ((c / 128) % 128) as u32,
            },
            _ => LogSyncMessage::Operation(fill(c, vec_len_for(n, 2)?), None),
        })
    }
}

struct HandshakeFam;
impl Family for HandshakeFam {
    type M = TopicHandshakeMessage<Vec<u8>>;
    const NAME: &'static str = "topic_handshake";
    fn make(n: usize, c: u64) -> Option<Self::M> {
        Some(match n {
            0 => return None,
            1 => TopicHandshakeMessage::Done,
            _ => TopicHandshakeMessage::Topic(fill(c, vec_len_for(n, 1)?)),
        })
    }
}

struct StringFam;
impl Family for StringFam {
    type M = String;
    const NAME: &'static str = "string";
    fn make(n: usize, c: u64) -> Option<String> {
        let l = vec_len_for(n, 0)?;
        Some(fill(c, l).into_iter().map(|b| (b'a' + b % 26) as char).collect())
    }
}

// ------------------------------------------------------------------------------------------------
// Replay

fn be32(n: usize) -> [u8; 4] {
    (n as u32).to_be_bytes()
}

/// AsyncRead that yields exactly the given chunk sizes of `data`, then EOF.
struct ChunkReader {
    data: Vec<u8>,
    pos: usize,
    chunks: VecDeque<usize>,
    /// set when a chunk did not fit the caller's buffer (would silently change the chunking)
    refused: bool,
}

impl AsyncRead for ChunkReader {
    fn poll_read(mut self: Pin<&mut Self>, _cx: &mut Context<'_>, buf: &mut ReadBuf<'_>) -> Poll<std::io::Result<()>> {
        if let Some(k) = self.chunks.pop_front() {
            if k > buf.remaining() || self.pos + k > self.data.len() {
                self.refused = true;
                return Poll::Ready(Err(std::io::Error::other("harness: chunk does not fit")));
            }
            let (pos, end) = (self.pos, self.pos + k);
            buf.put_slice(&self.data[pos..end]);
            self.pos = end;
        }
        Poll::Ready(Ok(()))
    }
}

#[derive(Default)]
struct Verdict {
    /// (signature, detail) of the first disagreement
    bad: Option<(String, String)>,
}

impl Verdict {
    fn fail(&mut self, sig: &str, detail: String) {
        if self.bad.is_none() {
            self.bad = Some((sig.to_string(), detail));
        }
    }
}

/// Runs one TLC behaviour on the real codec with message family `F`.
/// Returns None if the family cannot realise one of the sizes.
fn replay_with<F: Family>(b: &Value) -> Option<Verdict> {
    let steps = b["steps"].as_array().expect("steps");
    let enc_max = b["encMax"].as_u64().expect("encMax") as usize;
    let dec_max = b["decMax"].as_u64().expect("decMax") as usize;
    let mut v = Verdict::default();

    // real message values
    let mut msgs: BTreeMap<u64, (F::M, Vec<u8>)> = BTreeMap::new();
    for s in steps {
        if s["a"] == "Encode" {
            let (c, n) = (s["c"].as_u64().unwrap(), s["n"].as_u64().unwrap() as usize);
            let m = F::make(n, c)?;
            let bytes = postcard::to_allocvec(&m).expect("postcard");
            assert_eq!(bytes.len(), n, "harness: family {} size {n}", F::NAME);
            msgs.insert(c, (m, bytes));
        }
    }

    // ---- (A) direct calls, step by step -------------------------------------------------------
    let mut enc = Codec::<F::M>::new().max_frame_len(enc_max);
    let mut dec = Codec::<F::M>::new().max_frame_len(dec_max);
    let mut dst = BytesMut::new(); // everything the sender ever wrote (never drained here)
    let mut end: Option<usize> = None; // stream truncated at this offset (Cut)
    let mut pos = 0usize; // bytes already handed to the receiver
    let mut buf = BytesMut::new();
    let mut chunks: VecDeque<usize> = VecDeque::new();
    let mut expect_items: Vec<u64> = Vec::new();
    let mut expect_final = "open";
    for (i, s) in steps.iter().enumerate() {
        match s["a"].as_str().unwrap() {
            "Encode" => {
                let c = s["c"].as_u64().unwrap();
                let n = s["n"].as_u64().unwrap() as usize;
                let ok = s["ok"].as_bool().unwrap();
                let (m, bytes) = msgs[&c].clone();
                let before = dst.len();
                match catch(|| enc.encode(m, &mut dst)) {
                    Err(p) => v.fail("encode-panics", format!("step {i}: encode panicked: {p}")),
                    Ok(r) => {
                        if r.is_ok() != ok {
                            let sig = if ok { "encode-rejects-frame-within-max" } else { "encode-accepts-oversize-frame" };
                            v.fail(sig, format!("step {i}: encode of a {n}-byte message with max {enc_max}: got {:?}, spec says ok={ok}", r.map_err(|e| e.to_string())));
                        } else if ok {
                            let mut want = be32(n).to_vec();
                            want.extend_from_slice(&bytes);
                            if dst[before..] != want[..] {
                                v.fail("encode-bytes-differ", format!("step {i}: encode appended {:?}, expected be32(len) ++ postcard = {:?}", &dst[before..], want));
                            }
                        } else if dst.len() != before {
                            v.fail("encode-wrote-on-error", format!("step {i}: rejected encode left {} bytes in the buffer", dst.len() - before));
                        }
                    }
                }
            }
            "Close" => {}
            "Cut" => {
                let j = s["j"].as_u64().unwrap() as usize;
                end = Some(pos + j);
            }
            "Read" => {
                let k = s["k"].as_u64().unwrap() as usize;
                let limit = end.unwrap_or(dst.len()).min(dst.len());
                if pos + k > limit {
                    v.fail("stream-shorter-than-spec", format!("step {i}: spec reads {k} bytes but only {} are in flight", limit.saturating_sub(pos)));
                    break;
                }
                buf.extend_from_slice(&dst[pos..pos + k]);
                pos += k;
                chunks.push_back(k);
                if buf.len() as u64 != s["buflen"].as_u64().unwrap() {
                    v.fail("buffer-length-differs", format!("step {i}: buffer holds {} bytes after the read, spec says {}", buf.len(), s["buflen"]));
                }
            }
            "Decode" => {
                let res = s["res"].as_str().unwrap();
                match catch(|| dec.decode(&mut buf)) {
                    Err(p) => v.fail("decode-panics", format!("step {i}: decode panicked: {p}")),
                    Ok(r) => {
                        let got = match &r {
                            Ok(None) => "none",
                            Ok(Some(_)) => "item",
                            Err(_) => "too_large",
                        };
                        if got != res {
                            let sig = match (res, got) {
                                ("too_large", _) => "decode-accepts-oversize-frame",
                                (_, "too_large") => "decode-rejects-frame-within-max",
                                ("item", "none") => "decode-misses-complete-frame",
                                _ => "decode-yields-early",
                            };
                            v.fail(sig, format!("step {i}: decode returned {got} ({:?}), spec says {res}", r.as_ref().map(|_| ()).map_err(|e| e.to_string())));
                        } else if let Ok(Some(m)) = &r {
                            let c = s["c"].as_u64().unwrap();
                            let got_bytes = postcard::to_allocvec(m).expect("postcard");
                            if got_bytes != msgs[&c].1 {
                                v.fail("decoded-message-differs", format!("step {i}: decoded {m:?}, encoded message #{c} was {:?}", msgs[&c].0));
                            }
                            expect_items.push(c);
                        }
                        if v.bad.is_none() && buf.len() as u64 != s["buflen"].as_u64().unwrap() {
                            v.fail("buffer-length-differs", format!("step {i}: {} bytes left in the buffer after decode, spec says {}", buf.len(), s["buflen"]));
                        }
                        if res == "too_large" {
                            expect_final = "error";
                        }
                    }
                }
            }
            "Eof" => {
                let res = s["res"].as_str().unwrap();
                match catch(|| dec.decode_eof(&mut buf)) {
                    Err(p) => v.fail("decode-panics", format!("step {i}: decode_eof panicked: {p}")),
                    Ok(r) => {
                        let got = match &r {
                            Ok(None) => "ended",
                            Ok(Some(_)) => "item",
                            Err(_) => "bytes_remaining",
                        };
                        if got != res {
                            v.fail("eof-verdict-differs", format!("step {i}: decode_eof gave {got}, spec says {res}"));
                        }
                        expect_final = if res == "ended" { "end" } else { "error" };
                    }
                }
            }
            other => panic!("unknown step {other}"),
        }
        if v.bad.is_some() {
            return Some(v);
        }
    }

    // ---- (B) the same chunks through the real FramedRead --------------------------------------
    let limit = end.unwrap_or(dst.len()).min(dst.len());
    let reader = ChunkReader { data: dst[..limit].to_vec(), pos: 0, chunks, refused: false };
    let mut stream = FramedRead::new(reader, Codec::<F::M>::new().max_frame_len(dec_max));
    let outcome = catch(|| {
        let mut items: Vec<Vec<u8>> = Vec::new();
        let fin;
        loop {
            match stream.next().now_or_never() {
                None => {
                    fin = "pending";
                    break;
                }
                Some(None) => {
                    fin = "end";
                    break;
                }
                Some(Some(Ok(m))) => items.push(postcard::to_allocvec(&m).expect("postcard")),
                Some(Some(Err(_))) => {
                    fin = "error";
                    break;
                }
            }
            if items.len() > 64 {
                fin = "runaway";
                break;
            }
        }
        (items, fin)
    });
    match outcome {
        Err(p) => v.fail("decode-panics", format!("FramedRead panicked: {p}")),
        Ok((items, fin)) => {
            assert!(!stream.get_ref().refused, "harness: chunk larger than FramedRead's spare capacity");
            let want: Vec<&Vec<u8>> = expect_items.iter().map(|c| &msgs[c].1).collect();
            if items.iter().collect::<Vec<_>>() != want {
                v.fail("framedread-sequence-differs", format!("FramedRead yielded {} item(s) {:?}, spec/direct calls yield messages {:?}", items.len(), items, expect_items));
            } else if expect_final != "open" && fin != expect_final {
                v.fail("framedread-end-differs", format!("FramedRead finished with {fin}, spec says {expect_final}"));
            }
        }
    }
    if v.bad.is_some() {
        return Some(v);
    }

    // ---- (W) the encode calls through the real FramedWrite ------------------------------------
    let mut sink = FramedWrite::new(Vec::<u8>::new(), Codec::<F::M>::new().max_frame_len(enc_max));
    for s in steps.iter().filter(|s| s["a"] == "Encode") {
        let c = s["c"].as_u64().unwrap();
        let ok = s["ok"].as_bool().unwrap();
        match catch(|| sink.send(msgs[&c].0.clone()).now_or_never()) {
            Err(p) => v.fail("encode-panics", format!("FramedWrite::send panicked: {p}")),
            Ok(None) => v.fail("framedwrite-pending", "send into a Vec did not complete".into()),
            Ok(Some(r)) => {
                if r.is_ok() != ok {
                    let sig = if ok { "encode-rejects-frame-within-max" } else { "encode-accepts-oversize-frame" };
                    v.fail(sig, format!("FramedWrite::send of message #{c}: ok={}, spec says ok={ok}", r.is_ok()));
                }
            }
        }
    }
    if v.bad.is_none() && sink.get_ref()[..] != dst[..] {
        v.fail("encode-bytes-differ", format!("FramedWrite produced {:?}, direct encode calls {:?}", sink.get_ref(), &dst[..]));
    }
    Some(v)
}

fn replay(args: &Args) {
    let behaviours = read_ndjson(args.input.as_ref().expect("--in"));
    let mut out = Outcome::new(
        args,
        "every TLC-exported behaviour (encode calls, chunk boundaries, cuts, decode calls) executed on the real Codec \
         by direct encode/decode/decode_eof calls, through FramedRead over a chunk-yielding AsyncRead and through FramedWrite, \
         once per message family that has real values of all the behaviour's sizes; \
         non-trivial = at least one frame is split across chunks or rejected; distinct by behaviour x family",
    );
    for b in &behaviours {
        let steps = b["steps"].as_array().expect("steps");
        // non-trivial: a Decode returned none with a non-empty buffer (split frame), or any rejection
        let nontrivial = steps.iter().any(|s| {
            (s["a"] == "Decode" && s["res"] == "none" && s["buflen"].as_u64().unwrap_or(0) > 0)
                || s["res"] == "too_large"
                || s["res"] == "bytes_remaining"
                || s["ok"] == false
        });
        let mut ran = 0;
        let mut run_family = |name: &str, r: Option<Verdict>, out: &mut Outcome| {
            let Some(v) = r else {
                out.count(&format!("skipped:{name}"));
                return;
            };
            ran += 1;
            out.eval();
            out.count(&format!("family:{name}"));
            if nontrivial {
                out.mark_distinct(format!("{name}|{}", b["steps"]));
            }
            if let Some((sig, detail)) = v.bad {
                let mut case = b.clone();
                case["family"] = json!(name);
                out.violation("C26", &sig, format!("[{name}] {detail}"), case);
            }
        };
        let only = b.get("family").and_then(|f| f.as_str()).map(|s| s.to_string());
        let want = |n: &str| only.as_deref().is_none_or(|o| o == n);
        if want(RawFam::NAME) {
            run_family(RawFam::NAME, replay_with::<RawFam>(b), &mut out);
        }
        if want(TopicFam::NAME) {
            run_family(TopicFam::NAME, replay_with::<TopicFam>(b), &mut out);
        }
        if want(LogSyncFam::NAME) {
            run_family(LogSyncFam::NAME, replay_with::<LogSyncFam>(b), &mut out);
        }
        if want(HandshakeFam::NAME) {
            run_family(HandshakeFam::NAME, replay_with::<HandshakeFam>(b), &mut out);
        }
        if want(StringFam::NAME) {
            run_family(StringFam::NAME, replay_with::<StringFam>(b), &mut out);
        }
        assert!(ran > 0, "no family realises {b}");
        out.sample(b.clone());
        for s in steps {
            if let Some(r) = s["res"].as_str() {
                out.count(&format!("{}:{r}", s["a"].as_str().unwrap()));
            }
        }
    }
    out.write(args);
}

// ------------------------------------------------------------------------------------------------
// Record

/// Shared between the driver (sender side) and the reader handed to FramedRead.
struct Pipe {
    data: Vec<u8>,
    pos: usize,
    closed: bool,
    rng: Rng,
    log: Vec<Value>,
    /// postcard bytes -> content id
    table: BTreeMap<Vec<u8>, i64>,
}

impl Pipe {
    fn content_id(&mut self, bytes: &[u8], insert: bool) -> i64 {
        if let Some(c) = self.table.get(bytes) {
            return *c;
        }
        if !insert {
            return -1;
        }
        let c = self.table.len() as i64 + 1;
        self.table.insert(bytes.to_vec(), c);
        c
    }
}

struct PipeReader(Rc<RefCell<Pipe>>);

impl AsyncRead for PipeReader {
    fn poll_read(self: Pin<&mut Self>, _cx: &mut Context<'_>, buf: &mut ReadBuf<'_>) -> Poll<std::io::Result<()>> {
        let mut p = self.0.borrow_mut();
        let avail = p.data.len() - p.pos;
        if avail == 0 {
            // closed: a 0-byte read is EOF; open: nothing to read yet (the driver polls again later)
            return if p.closed { Poll::Ready(Ok(())) } else { Poll::Pending };
        }
        let cap = avail.min(buf.remaining()) as u64;
        let k = match p.rng.below(6) {
            0 => 1,
            1 => cap,
            2 | 3 => p.rng.range(1, cap.min(6)),
            _ => p.rng.range(1, cap),
        } as usize;
        let (pos, end) = (p.pos, p.pos + k);
        buf.put_slice(&p.data[pos..end]);
        p.pos = end;
        p.log.push(json!({"ev": "Read", "k": k}));
        Poll::Ready(Ok(()))
    }
}

/// Delegating decoder: every call the real FramedRead makes goes to the real `Codec` and is logged.
struct Spy<M> {
    inner: Codec<M>,
    pipe: Rc<RefCell<Pipe>>,
}

impl<M: DeserializeOwned + Serialize> Decoder for Spy<M> {
    type Item = M;
    type Error = CodecError;

    fn decode(&mut self, src: &mut BytesMut) -> Result<Option<M>, CodecError> {
        let r = self.inner.decode(src);
        let mut p = self.pipe.borrow_mut();
        let ev = match &r {
            Ok(None) => json!({"ev": "Decode", "res": "none", "c": 0, "n": 0, "buflen": src.len()}),
            Ok(Some(m)) => {
                let bytes = postcard::to_allocvec(m).expect("postcard");
                let c = p.content_id(&bytes, false);
                json!({"ev": "Decode", "res": "item", "c": c, "n": bytes.len(), "buflen": src.len()})
            }
            Err(_) => json!({"ev": "Decode", "res": "error", "c": 0, "n": 0, "buflen": src.len()}),
        };
        p.log.push(ev);
        r
    }

    fn decode_eof(&mut self, src: &mut BytesMut) -> Result<Option<M>, CodecError> {
        let r = self.inner.decode_eof(src);
        let res = match &r {
            Ok(None) => "ended",
            Ok(Some(_)) => "item",
            Err(_) => "error",
        };
        self.pipe.borrow_mut().log.push(json!({"ev": "Eof", "res": res, "buflen": src.len()}));
        r
    }
}

/// A real signed operation (header, optional body) with a body of `body_len` bytes.
fn operation(key: &SigningKey, seq_num: u32, backlink: Option<p2panda_core::Hash>, body_len: usize, c: u64) -> (Header<()>, Option<Body>) {
    let body = (body_len > 0).then(|| Body::new(&fill(c, body_len)));
    let mut header = Header::<()> {
        version: 1,
        verifying_key: key.verifying_key(),
        signature: None,
        payload_size: body.as_ref().map(|b| b.as_bytes().len() as u32).unwrap_or(0),
        payload_hash: body.as_ref().map(|b| b.hash()),
        seq_num,
        backlink,
        extensions: (),
    };
    header.sign(key);
    (header, body)
}

/// Random real wire message of the topic sync protocol (incl. live operations and sync operations
/// carrying real CBOR header bytes).
fn random_topic_msg(rng: &mut Rng, key: &SigningKey, log: &mut (u32, Option<p2panda_core::Hash>)) -> TopicMsg {
    match rng.below(8) {
        0 => TopicLogSyncMessage::Close,
        1 => TopicLogSyncMessage::Sync(LogSyncMessage::Done),
        2 => {
            let mut have = BTreeMap::new();
            for a in 0..rng.below(3) {
                let k = SigningKey::from_bytes(&[a as u8 + 1; 32]).verifying_key();
                let logs: BTreeMap<u64, u32> = (0..rng.below(3)).map(|l| (l, rng.below(1000) as u32)).collect();
                have.insert(k, logs);
            }
            TopicLogSyncMessage::Sync(LogSyncMessage::Have(have))
        }
        3 => TopicLogSyncMessage::Sync(LogSyncMessage::PreSync {
            total_operations: rng.below(100_000) as u32,
            total_bytes: rng.below(u32::MAX as u64) as u32,
        }),
        4 | 5 => {
            let body_len = *rng.pick(&[0usize, 1, 5, 40, 130]);
            let (h, b) = operation(key, log.0, log.1, body_len, rng.next_u64());
            *log = (log.0 + 1, Some(h.hash()));
            TopicLogSyncMessage::Sync(LogSyncMessage::Operation(h.to_bytes(), b.map(|b| b.to_bytes())))
        }
        _ => {
            let body_len = *rng.pick(&[0usize, 1, 5, 40, 130]);
            let (h, b) = operation(key, log.0, log.1, body_len, rng.next_u64());
            *log = (log.0 + 1, Some(h.hash()));
            TopicLogSyncMessage::Live(h, b)
        }
    }
}

/// One recorded run with message type `M`: random interleaving of encode calls, close / cut and
/// polls of the real FramedRead. Returns the number of items the stream yielded.
fn record_run<M>(rng: &mut Rng, msgs: Vec<M>, trace: &mut TraceWriter, out: &mut Outcome, run: usize, fam: &str)
where
    M: Serialize + DeserializeOwned + Clone + std::fmt::Debug + 'static,
{
    let sizes: Vec<usize> = msgs.iter().map(|m| postcard::to_allocvec(m).expect("postcard").len()).collect();
    let pick_max = |rng: &mut Rng| -> usize {
        let s = if sizes.is_empty() { 4 } else { *rng.pick(&sizes) };
        match rng.below(6) {
            0 => s.saturating_sub(1),
            1 => s,
            2 => s + 1,
            _ => 1 << 20,
        }
    };
    // the receiver's limit is at most the sender's in half of the runs, so rejections on the
    // decode side happen at all
    let enc_max = pick_max(rng);
    let dec_max = if rng.chance(1, 2) { pick_max(rng).min(enc_max) } else { pick_max(rng) };
    trace.event(json!({"ev": "Reset", "run": run, "family": fam, "encMax": enc_max, "decMax": dec_max}));

    let pipe = Rc::new(RefCell::new(Pipe {
        data: Vec::new(),
        pos: 0,
        closed: false,
        rng: Rng::new(rng.next_u64()),
        log: Vec::new(),
        table: BTreeMap::new(),
    }));
    let mut enc = Codec::<M>::new().max_frame_len(enc_max);
    let mut stream = FramedRead::new(PipeReader(pipe.clone()), Spy { inner: Codec::<M>::new().max_frame_len(dec_max), pipe: pipe.clone() });
    let waker = futures_util::task::noop_waker_ref();
    let mut cx = Context::from_waker(waker);
    let mut next_msg = 0usize;
    let mut yielded = 0usize;
    let mut rejected = false;
    let mut done = false;
    let mut budget = 400;
    while !done && budget > 0 {
        budget -= 1;
        let closed = pipe.borrow().closed;
        let choice = rng.below(10);
        if !closed && next_msg < msgs.len() && choice < 3 {
            let m = msgs[next_msg].clone();
            next_msg += 1;
            let bytes = postcard::to_allocvec(&m).expect("postcard");
            let c = pipe.borrow_mut().content_id(&bytes, true);
            let mut dst = BytesMut::new();
            out.eval();
            match catch(|| enc.encode(m, &mut dst)) {
                Err(p) => {
                    out.violation("C26", "encode-panics", p, json!({"family": fam, "n": bytes.len(), "encMax": enc_max}));
                    return;
                }
                Ok(r) => {
                    rejected |= r.is_err();
                    let mut p = pipe.borrow_mut();
                    p.data.extend_from_slice(&dst);
                    p.log.push(json!({"ev": "Encode", "c": c, "n": bytes.len(), "ok": r.is_ok(), "wrote": dst.len()}));
                }
            }
        } else if !closed && (choice == 3 && next_msg >= msgs.len() || choice == 3 && rng.chance(1, 4)) {
            let mut p = pipe.borrow_mut();
            p.closed = true;
            p.log.push(json!({"ev": "Close"}));
        } else if choice == 4 && rng.chance(1, 3) && pipe.borrow().data.len() > pipe.borrow().pos && !closed {
            let mut p = pipe.borrow_mut();
            let inflight = (p.data.len() - p.pos) as u64;
            let j = p.rng.below(inflight) as usize;
            let keep = p.pos + j;
            p.data.truncate(keep);
            p.closed = true;
            p.log.push(json!({"ev": "Cut", "j": j}));
            rejected = true;
        } else {
            out.eval();
            match catch(|| Pin::new(&mut stream).poll_next(&mut cx)) {
                Err(p) => {
                    out.violation("C26", "decode-panics", p, json!({"family": fam, "events": pipe.borrow().log}));
                    return;
                }
                Ok(Poll::Pending) => {}
                Ok(Poll::Ready(None)) => done = true,
                Ok(Poll::Ready(Some(Ok(_)))) => yielded += 1,
                Ok(Poll::Ready(Some(Err(_)))) => {
                    rejected = true;
                    done = true;
                }
            }
        }
    }
    let p = pipe.borrow();
    let split = p.log.iter().any(|e| e["ev"] == "Decode" && e["res"] == "none" && e["buflen"].as_u64().unwrap_or(0) > 0);
    if split || rejected {
        out.mark_distinct(format!("run{run}"));
    }
    out.count_by("items_yielded", yielded as u64);
    out.count(if done { "runs_finished" } else { "runs_left_open" });
    for e in &p.log {
        if let Some(r) = e["res"].as_str() {
            out.count(&format!("{}:{r}", e["ev"].as_str().unwrap()));
        }
        trace.event(e.clone());
    }
    if run < 3 {
        out.sample(json!({"family": fam, "encMax": enc_max, "decMax": dec_max, "events": p.log.len(), "sizes": sizes}));
    }
}

fn record(args: &Args) {
    let mut rng = Rng::new(args.seed);
    let n = if args.n > 0 { args.n } else { 100 };
    let mut trace = TraceWriter::create(args.out.as_ref().expect("--out"));
    let mut out = Outcome::new(
        args,
        "seeded random runs of the real FramedRead<_, Codec<M>> (every decode/decode_eof call logged by a delegating wrapper) \
         fed by a reader that splits the byte stream at random points, with a sender encoding real messages \
         (topic sync messages incl. signed live operations, log sync messages, operation tuples, raw 0..n byte frames) \
         under random max_frame_len on both sides, random close and connection cut; \
         non-trivial = a frame was split across reads or something was rejected; distinct by run",
    );
    let key = SigningKey::from_bytes(&[7; 32]);
    for run in 0..n {
        let count = rng.range(0, 6) as usize;
        match rng.below(4) {
            0 => {
                let mut log = (0u32, None);
                let msgs: Vec<TopicMsg> = (0..count).map(|_| random_topic_msg(&mut rng, &key, &mut log)).collect();
                record_run(&mut rng, msgs, &mut trace, &mut out, run, "topic_log_sync");
            }
            1 => {
                // the payload type of the codec's own `operations_stream` test
                let mut log: (u32, Option<p2panda_core::Hash>) = (0, None);
                let msgs: Vec<(Header<()>, Option<Body>)> = (0..count)
                    .map(|_| {
                        let body_len = *rng.pick(&[0usize, 1, 14, 90]);
                        let op = operation(&key, log.0, log.1, body_len, rng.next_u64());
                        log = (log.0 + 1, Some(op.0.hash()));
                        op
                    })
                    .collect();
                record_run(&mut rng, msgs, &mut trace, &mut out, run, "operation_tuple");
            }
            2 => {
                let msgs: Vec<LogSyncMessage<u64>> = (0..count)
                    .map(|_| {
                        let n = rng.range(1, 40) as usize;
                        LogSyncFam::make(n, rng.next_u64()).expect("log sync message")
                    })
                    .collect();
                record_run(&mut rng, msgs, &mut trace, &mut out, run, "log_sync");
            }
            _ => {
                let msgs: Vec<Raw> = (0..count).map(|_| Raw(fill(rng.next_u64(), rng.below(9) as usize))).collect();
                record_run(&mut rng, msgs, &mut trace, &mut out, run, "raw");
            }
        }
    }
    let (events, runs) = trace.finish();
    out.set_trace(events, runs);
    out.write(args);
}
