//! Spaces (C39): `p2panda_spaces::Manager::process` is idempotent and total — against spec/Spaces.
use std::borrow::Borrow;
use std::collections::{BTreeMap, BTreeSet};
use std::panic::AssertUnwindSafe;

use futures_util::FutureExt;
use p2panda_auth::Access;
use p2panda_auth::group::{GroupAction, GroupMember};
use p2panda_core::traits::Digest;
use p2panda_core::{Hash, VerifyingKey};
use p2panda_encryption::Rng as CryptoRng;
use p2panda_encryption::crypto::x25519::SecretKey;
use p2panda_encryption::key_bundle::{Lifetime, LongTermKeyBundle, PreKey};
use p2panda_spaces::test_utils::{TestConditions, TestForge, TestOperation, TestPeer, TestSpacesStore};
use p2panda_spaces::{AuthMessage, Event, Forge, SpacesArgs, SpacesStoreState};
use p2panda_store::groups::GroupsStore;
use p2panda_store::key_registry::KeyRegistryStore;
use p2panda_store::spaces::SpacesStore;
use p2panda_store::tx_unwrap;
use vh_common::{Args, Outcome, Rng, TraceWriter, Value, json, read_ndjson, unknown};

type Args_ = SpacesArgs<TestConditions>;

pub fn run(args: &Args) {
    match args.mode.as_str() {
        "replay" => replay(args),
        "record" => record(args),
        _ => unknown(args),
    }
}

fn hx(h: &Hash) -> String {
    h.to_hex()[..8].to_string()
}
fn kx(k: &VerifyingKey) -> String {
    k.to_hex()[..8].to_string()
}

/// Result of one `process` call on the real manager.
#[derive(Debug, Clone)]
enum Verdict {
    /// (event name, application payload if any)
    Ok(Vec<(String, Option<String>)>),
    Err(String),
    Panic(String),
}

impl Verdict {
    fn name(&self) -> &'static str {
        match self {
            Verdict::Ok(_) => "ok",
            Verdict::Err(_) => "err",
            Verdict::Panic(_) => "panic",
        }
    }
}

fn event_name(e: &Event<TestConditions>) -> String {
    use p2panda_spaces::Event::*;
    match e {
        Application { .. } => "Application".into(),
        KeyBundle { .. } => "KeyBundle".into(),
        Group(g) => {
            let s = format!("{g:?}");
            format!("Group.{}", s.split([' ', '{', '(']).next().unwrap_or("?"))
        }
        Space(sp) => {
            let s = format!("{sp:?}");
            format!("Space.{}", s.split([' ', '{', '(']).next().unwrap_or("?"))
        }
    }
}

/// `process` + persist, with a panic of the code under test caught and turned into data.
async fn process(peer: &TestPeer, op: &TestOperation) -> Verdict {
    let _ = peer.persist_operation(op).await;
    let fut = AssertUnwindSafe(peer.manager.process_persisted(op)).catch_unwind();
    match fut.await {
        Ok(Ok(events)) => Verdict::Ok(
            events
                .iter()
                .map(|e| {
                    let data = match e {
                        Event::Application { data, .. } => Some(String::from_utf8_lossy(data).to_string()),
                        _ => None,
                    };
                    (event_name(e), data)
                })
                .collect(),
        ),
        Ok(Err(e)) => Verdict::Err(e.to_string()),
        Err(p) => {
            let msg = if let Some(s) = p.downcast_ref::<&str>() {
                s.to_string()
            } else if let Some(s) = p.downcast_ref::<String>() {
                s.clone()
            } else {
                "panic".to_string()
            };
            Verdict::Panic(msg)
        }
    }
}

/// Canonical form of a CBOR value: map entries and array elements sorted (HashMap / HashSet
/// iteration order must not matter; duplicates still do).
fn canon(v: &ciborium::Value) -> String {
    use ciborium::Value as V;
    match v {
        V::Array(xs) => {
            let mut parts: Vec<String> = xs.iter().map(canon).collect();
            parts.sort();
            format!("[{}]", parts.join(","))
        }
        V::Map(kvs) => {
            let mut parts: Vec<String> = kvs.iter().map(|(k, v)| format!("{}:{}", canon(k), canon(v))).collect();
            parts.sort();
            format!("{{{}}}", parts.join(","))
        }
        V::Bytes(b) => format!("h'{}'", b.iter().map(|x| format!("{x:02x}")).collect::<String>()),
        V::Tag(t, inner) => format!("{t}({})", canon(inner)),
        other => format!("{other:?}"),
    }
}

fn canon_of<T: serde::Serialize>(t: &T) -> String {
    let v = ciborium::Value::serialized(t).expect("state serialises");
    let s = canon(&v);
    Hash::digest(s.as_bytes()).to_hex()[..16].to_string()
}

fn global_ctx() -> Hash {
    Hash::digest(b"global-groups-context")
}

fn access_name(a: &Access<TestConditions>) -> String {
    format!("{a}")
}

/// Everything observable about one replica.
#[derive(Debug, Clone, PartialEq, Eq)]
struct Snap {
    /// group id -> sorted members (public `members` view of the global auth state)
    groups: BTreeMap<String, Vec<(String, String)>>,
    auth_heads: BTreeSet<String>,
    /// space id -> (group, members, auth heads, space heads, welcomed)
    spaces: BTreeMap<String, SpaceSnap>,
    /// digests of the complete persisted states
    d_groups: String,
    d_spaces: BTreeMap<String, String>,
    d_registry: String,
}

#[derive(Debug, Clone, PartialEq, Eq)]
struct SpaceSnap {
    group: String,
    members: Vec<(String, String)>,
    auth_heads: BTreeSet<String>,
    heads: BTreeSet<String>,
    welcomed: bool,
}

async fn snapshot(peer: &TestPeer) -> Snap {
    let store = TestSpacesStore::new(peer.store.clone());
    let groups_y = tx_unwrap!(peer.store, {
        <TestSpacesStore as GroupsStore<AuthMessage<TestConditions>, TestConditions>>::get_groups_state_tx(&store, global_ctx())
            .await
            .unwrap()
    })
    .unwrap_or_default();
    let mut groups = BTreeMap::new();
    for gid in groups_y.inner.current_state().keys() {
        let mut ms: Vec<(String, String)> =
            groups_y.members(*gid).iter().map(|(m, a)| (kx(m), access_name(a))).collect();
        ms.sort();
        groups.insert(kx(gid), ms);
    }
    let auth_heads = groups_y.inner.heads().iter().map(hx).collect();
    let d_groups = canon_of(&groups_y);

    let ids = <TestSpacesStore as SpacesStore<SpacesStoreState<TestConditions>>>::space_ids(&store)
        .await
        .unwrap();
    let mut spaces = BTreeMap::new();
    let mut d_spaces = BTreeMap::new();
    for id in ids {
        let y: SpacesStoreState<TestConditions> = tx_unwrap!(peer.store, {
            <TestSpacesStore as SpacesStore<SpacesStoreState<TestConditions>>>::get_space_state_tx(&store, &id)
                .await
                .unwrap()
        })
        .expect("listed space has state");
        let mut ms: Vec<(String, String)> =
            y.groups_y.members(y.group_id).iter().map(|(m, a)| (kx(m), access_name(a))).collect();
        ms.sort();
        spaces.insert(
            hx(&id),
            SpaceSnap {
                group: kx(&y.group_id),
                members: ms,
                auth_heads: y.groups_y.inner.heads().iter().map(hx).collect(),
                heads: y.orderer.heads().iter().map(hx).collect(),
                welcomed: y.is_welcomed,
            },
        );
        d_spaces.insert(hx(&id), canon_of(&y));
    }
    let reg = <TestSpacesStore as KeyRegistryStore>::get_key_registry(&store).await.unwrap();
    let d_registry = match reg {
        Some(r) => canon_of(&r),
        None => "none".into(),
    };
    Snap { groups, auth_heads, spaces, d_groups, d_spaces, d_registry }
}

async fn forge(peer: &TestPeer, args: Args_) -> TestOperation {
    let f = TestForge::new(peer.store.clone(), peer.credentials.signing_key());
    f.forge(args).await.expect("forge")
}

fn runtime() -> tokio::runtime::Runtime {
    tokio::runtime::Builder::new_current_thread().enable_all().build().unwrap()
}



impl Snap {
    /// group / space state through the membership queries, graph heads and the welcomed flag
    fn abs_eq(&self, o: &Snap) -> bool {
        self.groups == o.groups && self.auth_heads == o.auth_heads && self.spaces == o.spaces
    }
    /// the complete persisted group and space states (canonical digests)
    fn digest_eq(&self, o: &Snap) -> bool {
        self.d_groups == o.d_groups && self.d_spaces == o.d_spaces
    }
}

async fn groups_state(peer: &TestPeer) -> p2panda_auth::group::GroupCrdtState<VerifyingKey, Hash, AuthMessage<TestConditions>, TestConditions> {
    let store = TestSpacesStore::new(peer.store.clone());
    tx_unwrap!(peer.store, {
        <TestSpacesStore as GroupsStore<AuthMessage<TestConditions>, TestConditions>>::get_groups_state_tx(&store, global_ctx())
            .await
            .unwrap()
    })
    .unwrap_or_default()
}

async fn space_state(peer: &TestPeer, sid: &Hash) -> Option<SpacesStoreState<TestConditions>> {
    let store = TestSpacesStore::new(peer.store.clone());
    tx_unwrap!(peer.store, {
        <TestSpacesStore as SpacesStore<SpacesStoreState<TestConditions>>>::get_space_state_tx(&store, sid)
            .await
            .unwrap()
    })
}

// ---------------------------------------------------------------------------------------------
// World: real peers + the messages created so far

const PEER_NAMES: [&str; 4] = ["p1", "p2", "p3", "p4"];
const MANAGER: usize = 0;

fn peer_index(name: &str) -> usize {
    PEER_NAMES.iter().position(|n| *n == name).unwrap_or_else(|| {
        eprintln!("unknown peer {name}");
        std::process::exit(2)
    })
}

struct Msg {
    op: TestOperation,
    author: usize,
    kind: &'static str,
    cls: String,
    /// auth action / target / access of valid auth messages; referenced auth message of valid member messages
    act: String,
    q: usize,
    acc: String,
    reference: Option<usize>,
    /// dependencies by the specification's rule (DepsFor), used to schedule first deliveries
    spec_deps: BTreeSet<usize>,
    /// plaintext of a valid application message (or of the message a forged copy was made from)
    payload: Option<String>,
}

struct World {
    peers: Vec<TestPeer>,
    msgs: Vec<Msg>,
    by_hash: BTreeMap<Hash, usize>,
    space_id: Hash,
    group_id: Option<VerifyingKey>,
    /// operations that are not messages of the history but must be in a receiver's message store
    /// (the auth operation a forged pointer refers to)
    extra: Vec<TestOperation>,
}

fn kind_of(a: &Args_) -> &'static str {
    match a {
        SpacesArgs::KeyBundle { .. } => "kb",
        SpacesArgs::Auth { .. } => "auth",
        SpacesArgs::SpaceMembership { .. } => "member",
        SpacesArgs::SpaceUpdate { .. } => "update",
        SpacesArgs::Application { .. } => "app",
    }
}

fn access_of(acc: &str) -> Access<TestConditions> {
    match acc {
        "pull" => Access::pull(),
        "read" => Access::read(),
        "manage" => Access::manage(),
        _ => Access::write(),
    }
}

fn rnd_hash() -> Hash {
    Hash::digest(b"no such message")
}

fn rnd_key() -> VerifyingKey {
    p2panda_core::SigningKey::from_bytes(&[77; 32]).verifying_key()
}

impl World {
    async fn new(n: usize, oob: bool) -> World {
        let mut peers = Vec::new();
        for i in 0..n {
            peers.push(TestPeer::new(i as u8).await);
        }
        for i in 0..peers.len() {
            // every peer generates its own bundle; with `oob` everybody learns everybody's bundle
            let me = peers[i].manager.me().await.unwrap();
            if oob {
                for j in 0..peers.len() {
                    if i != j {
                        peers[j].manager.register_member(&me).await.unwrap();
                    }
                }
            }
        }
        World { peers, msgs: vec![], by_hash: BTreeMap::new(), space_id: Hash::digest(b"s1"), group_id: None, extra: vec![] }
    }

    fn register(&mut self, op: TestOperation, author: usize, cls: &str, act: &str, q: usize, acc: &str, spec_deps: BTreeSet<usize>) -> usize {
        let args: &Args_ = op.borrow();
        let kind = kind_of(args);
        let reference = match args {
            SpacesArgs::SpaceMembership { auth_message_id, .. } => self.by_hash.get(auth_message_id).copied(),
            _ => None,
        };
        let idx = self.msgs.len();
        self.by_hash.insert(op.hash(), idx);
        self.msgs.push(Msg { op, author, kind, cls: cls.to_string(), act: act.to_string(), q, acc: acc.to_string(), reference, spec_deps, payload: None });
        idx
    }

    fn valid(&self, i: usize) -> bool {
        self.msgs[i].cls == "valid"
    }

    /// Spaces.tla DepsFor
    fn deps_for(&self, applied: &BTreeSet<usize>, kind: &str) -> BTreeSet<usize> {
        match kind {
            "kb" => BTreeSet::new(),
            "auth" => applied.iter().copied().filter(|k| self.valid(*k) && self.msgs[*k].kind == "auth").collect(),
            _ => applied.iter().copied().filter(|k| self.valid(*k) && self.msgs[*k].kind != "kb").collect(),
        }
    }

    /// Local operation through the public API; `Err` = the API refused (or panicked).
    async fn local(&mut self, applied: &BTreeSet<usize>, p: usize, op: &str, q: usize, acc: &str) -> Result<Vec<usize>, String> {
        let access = access_of(acc);
        let qid = self.peers.get(q).map(|x| x.manager.id());
        let sid = self.space_id;
        let peer = &self.peers[p];
        let n = self.msgs.len();
        let fut = AssertUnwindSafe(async {
            match op {
                "kb" => peer.manager.key_bundle_message().await.map(|m| vec![m]).map_err(|e| e.to_string()),
                "create" => {
                    let init: Vec<(VerifyingKey, Access<TestConditions>)> = match qid {
                        Some(k) if q != p => vec![(k, access.clone())],
                        _ => vec![],
                    };
                    peer.manager.create_space_persisted(sid, &init).await.map(|(_, ms)| ms).map_err(|e| e.to_string())
                }
                "add" => {
                    let sp = peer.manager.space(sid).await.map_err(|e| e.to_string())?.ok_or("no space")?;
                    sp.add_persisted(qid.unwrap(), access.clone()).await.map(|(a, b)| vec![a, b]).map_err(|e| e.to_string())
                }
                "remove" => {
                    let sp = peer.manager.space(sid).await.map_err(|e| e.to_string())?.ok_or("no space")?;
                    sp.remove_persisted(qid.unwrap()).await.map(|(a, b)| vec![a, b]).map_err(|e| e.to_string())
                }
                "publish" => {
                    let sp = peer.manager.space(sid).await.map_err(|e| e.to_string())?.ok_or("no space")?;
                    let payload = format!("payload-{}", n + 1);
                    sp.publish_persisted(payload.as_bytes()).await.map(|m| vec![m]).map_err(|e| e.to_string())
                }
                _ => Err(format!("unknown op {op}")),
            }
        })
        .catch_unwind();
        let ops = match fut.await {
            Ok(r) => r?,
            Err(_) => return Err("panic in local operation".into()),
        };
        if op == "create" {
            if let Ok(Some(sp)) = self.peers[p].manager.space(sid).await {
                self.group_id = sp.group_id().await.ok();
            }
        }
        let mut out = vec![];
        let mut mine = applied.clone();
        for o in ops {
            let kind = kind_of(o.borrow());
            let mut deps = self.deps_for(&mine, kind);
            if kind == "member" {
                if let Some(a) = out.last() {
                    deps.insert(*a);
                }
            }
            let (act, tq, tacc) = if kind == "auth" { (op, q, acc) } else { ("", 0, "") };
            let idx = self.register(o, p, "valid", act, tq, tacc, deps);
            if kind == "app" {
                self.msgs[idx].payload = Some(format!("payload-{}", n + 1));
            }
            mine.insert(idx);
            out.push(idx);
        }
        Ok(out)
    }

    /// (space members, group members) of space s1 / its group: peer name -> access.
    fn members_of(&self, snap: &Snap) -> (BTreeMap<String, String>, BTreeMap<String, String>) {
        let short = |k: &String| -> String {
            for (i, p) in self.peers.iter().enumerate() {
                if kx(&p.manager.id()) == *k {
                    return PEER_NAMES[i].to_string();
                }
            }
            format!("k:{k}")
        };
        let smem = snap
            .spaces
            .get(&hx(&self.space_id))
            .map(|s| s.members.iter().map(|(m, a)| (short(m), a.clone())).collect())
            .unwrap_or_default();
        let gmem = self
            .group_id
            .and_then(|g| snap.groups.get(&kx(&g)))
            .map(|ms| ms.iter().map(|(m, a)| (short(m), a.clone())).collect())
            .unwrap_or_default();
        (smem, gmem)
    }

    fn latest(&self, pred: impl Fn(&Msg) -> bool) -> Option<usize> {
        (0..self.msgs.len()).rev().find(|i| pred(&self.msgs[*i]))
    }

    /// Concretises an adversarial content class with real bytes (the case structure lives in
    /// Spaces.tla: ClassKind, Forger, ForgePre, NoDepClasses). `None`: not constructible here.
    async fn forge_variant(&mut self, applied_by: &BTreeSet<usize>, by: usize, cls: &str) -> Option<usize> {
        let sid = self.space_id;
        let gid = self.group_id?;
        let mgr = &self.peers[MANAGER];
        let forger = &self.peers[by];
        let auth_heads: Vec<Hash> = groups_state(forger).await.inner.heads().into_iter().collect();
        let space_y = space_state(forger, &sid).await;
        let space_heads: Vec<Hash> = space_y.as_ref().map(|y| y.orderer.heads().to_vec()).unwrap_or_default();
        let mgr_members = groups_state(mgr).await.members(gid);
        let target = self
            .peers
            .iter()
            .map(|p| p.manager.id())
            .find(|k| *k != mgr.manager.id() && mgr_members.iter().any(|(m, _)| m == k));
        let ind = GroupMember::Individual;
        let auth = |group_id, group_action, auth_dependencies| SpacesArgs::Auth { group_id, group_action, auth_dependencies };
        let member = |space_id, group_id, space_dependencies, auth_message_id| SpacesArgs::SpaceMembership {
            space_id,
            group_id,
            space_dependencies,
            auth_message_id,
            direct_messages: vec![],
        };
        let args: Args_ = match cls {
            "update" => SpacesArgs::SpaceUpdate { space_id: sid, group_id: gid, space_dependencies: space_heads },
            "update_unknown" => SpacesArgs::SpaceUpdate { space_id: rnd_hash(), group_id: rnd_key(), space_dependencies: vec![] },
            "auth_promote" => auth(gid, GroupAction::Promote { member: ind(target?), access: Access::manage() }, auth_heads),
            "auth_demote" => auth(gid, GroupAction::Demote { member: ind(target?), access: Access::pull() }, auth_heads),
            "auth_unknown_group" => auth(rnd_key(), GroupAction::Add { member: ind(rnd_key()), access: Access::read() }, auth_heads),
            "auth_no_deps" => auth(gid, GroupAction::Add { member: ind(rnd_key()), access: Access::read() }, vec![]),
            "auth_unknown_dep" => auth(gid, GroupAction::Add { member: ind(rnd_key()), access: Access::read() }, vec![rnd_hash()]),
            "auth_non_manager" => auth(gid, GroupAction::Add { member: ind(rnd_key()), access: Access::read() }, auth_heads),
            "auth_dup_create" => auth(
                gid,
                GroupAction::Create { initial_members: vec![(ind(mgr.manager.id()), Access::manage())] },
                auth_heads,
            ),
            "auth_remove_nonmember" => auth(gid, GroupAction::Remove { member: ind(rnd_key()) }, auth_heads),
            "auth_add_group_manage" => auth(gid, GroupAction::Add { member: GroupMember::Group(rnd_key()), access: Access::manage() }, auth_heads),
            "auth_add_self_group" => auth(gid, GroupAction::Add { member: GroupMember::Group(gid), access: Access::read() }, auth_heads),
            "member_unknown_auth" => member(sid, gid, space_heads, rnd_hash()),
            "member_ptr_not_auth" => {
                let k = self.latest(|m| m.cls == "valid" && (m.kind == "kb" || m.kind == "app"))?;
                member(sid, gid, space_heads, self.msgs[k].op.hash())
            }
            "member_unknown_space" => {
                let k = self.latest(|m| m.cls == "valid" && m.kind == "auth" && m.act != "create")?;
                member(rnd_hash(), gid, vec![], self.msgs[k].op.hash())
            }
            "member_new_space" => {
                let k = self.latest(|m| m.cls == "valid" && m.kind == "auth" && m.act == "create")?;
                member(Hash::digest(b"s2"), gid, vec![], self.msgs[k].op.hash())
            }
            "member_wrong_group" => {
                let k = self.latest(|m| m.cls == "valid" && m.kind == "auth")?;
                member(sid, rnd_key(), space_heads, self.msgs[k].op.hash())
            }
            "member_dup_pointer" => {
                let k = (0..self.msgs.len()).rev().find(|i| applied_by.contains(i) && self.valid(*i) && self.msgs[*i].kind == "auth")?;
                member(sid, gid, space_heads, self.msgs[k].op.hash())
            }
            "member_ptr_promote" => {
                let promote = forge(forger, auth(gid, GroupAction::Promote { member: ind(target?), access: Access::manage() }, auth_heads)).await;
                let h = promote.hash();
                self.extra.push(promote);
                member(sid, gid, space_heads, h)
            }
            "app_unknown_space" => SpacesArgs::Application {
                space_id: rnd_hash(),
                space_dependencies: vec![],
                group_secret_id: [1; 32],
                nonce: [0; 24],
                ciphertext: vec![1, 2, 3],
            },
            "app_wrong_secret" => SpacesArgs::Application {
                space_id: sid,
                space_dependencies: space_heads,
                group_secret_id: [1; 32],
                nonce: [0; 24],
                ciphertext: vec![1, 2, 3],
            },
            "app_garbage" => {
                let secret = space_state(mgr, &sid).await?.secrets.latest().map(|s| s.id())?;
                SpacesArgs::Application { space_id: sid, space_dependencies: space_heads, group_secret_id: secret, nonce: [3; 24], ciphertext: vec![9; 40] }
            }
            "app_unknown_dep" => {
                let k = self.latest(|m| m.cls == "valid" && m.kind == "app")?;
                let a: &Args_ = self.msgs[k].op.borrow();
                match a {
                    SpacesArgs::Application { group_secret_id, nonce, ciphertext, .. } => SpacesArgs::Application {
                        space_id: sid,
                        space_dependencies: vec![rnd_hash()],
                        group_secret_id: group_secret_id.clone(),
                        nonce: nonce.clone(),
                        ciphertext: ciphertext.clone(),
                    },
                    _ => return None,
                }
            }
            "kb_other_identity" | "kb_bad_signature" | "kb_expired" => {
                let rng = CryptoRng::from_seed([9; 32]);
                let other_identity = SecretKey::from_rng(&rng).ok()?;
                let prekey_secret = SecretKey::from_rng(&rng).ok()?;
                let now = std::time::SystemTime::now().duration_since(std::time::UNIX_EPOCH).unwrap().as_secs();
                let key_bundle = match cls {
                    "kb_other_identity" => {
                        let prekey = PreKey::new(prekey_secret.verifying_key().ok()?, Lifetime::new(3600));
                        let sig = prekey.sign(&other_identity, &rng).ok()?;
                        LongTermKeyBundle::new(other_identity.verifying_key().ok()?, prekey, sig)
                    }
                    "kb_bad_signature" => {
                        let prekey = PreKey::new(prekey_secret.verifying_key().ok()?, Lifetime::new(3600));
                        let sig = prekey.sign(&prekey_secret, &rng).ok()?;
                        LongTermKeyBundle::new(forger.credentials.identity_secret().verifying_key().ok()?, prekey, sig)
                    }
                    _ => {
                        let prekey = PreKey::new(prekey_secret.verifying_key().ok()?, Lifetime::from_range(now - 100, now - 50));
                        let sig = prekey.sign(&forger.credentials.identity_secret(), &rng).ok()?;
                        LongTermKeyBundle::new(forger.credentials.identity_secret().verifying_key().ok()?, prekey, sig)
                    }
                };
                SpacesArgs::KeyBundle { key_bundle }
            }
            _ => return None,
        };
        let kind = kind_of(&args);
        let no_deps = [
            "update_unknown", "auth_no_deps", "auth_unknown_dep", "member_unknown_auth", "app_unknown_space", "app_unknown_dep",
            "kb_other_identity", "kb_bad_signature", "kb_expired",
        ];
        let deps = if no_deps.contains(&cls) { BTreeSet::new() } else { self.deps_for(applied_by, kind) };
        let op = forge(&self.peers[by], args).await;
        let idx = self.register(op, by, cls, "", 0, "", deps);
        if cls == "app_unknown_dep" {
            let k = self.latest(|m| m.cls == "valid" && m.kind == "app")?;
            self.msgs[idx].payload = self.msgs[k].payload.clone();
        }
        Some(idx)
    }
}

/// All adversarial content classes (Spaces.tla ClassKind).
const ALL_CLASSES: [&str; 27] = [
    "update", "update_unknown", "auth_promote", "auth_demote", "auth_unknown_group", "auth_no_deps", "auth_unknown_dep",
    "auth_non_manager", "auth_dup_create", "auth_remove_nonmember", "auth_add_group_manage", "auth_add_self_group",
    "member_unknown_auth", "member_ptr_not_auth", "member_unknown_space", "member_new_space", "member_wrong_group",
    "member_dup_pointer", "member_ptr_promote", "app_unknown_space", "app_wrong_secret", "app_garbage", "app_unknown_dep",
    "kb_other_identity", "kb_bad_signature", "kb_expired", "",
];

// ---------------------------------------------------------------------------------------------
// Executor shared by replay and record

/// Defects of the unchanged tree that are listed in known_findings.json: the harness reports them
/// under exactly these signatures and the recorded trace marks the event (Trace_Spaces skips it).
const KNOWN_SIGNATURES: [&str; 1] = ["redelivery-emits-events:kb"];

struct ProcOut {
    verdict: Verdict,
    again: bool,
    nev: usize,
    changed_abs: bool,
    changed_digest: bool,
    changed_registry: bool,
    smem: BTreeMap<String, String>,
    gmem: BTreeMap<String, String>,
    /// C39 violations seen in this step: (signature, detail)
    violations: Vec<(String, String)>,
}

struct Exec {
    w: World,
    applied: Vec<BTreeSet<usize>>,
    /// per peer: application payload -> number of Application events emitted so far
    app_seen: Vec<BTreeMap<String, u32>>,
    /// the steps executed so far in the TLC export format (a replayable case)
    steps: Vec<Value>,
    oob: bool,
}

fn panic_signature(m: &Msg, text: &str) -> String {
    if text.contains("group already present in states map") {
        "panic:auth-group-missing".into()
    } else if m.kind == "update" {
        "panic:space-update".into()
    } else if text.contains("not implemented") && (m.kind == "auth" || m.kind == "member") {
        "panic:promote-demote".into()
    } else if m.kind == "kb" && text.contains("assertion") {
        "panic:kb-identity-changed".into()
    } else {
        format!("panic:{}:{}", m.kind, m.cls)
    }
}

impl Exec {
    async fn new(n: usize, oob: bool) -> Exec {
        Exec { w: World::new(n, oob).await, applied: vec![BTreeSet::new(); n], app_seen: vec![BTreeMap::new(); n], steps: vec![], oob }
    }

    fn case(&self) -> Value {
        json!({"kind": "spaces", "oob": self.oob, "peers": self.w.peers.len(), "steps": self.steps})
    }

    async fn local(&mut self, p: usize, op: &str, q: usize, acc: &str) -> Result<Vec<usize>, String> {
        let ids = self.w.local(&self.applied[p].clone(), p, op, q, acc).await?;
        for i in &ids {
            self.applied[p].insert(*i);
        }
        self.steps.push(json!({"a": "Local", "p": PEER_NAMES[p], "op": op, "q": PEER_NAMES[q], "acc": acc,
                               "ids": ids.iter().map(|i| i + 1).collect::<Vec<_>>()}));
        Ok(ids)
    }

    async fn forge(&mut self, by: usize, cls: &str) -> Option<usize> {
        let id = self.w.forge_variant(&self.applied[by].clone(), by, cls).await?;
        self.steps.push(json!({"a": "Forge", "by": PEER_NAMES[by], "cls": cls, "id": id + 1}));
        Some(id)
    }

    /// One `process` call on the real manager of peer p, with everything C39 talks about observed.
    async fn process(&mut self, p: usize, m: usize) -> ProcOut {
        let peer = &self.w.peers[p];
        for extra in &self.w.extra {
            let _ = peer.persist_operation(extra).await;
        }
        let again = self.applied[p].contains(&m);
        let before = snapshot(peer).await;
        let verdict = process(peer, &self.w.msgs[m].op).await;
        let msg = &self.w.msgs[m];
        let kind = msg.kind;
        let mut violations = vec![];
        if let Verdict::Panic(text) = &verdict {
            violations.push((
                panic_signature(msg, text),
                format!("Manager::process panicked ({text:?}) on a {kind} message of class {:?} processed by {}", msg.cls, PEER_NAMES[p]),
            ));
            self.steps.push(json!({"a": "Process", "p": PEER_NAMES[p], "m": m + 1, "v": "panic", "again": again, "known": false, "smem": {}, "gmem": {}}));
            return ProcOut {
                verdict,
                again,
                nev: 0,
                changed_abs: false,
                changed_digest: false,
                changed_registry: false,
                smem: BTreeMap::new(),
                gmem: BTreeMap::new(),
                violations,
            };
        }
        let after = snapshot(peer).await;
        let (smem, gmem) = self.w.members_of(&after);
        let changed_abs = !before.abs_eq(&after);
        let changed_digest = !before.digest_eq(&after);
        let changed_registry = before.d_registry != after.d_registry;
        let events: Vec<(String, Option<String>)> = match &verdict {
            Verdict::Ok(evs) => evs.clone(),
            _ => vec![],
        };
        let nev = events.len();
        for (_, data) in &events {
            if let (Some(d), false) = (data, again) {
                // every message carrying this plaintext (the original and forged copies of its
                // ciphertext) may surface it once
                let carriers = self.w.msgs.iter().filter(|x| x.payload.as_deref() == Some(d.as_str())).count() as u32;
                let c = self.app_seen[p].entry(d.clone()).or_insert(0);
                *c += 1;
                if *c > carriers.max(1) {
                    violations.push((
                        "app-event-twice".into(),
                        format!("{} received the Application event for {d:?} {} times", PEER_NAMES[p], *c),
                    ));
                }
            }
        }
        if again {
            if nev > 0 {
                violations.push((
                    format!("redelivery-emits-events:{kind}"),
                    format!(
                        "{} processed {kind} message m{} a second time and got events {:?} (expected none)",
                        PEER_NAMES[p],
                        m + 1,
                        events.iter().map(|e| e.0.clone()).collect::<Vec<_>>()
                    ),
                ));
            }
            if changed_abs || changed_digest {
                violations.push((
                    format!("redelivery-changes-state:{kind}"),
                    format!(
                        "{} processed {kind} message m{} a second time and its persisted group/space state changed (members/heads changed: {changed_abs}, state digest changed: {changed_digest})",
                        PEER_NAMES[p],
                        m + 1
                    ),
                ));
            }
        } else {
            match &verdict {
                Verdict::Ok(_) => {
                    self.applied[p].insert(m);
                }
                Verdict::Err(e) => {
                    if changed_abs {
                        violations.push((
                            format!("error-changed-state:{kind}"),
                            format!("{} rejected {kind} message m{} ({e}) but its group/space state changed", PEER_NAMES[p], m + 1),
                        ));
                    }
                }
                Verdict::Panic(_) => unreachable!(),
            }
        }
        self.steps.push(json!({"a": "Process", "p": PEER_NAMES[p], "m": m + 1, "v": verdict.name(), "again": again, "known": false,
                               "smem": smem, "gmem": gmem}));
        ProcOut { verdict, again, nev, changed_abs, changed_digest, changed_registry, smem, gmem, violations }
    }
}

/// `{"p1": "manage", "p2": "none"}` -> members only
fn view_map(v: &Value) -> BTreeMap<String, String> {
    v.as_object()
        .map(|o| o.iter().filter_map(|(k, a)| a.as_str().filter(|a| *a != "none").map(|a| (k.clone(), a.to_string()))).collect())
        .unwrap_or_default()
}

// ---------------------------------------------------------------------------------------------
// spec -> impl

fn replay(args: &Args) {
    let behaviours = read_ndjson(args.input.as_ref().expect("--in"));
    let mut out = Outcome::new(
        args,
        "every TLC-exported behaviour (local operations, causal first deliveries, model-scheduled re-deliveries, forged adversarial \
         content classes) executed on real p2panda_spaces::Manager replicas; after every step every message the replica has already \
         processed is delivered again (saturation); non-trivial = behaviour with at least one re-delivery of a message that had \
         changed state or a forged message; distinct by step sequence",
    );
    let saturate = args.extra.get("saturate").map(|s| s != "0").unwrap_or(true);
    let rt = runtime();
    let mut followed_to_end = 0u64;
    let mut drifted = 0u64;
    let mut per_sig: BTreeMap<String, u32> = BTreeMap::new();
    for b in &behaviours {
        out.eval();
        let (viols, counters, complete, nontrivial) = rt.block_on(replay_one(b, saturate));
        for (k, n) in &counters {
            out.count_by(k, *n);
        }
        if complete {
            followed_to_end += 1;
        } else if !counters.contains_key("stopped:panic") {
            // stopped although nothing went wrong at that step: the export oracle / the guards of
            // the specification do not describe what the code did here
            drifted += 1;
        }
        if nontrivial {
            out.mark_distinct(b["steps"].to_string());
        }
        if viols.is_empty() {
            out.sample(b.clone());
        }
        for (sig, detail) in viols {
            // one replayable case per failure class is enough (the total is kept as a counter)
            out.count(&format!("violations:{sig}"));
            let c = per_sig.entry(sig.clone()).or_insert(0);
            *c += 1;
            if *c <= 1 {
                out.violation("C39", &sig, detail, b.clone());
            }
        }
    }
    out.count_by("behaviours-followed-to-the-end", followed_to_end);
    // drift guard: the verdict oracle of the export (MC_Spaces Likely) must describe the code well
    // enough that most behaviours can be followed; otherwise the replay would be vacuous.
    out.count_by("behaviours-not-followed-to-the-end-without-panic", drifted);
    if behaviours.len() >= 20 && drifted * 3 > behaviours.len() as u64 {
        out.write(args);
        eprintln!("replay is vacuous: {drifted} of {} behaviours could not be followed (verdict oracle / guards drifted)", behaviours.len());
        std::process::exit(2);
    }
    out.write(args);
}

type Counters = BTreeMap<String, u64>;

async fn replay_one(b: &Value, saturate: bool) -> (Vec<(String, String)>, Counters, bool, bool) {
    let mut viols: Vec<(String, String)> = vec![];
    let mut counters = Counters::new();
    let mut count = |k: &str| *counters.entry(k.to_string()).or_insert(0) += 1;
    let n = b["peers"].as_u64().unwrap_or(3) as usize;
    let oob = b["oob"].as_bool().unwrap_or(true);
    let mut ex = Exec::new(n, oob).await;
    let mut nontrivial = false;
    let mut seen_sigs: BTreeSet<String> = BTreeSet::new();
    let mut push = |viols: &mut Vec<(String, String)>, v: Vec<(String, String)>| {
        for (sig, d) in v {
            if seen_sigs.insert(sig.clone()) {
                viols.push((sig, d));
            }
        }
    };
    let steps = b["steps"].as_array().expect("steps");
    for (k, st) in steps.iter().enumerate() {
        let mut touched: Option<usize> = None;
        match st["a"].as_str() {
            Some("Local") => {
                let p = peer_index(st["p"].as_str().unwrap());
                let q = peer_index(st["q"].as_str().unwrap_or("p1"));
                let op = st["op"].as_str().unwrap();
                let want: Vec<u64> = st["ids"].as_array().unwrap().iter().map(|x| x.as_u64().unwrap()).collect();
                match ex.local(p, op, q, st["acc"].as_str().unwrap_or("")).await {
                    Ok(ids) => {
                        if ids.iter().map(|i| *i as u64 + 1).collect::<Vec<_>>() != want {
                            count(&format!("stopped:local-{op}-created-other-messages"));
                            return (viols, counters, false, nontrivial);
                        }
                        count(&format!("local:{op}"));
                        touched = Some(p);
                    }
                    Err(_) => {
                        count(&format!("stopped:local-{op}-refused"));
                        return (viols, counters, false, nontrivial);
                    }
                }
            }
            Some("Forge") => {
                let by = peer_index(st["by"].as_str().unwrap());
                let cls = st["cls"].as_str().unwrap();
                match ex.forge(by, cls).await {
                    Some(id) if id as u64 + 1 == st["id"].as_u64().unwrap() => {
                        count(&format!("forged:{cls}"));
                        nontrivial = true;
                    }
                    _ => {
                        count(&format!("stopped:forge-{cls}-not-constructible"));
                        return (viols, counters, false, nontrivial);
                    }
                }
            }
            Some("Process") => {
                let p = peer_index(st["p"].as_str().unwrap());
                let m = st["m"].as_u64().unwrap() as usize - 1;
                let o = ex.process(p, m).await;
                let kind = ex.w.msgs[m].kind;
                let cls = ex.w.msgs[m].cls.clone();
                let panicked = matches!(o.verdict, Verdict::Panic(_));
                push(&mut viols, o.violations.clone());
                if panicked {
                    count("stopped:panic");
                    return (viols, counters, false, true);
                }
                if o.again != st["again"].as_bool().unwrap_or(false) {
                    count("stopped:again-flag-differs");
                    return (viols, counters, false, nontrivial);
                }
                if o.again {
                    count(&format!("again:{kind}"));
                    if o.changed_registry {
                        count("again:key-registry-changed");
                    }
                    if kind != "kb" {
                        nontrivial = true;
                    }
                } else {
                    count(&format!("first:{kind}:{}:{}", if cls == "valid" { "valid" } else { cls.as_str() }, o.verdict.name()));
                    if o.verdict.name() != st["v"].as_str().unwrap_or("ok") {
                        // the code's verdict is an input of the specification; this exported behaviour
                        // assumed the other one: not a violation, follow it no further
                        count(&format!("stopped:verdict-differs-from-export-oracle:{kind}:{cls}:{}", o.verdict.name()));
                        return (viols, counters, false, nontrivial);
                    }
                    if st["known"].as_bool().unwrap_or(false) && matches!(o.verdict, Verdict::Ok(_)) {
                        let (smem, gmem) = (view_map(&st["smem"]), view_map(&st["gmem"]));
                        if smem != o.smem || gmem != o.gmem {
                            push(
                                &mut viols,
                                vec![(
                                    "state-not-function-of-set".into(),
                                    format!(
                                        "after step {k} {} shows space members {:?} / group members {:?}, the specification computes {:?} / {:?} from the set of processed messages",
                                        PEER_NAMES[p], o.smem, o.gmem, smem, gmem
                                    ),
                                )],
                            );
                        }
                    }
                }
                touched = Some(p);
            }
            other => {
                eprintln!("unknown step {other:?}");
                std::process::exit(2);
            }
        }
        // saturation: every message this replica has processed so far, delivered again now
        if let (true, Some(p)) = (saturate, touched) {
            let ids: Vec<usize> = ex.applied[p].iter().copied().collect();
            let mark = ex.steps.len();
            for m in ids {
                let o = ex.process(p, m).await;
                let kind = ex.w.msgs[m].kind;
                count(&format!("saturation:{kind}"));
                let panicked = matches!(o.verdict, Verdict::Panic(_));
                push(&mut viols, o.violations.clone());
                if panicked {
                    count("stopped:panic");
                    return (viols, counters, false, true);
                }
            }
            // saturation steps are not part of the exported behaviour: keep the case as exported
            ex.steps.truncate(mark);
        }
    }
    (viols, counters, true, nontrivial)
}

// ---------------------------------------------------------------------------------------------
// impl -> spec

fn record(args: &Args) {
    let mut rng = Rng::new(args.seed);
    let n = if args.n > 0 { args.n } else { 30 };
    let mut trace = TraceWriter::create(args.out.as_ref().expect("--out"));
    let mut out = Outcome::new(
        args,
        "seeded random spaces histories on 3 real Manager replicas (single manager; key bundles, create, add/remove with \
         read/write/pull access, application messages, forged adversarial classes), first deliveries in causal order, every \
         processed message delivered again at a random later point (the rest at the end of the run); one trace event per call; \
         non-trivial = re-delivery of a message that was accepted; distinct by (run, peer, message)",
    );
    let rt = runtime();
    let mut per_sig: BTreeMap<String, u32> = BTreeMap::new();
    for run in 0..n {
        let seed = rng.next_u64();
        let (viols, counters, distinct, case) = rt.block_on(record_one(run, seed, &mut trace, args.thorough()));
        for (k, c) in counters {
            out.count_by(&k, c);
        }
        for d in distinct {
            out.eval();
            out.mark_distinct(d);
        }
        if viols.is_empty() {
            out.sample(json!({"run": run, "steps": case["steps"].as_array().map(|a| a.len())}));
        }
        for (sig, detail) in viols {
            out.count(&format!("violations:{sig}"));
            let c = per_sig.entry(sig.clone()).or_insert(0);
            *c += 1;
            if *c <= 1 {
                out.violation("C39", &sig, detail, case.clone());
            }
        }
    }
    let (events, runs) = trace.finish();
    out.set_trace(events, runs);
    out.write(args);
}

async fn record_one(run: usize, seed: u64, trace: &mut TraceWriter, thorough: bool) -> (Vec<(String, String)>, Counters, Vec<String>, Value) {
    let mut rng = Rng::new(seed);
    let mut viols: Vec<(String, String)> = vec![];
    let mut seen_sigs: BTreeSet<String> = BTreeSet::new();
    let mut counters = Counters::new();
    let mut distinct = vec![];
    let n = 3usize;
    let oob = rng.chance(2, 3);
    let mut ex = Exec::new(n, oob).await;
    trace.event(json!({"ev": "Reset", "run": run, "oob": oob}));
    // harness-side mirror of the specification's guards (only operations the specification allows
    // are attempted; what the code refuses is simply not logged)
    let mut created = false;
    let mut gview: BTreeMap<usize, String> = BTreeMap::new(); // manager's view of the group
    let mut tainted = vec![false; n];
    let mut redelivered: BTreeSet<(usize, usize)> = BTreeSet::new();
    let mut nforge = 0;
    let steps = rng.range(25, if thorough { 70 } else { 45 });
    let mut step = 0;
    let mut flushing = false;
    loop {
        step += 1;
        if step > steps {
            flushing = true;
        }
        // candidate actions
        let mut first: Vec<(usize, usize)> = vec![];
        let mut again: Vec<(usize, usize)> = vec![];
        for p in 0..n {
            for m in 0..ex.w.msgs.len() {
                if ex.applied[p].contains(&m) {
                    if !redelivered.contains(&(p, m)) {
                        again.push((p, m));
                    }
                } else if ex.w.msgs[m].spec_deps.is_subset(&ex.applied[p]) && !ex.w.msgs[m].cls.is_empty() {
                    first.push((p, m));
                }
            }
        }
        // messages that were rejected are not offered again (the verdict would repeat)
        first.retain(|(p, m)| !redelivered.contains(&(*p + 100, *m)));
        let choice = if flushing {
            if again.is_empty() {
                break;
            }
            2
        } else {
            match rng.below(10) {
                0..=2 => 0,                       // local operation / forge
                3..=6 if !first.is_empty() => 1,  // first delivery
                _ if !again.is_empty() => 2,      // re-delivery
                _ if !first.is_empty() => 1,
                _ => 0,
            }
        };
        match choice {
            0 => {
                // pick an operation the specification's guards allow
                let has_bundle = |ex: &Exec, q: usize| {
                    oob || q == MANAGER || ex.applied[MANAGER].iter().any(|k| ex.w.valid(*k) && ex.w.msgs[*k].kind == "kb" && ex.w.msgs[*k].author == q)
                };
                let mut ops: Vec<(usize, &str, usize, &str)> = vec![];
                for p in 0..n {
                    ops.push((p, "kb", p, ""));
                }
                let accs = ["write", "read", "pull"];
                if !created && !tainted[MANAGER] {
                    for q in 0..n {
                        if has_bundle(&ex, q) {
                            ops.push((MANAGER, "create", q, *rng.pick(&accs)));
                            ops.push((MANAGER, "create", q, *rng.pick(&accs)));
                        }
                    }
                }
                if created && !tainted[MANAGER] {
                    for q in 1..n {
                        if !gview.contains_key(&q) && has_bundle(&ex, q) {
                            ops.push((MANAGER, "add", q, *rng.pick(&accs)));
                            ops.push((MANAGER, "add", q, *rng.pick(&accs)));
                        }
                        if gview.contains_key(&q) {
                            ops.push((MANAGER, "remove", q, ""));
                        }
                    }
                }
                if created {
                    for p in 0..n {
                        if !tainted[p] {
                            // Spaces.tla WelcomedOf: a valid member message in applied[p] whose auth operation welcomed p
                            let welcomed = ex.applied[p].iter().any(|k| {
                                let m = &ex.w.msgs[*k];
                                m.kind == "member" && m.cls == "valid" && m.reference.map_or(false, |a| {
                                    let a = &ex.w.msgs[a];
                                    (a.act == "create" && (p == MANAGER || (a.q == p && a.acc != "pull"))) || (a.act == "add" && a.q == p && a.acc != "pull")
                                })
                            });
                            if welcomed {
                                ops.push((p, "publish", p, ""));
                                ops.push((p, "publish", p, ""));
                            }
                        }
                    }
                }
                let want_forge = created && !tainted[MANAGER] && nforge < 3 && rng.chance(1, 4);
                if want_forge {
                    let cls = *rng.pick(&ALL_CLASSES[..26]);
                    let by = match cls {
                        "auth_non_manager" | "member_dup_pointer" => rng.range(1, n as u64 - 1) as usize,
                        c if c.starts_with("app_") || c.starts_with("kb_") || c == "update_unknown" => rng.below(n as u64) as usize,
                        _ => MANAGER,
                    };
                    // Spaces.tla ForgePre
                    let pre = match cls {
                        "auth_promote" | "auth_demote" | "member_ptr_promote" => !gview.is_empty(),
                        "member_ptr_not_auth" => ex.w.msgs.iter().any(|m| m.cls == "valid" && (m.kind == "kb" || m.kind == "app")),
                        "member_unknown_space" => ex.w.msgs.iter().any(|m| m.cls == "valid" && m.kind == "auth" && m.act != "create"),
                        "member_dup_pointer" => ex.applied[by].iter().any(|k| ex.w.valid(*k) && ex.w.msgs[*k].kind == "auth"),
                        "app_unknown_dep" => ex.w.msgs.iter().any(|m| m.cls == "valid" && m.kind == "app"),
                        _ => true,
                    };
                    if pre {
                        if let Some(id) = ex.forge(by, cls).await {
                            nforge += 1;
                            *counters.entry(format!("forged:{cls}")).or_insert(0) += 1;
                            trace.event(json!({"ev": "Forge", "by": PEER_NAMES[by], "cls": cls, "id": id + 1}));
                        }
                    }
                    continue;
                }
                let (p, op, q, acc) = *rng.pick(&ops);
                match ex.local(p, op, q, acc).await {
                    Ok(ids) => {
                        match op {
                            "create" => {
                                created = true;
                                if q != MANAGER {
                                    gview.insert(q, acc.to_string());
                                }
                            }
                            "add" => {
                                gview.insert(q, acc.to_string());
                            }
                            "remove" => {
                                gview.remove(&q);
                            }
                            _ => {}
                        }
                        *counters.entry(format!("local:{op}")).or_insert(0) += 1;
                        trace.event(json!({"ev": "Local", "p": PEER_NAMES[p], "op": op, "q": PEER_NAMES[q], "acc": acc,
                                           "ids": ids.iter().map(|i| i + 1).collect::<Vec<_>>()}));
                    }
                    Err(_) => {
                        *counters.entry(format!("local-refused:{op}")).or_insert(0) += 1;
                    }
                }
            }
            _ => {
                let (p, m) = if choice == 1 { *rng.pick(&first) } else { *rng.pick(&again) };
                let o = ex.process(p, m).await;
                let kind = ex.w.msgs[m].kind;
                let cls = ex.w.msgs[m].cls.clone();
                let mut skip: Option<String> = None;
                for (sig, d) in &o.violations {
                    if KNOWN_SIGNATURES.contains(&sig.as_str()) && o.violations.len() == 1 {
                        skip = Some(sig.clone());
                    }
                    if seen_sigs.insert(sig.clone()) {
                        viols.push((sig.clone(), d.clone()));
                    }
                }
                if o.again {
                    redelivered.insert((p, m));
                    *counters.entry(format!("again:{kind}")).or_insert(0) += 1;
                    if o.changed_registry {
                        *counters.entry("again:key-registry-changed".into()).or_insert(0) += 1;
                    }
                    distinct.push(format!("{run}:{p}:{m}"));
                } else {
                    *counters.entry(format!("first:{kind}:{}:{}", if cls == "valid" { "valid" } else { cls.as_str() }, o.verdict.name())).or_insert(0) += 1;
                    match o.verdict {
                        Verdict::Ok(_) => {
                            if cls != "valid" {
                                tainted[p] = true;
                            }
                        }
                        _ => {
                            redelivered.insert((p + 100, m));
                        }
                    }
                }
                let mut ev = json!({"ev": "Process", "p": PEER_NAMES[p], "m": m + 1, "res": o.verdict.name(), "again": o.again,
                                    "nev": o.nev, "changed": o.changed_abs || o.changed_digest, "changedAbs": o.changed_abs, "kind": kind, "cls": cls,
                                    "smem": o.smem, "gmem": o.gmem});
                if let Some(sig) = skip {
                    ev["skip"] = json!(sig);
                }
                trace.event(ev);
                if matches!(o.verdict, Verdict::Panic(_)) {
                    // the replica is not used again after a panic
                    break;
                }
            }
        }
        if step > steps + 400 {
            break;
        }
    }
    let case = ex.case();
    (viols, counters, distinct, case)
}
