//! Conformance harness binary `vh-spaces`: one module per TLA+ specification (see /verif/spec).
mod spaces;

fn main() {
    let args = vh_common::Args::parse();
    vh_common::quiet_panics();
    match args.module.as_str() {
        "spaces" => spaces::run(&args),
        _ => vh_common::unknown(&args),
    }
}
